// synfacts: parses a Rust source file (the macro-expanded crate, or a raw file) with syn and dumps a
// generic JSON form of the syntax tree. No policy lives here.
// usage: synfacts <in.rs> <out.json>
use proc_macro2::{Span, TokenStream, TokenTree};
use quote::ToTokens;
use std::fmt::Write as _;
use syn::punctuated::Punctuated;
use syn::spanned::Spanned;
use syn::*;

fn esc(s: &str) -> String {
    let mut o = String::with_capacity(s.len() + 2);
    for c in s.chars() {
        match c {
            '\\' => o.push_str("\\\\"),
            '"' => o.push_str("\\\""),
            '\n' => o.push_str("\\n"),
            '\r' => o.push_str("\\r"),
            '\t' => o.push_str("\\t"),
            c if (c as u32) < 0x20 => {
                let _ = write!(o, "\\u{:04x}", c as u32);
            }
            c => o.push(c),
        }
    }
    o
}
fn q(s: &str) -> String {
    format!("\"{}\"", esc(s))
}
fn ln(sp: Span) -> usize {
    sp.start().line
}
fn toks<T: ToTokens>(t: &T) -> String {
    // normalised token string: single spaces
    let s = t.to_token_stream().to_string();
    s.split_whitespace().collect::<Vec<_>>().join(" ")
}
fn path_str(p: &Path) -> String {
    let mut s = String::new();
    if p.leading_colon.is_some() {
        s.push_str("::");
    }
    let mut first = true;
    for seg in &p.segments {
        if !first {
            s.push_str("::");
        }
        first = false;
        s.push_str(&seg.ident.to_string());
    }
    s
}
fn path_generics(p: &Path) -> String {
    let mut s = String::new();
    for seg in &p.segments {
        if !matches!(seg.arguments, PathArguments::None) {
            s.push_str(&toks(&seg.arguments));
        }
    }
    s
}
fn qpath_str(qself: &Option<QSelf>, p: &Path) -> String {
    match qself {
        Some(qs) => format!("<{}>::{}", toks(&*qs.ty), path_str(p)),
        None => path_str(p),
    }
}
fn list(v: Vec<String>) -> String {
    format!("[{}]", v.join(","))
}
fn opt(v: Option<String>) -> String {
    v.unwrap_or_else(|| "null".to_string())
}

fn pat(p: &Pat) -> String {
    let l = ln(p.span());
    match p {
        Pat::Ident(pi) => format!(
            "{{\"k\":\"pident\",\"name\":{},\"ref\":{},\"mut\":{},\"sub\":{},\"ln\":{}}}",
            q(&pi.ident.to_string()),
            pi.by_ref.is_some(),
            pi.mutability.is_some(),
            opt(pi.subpat.as_ref().map(|(_, sp)| pat(sp))),
            l
        ),
        Pat::Wild(_) => format!("{{\"k\":\"pwild\",\"ln\":{}}}", l),
        Pat::Path(pp) => format!("{{\"k\":\"ppath\",\"p\":{},\"ln\":{}}}", q(&qpath_str(&pp.qself, &pp.path)), l),
        Pat::TupleStruct(ts) => format!(
            "{{\"k\":\"ptstruct\",\"p\":{},\"elems\":{},\"ln\":{}}}",
            q(&qpath_str(&ts.qself, &ts.path)),
            list(ts.elems.iter().map(pat).collect()),
            l
        ),
        Pat::Struct(ps) => format!(
            "{{\"k\":\"pstruct\",\"p\":{},\"fields\":{},\"rest\":{},\"ln\":{}}}",
            q(&qpath_str(&ps.qself, &ps.path)),
            list(
                ps.fields
                    .iter()
                    .map(|f| format!("[{},{}]", q(&member_str(&f.member)), pat(&f.pat)))
                    .collect()
            ),
            ps.rest.is_some(),
            l
        ),
        Pat::Tuple(pt) => format!(
            "{{\"k\":\"ptuple\",\"elems\":{},\"ln\":{}}}",
            list(pt.elems.iter().map(pat).collect()),
            l
        ),
        Pat::Or(po) => format!(
            "{{\"k\":\"por\",\"cases\":{},\"ln\":{}}}",
            list(po.cases.iter().map(pat).collect()),
            l
        ),
        Pat::Lit(pl) => format!("{{\"k\":\"plit\",\"e\":{},\"ln\":{}}}", lit(&pl.lit, l), l),
        Pat::Reference(pr) => format!("{{\"k\":\"pref\",\"p\":{},\"ln\":{}}}", pat(&pr.pat), l),
        Pat::Paren(pp) => pat(&pp.pat),
        Pat::Range(pr) => format!(
            "{{\"k\":\"prange\",\"lo\":{},\"hi\":{},\"closed\":{},\"ln\":{}}}",
            opt(pr.start.as_ref().map(|e| expr(e))),
            opt(pr.end.as_ref().map(|e| expr(e))),
            matches!(pr.limits, RangeLimits::Closed(_)),
            l
        ),
        Pat::Slice(ps) => format!(
            "{{\"k\":\"pslice\",\"elems\":{},\"ln\":{}}}",
            list(ps.elems.iter().map(pat).collect()),
            l
        ),
        Pat::Rest(_) => format!("{{\"k\":\"prest\",\"ln\":{}}}", l),
        Pat::Type(pt) => format!(
            "{{\"k\":\"ptype\",\"p\":{},\"ty\":{},\"ln\":{}}}",
            pat(&pt.pat),
            q(&toks(&*pt.ty)),
            l
        ),
        other => format!("{{\"k\":\"pother\",\"src\":{},\"ln\":{}}}", q(&toks(other)), l),
    }
}

fn member_str(m: &Member) -> String {
    match m {
        Member::Named(i) => i.to_string(),
        Member::Unnamed(i) => i.index.to_string(),
    }
}

fn lit(l: &Lit, line: usize) -> String {
    match l {
        Lit::Str(s) => format!("{{\"k\":\"lit\",\"t\":\"str\",\"v\":{},\"ln\":{}}}", q(&s.value()), line),
        Lit::Char(c) => format!(
            "{{\"k\":\"lit\",\"t\":\"char\",\"v\":{},\"ln\":{}}}",
            q(&c.value().to_string()),
            line
        ),
        Lit::Int(i) => format!(
            "{{\"k\":\"lit\",\"t\":\"int\",\"v\":{},\"suffix\":{},\"ln\":{}}}",
            q(i.base10_digits()),
            q(i.suffix()),
            line
        ),
        Lit::Bool(b) => format!("{{\"k\":\"lit\",\"t\":\"bool\",\"v\":{},\"ln\":{}}}", b.value, line),
        Lit::Float(f) => format!(
            "{{\"k\":\"lit\",\"t\":\"float\",\"v\":{},\"ln\":{}}}",
            q(f.base10_digits()),
            line
        ),
        Lit::Byte(b) => format!(
            "{{\"k\":\"lit\",\"t\":\"byte\",\"v\":{},\"ln\":{}}}",
            q(&(b.value() as char).to_string()),
            line
        ),
        Lit::ByteStr(b) => format!(
            "{{\"k\":\"lit\",\"t\":\"bytestr\",\"v\":{},\"ln\":{}}}",
            q(&String::from_utf8_lossy(&b.value())),
            line
        ),
        other => format!(
            "{{\"k\":\"lit\",\"t\":\"other\",\"v\":{},\"ln\":{}}}",
            q(&toks(other)),
            line
        ),
    }
}

fn block(b: &Block) -> String {
    let l = ln(b.span());
    format!(
        "{{\"k\":\"block\",\"stmts\":{},\"ln\":{}}}",
        list(b.stmts.iter().map(stmt).collect()),
        l
    )
}

fn stmt(s: &Stmt) -> String {
    match s {
        Stmt::Local(lo) => {
            let l = ln(lo.span());
            let (init, els) = match &lo.init {
                Some(i) => (
                    Some(expr(&i.expr)),
                    i.diverge.as_ref().map(|(_, e)| expr(e)),
                ),
                None => (None, None),
            };
            format!(
                "{{\"k\":\"local\",\"pat\":{},\"init\":{},\"else\":{},\"ln\":{}}}",
                pat(&lo.pat),
                opt(init),
                opt(els),
                l
            )
        }
        Stmt::Item(it) => item(it, &mut Vec::new(), None),
        Stmt::Expr(e, semi) => format!(
            "{{\"k\":\"expr\",\"e\":{},\"semi\":{},\"ln\":{}}}",
            expr(e),
            semi.is_some(),
            ln(e.span())
        ),
        Stmt::Macro(m) => format!(
            "{{\"k\":\"expr\",\"e\":{},\"semi\":{},\"ln\":{}}}",
            mac(&m.mac),
            m.semi_token.is_some(),
            ln(m.span())
        ),
    }
}

fn split_commas(ts: TokenStream) -> Vec<TokenStream> {
    let mut out = Vec::new();
    let mut cur = TokenStream::new();
    for tt in ts {
        match &tt {
            TokenTree::Punct(p) if p.as_char() == ',' => {
                out.push(std::mem::take(&mut cur));
            }
            _ => cur.extend(std::iter::once(tt)),
        }
    }
    if !cur.is_empty() {
        out.push(cur);
    }
    out
}

fn mac(m: &Macro) -> String {
    let name = path_str(&m.path);
    let l = ln(m.span());
    // try: comma separated expression list
    let parser = Punctuated::<Expr, Token![,]>::parse_terminated;
    use syn::parse::Parser;
    if let Ok(args) = parser.parse2(m.tokens.clone()) {
        return format!(
            "{{\"k\":\"macro\",\"name\":{},\"args\":{},\"ln\":{}}}",
            q(&name),
            list(args.iter().map(expr).collect()),
            l
        );
    }
    // format_args with named args `name = expr`: split at commas, parse each part as expr or `ident = expr`
    let mut parts = Vec::new();
    let mut ok = true;
    for part in split_commas(m.tokens.clone()) {
        if let Ok(e) = syn::parse2::<Expr>(part.clone()) {
            parts.push(expr(&e));
        } else {
            ok = false;
            break;
        }
    }
    if ok {
        return format!(
            "{{\"k\":\"macro\",\"name\":{},\"args\":{},\"ln\":{}}}",
            q(&name),
            list(parts),
            l
        );
    }
    format!(
        "{{\"k\":\"macro\",\"name\":{},\"raw\":{},\"ln\":{}}}",
        q(&name),
        q(&toks(&m.tokens)),
        l
    )
}

fn expr(e: &Expr) -> String {
    let l = ln(e.span());
    match e {
        Expr::Lit(x) => lit(&x.lit, l),
        Expr::Path(x) => format!(
            "{{\"k\":\"path\",\"p\":{},\"g\":{},\"ln\":{}}}",
            q(&qpath_str(&x.qself, &x.path)),
            q(&path_generics(&x.path)),
            l
        ),
        Expr::Call(x) => format!(
            "{{\"k\":\"call\",\"f\":{},\"args\":{},\"ln\":{}}}",
            expr(&x.func),
            list(x.args.iter().map(expr).collect()),
            l
        ),
        Expr::MethodCall(x) => format!(
            "{{\"k\":\"mcall\",\"recv\":{},\"m\":{},\"args\":{},\"tf\":{},\"ln\":{}}}",
            expr(&x.receiver),
            q(&x.method.to_string()),
            list(x.args.iter().map(expr).collect()),
            q(&x.turbofish.as_ref().map(|t| toks(t)).unwrap_or_default()),
            ln(x.method.span())
        ),
        Expr::Field(x) => format!(
            "{{\"k\":\"field\",\"base\":{},\"name\":{},\"ln\":{}}}",
            expr(&x.base),
            q(&member_str(&x.member)),
            l
        ),
        Expr::Struct(x) => format!(
            "{{\"k\":\"struct\",\"p\":{},\"fields\":{},\"rest\":{},\"ln\":{}}}",
            q(&qpath_str(&x.qself, &x.path)),
            list(
                x.fields
                    .iter()
                    .map(|f| format!("[{},{}]", q(&member_str(&f.member)), expr(&f.expr)))
                    .collect()
            ),
            opt(x.rest.as_ref().map(|r| expr(r))),
            l
        ),
        Expr::Match(x) => format!(
            "{{\"k\":\"match\",\"e\":{},\"arms\":{},\"ln\":{}}}",
            expr(&x.expr),
            list(
                x.arms
                    .iter()
                    .map(|a| format!(
                        "{{\"pat\":{},\"guard\":{},\"body\":{},\"ln\":{}}}",
                        pat(&a.pat),
                        opt(a.guard.as_ref().map(|(_, g)| expr(g))),
                        expr(&a.body),
                        ln(a.pat.span())
                    ))
                    .collect()
            ),
            l
        ),
        Expr::If(x) => format!(
            "{{\"k\":\"if\",\"c\":{},\"then\":{},\"else\":{},\"ln\":{}}}",
            expr(&x.cond),
            block(&x.then_branch),
            opt(x.else_branch.as_ref().map(|(_, e)| expr(e))),
            l
        ),
        Expr::Let(x) => format!(
            "{{\"k\":\"let\",\"pat\":{},\"e\":{},\"ln\":{}}}",
            pat(&x.pat),
            expr(&x.expr),
            l
        ),
        Expr::Block(x) => block(&x.block),
        Expr::Unsafe(x) => format!("{{\"k\":\"unsafe\",\"b\":{},\"ln\":{}}}", block(&x.block), l),
        Expr::Closure(x) => format!(
            "{{\"k\":\"closure\",\"params\":{},\"body\":{},\"ln\":{}}}",
            list(x.inputs.iter().map(pat).collect()),
            expr(&x.body),
            l
        ),
        Expr::Unary(x) => format!(
            "{{\"k\":\"unary\",\"op\":{},\"e\":{},\"ln\":{}}}",
            q(&toks(&x.op)),
            expr(&x.expr),
            l
        ),
        Expr::Binary(x) => format!(
            "{{\"k\":\"binary\",\"op\":{},\"l\":{},\"r\":{},\"ln\":{}}}",
            q(&toks(&x.op)),
            expr(&x.left),
            expr(&x.right),
            l
        ),
        Expr::Reference(x) => format!(
            "{{\"k\":\"ref\",\"mut\":{},\"e\":{},\"ln\":{}}}",
            x.mutability.is_some(),
            expr(&x.expr),
            l
        ),
        Expr::Try(x) => format!("{{\"k\":\"try\",\"e\":{},\"ln\":{}}}", expr(&x.expr), l),
        Expr::Return(x) => format!(
            "{{\"k\":\"return\",\"e\":{},\"ln\":{}}}",
            opt(x.expr.as_ref().map(|e| expr(e))),
            l
        ),
        Expr::Break(x) => format!(
            "{{\"k\":\"break\",\"e\":{},\"ln\":{}}}",
            opt(x.expr.as_ref().map(|e| expr(e))),
            l
        ),
        Expr::Continue(_) => format!("{{\"k\":\"continue\",\"ln\":{}}}", l),
        Expr::ForLoop(x) => format!(
            "{{\"k\":\"for\",\"pat\":{},\"iter\":{},\"body\":{},\"ln\":{}}}",
            pat(&x.pat),
            expr(&x.expr),
            block(&x.body),
            l
        ),
        Expr::While(x) => format!(
            "{{\"k\":\"while\",\"c\":{},\"body\":{},\"ln\":{}}}",
            expr(&x.cond),
            block(&x.body),
            l
        ),
        Expr::Loop(x) => format!("{{\"k\":\"loop\",\"body\":{},\"ln\":{}}}", block(&x.body), l),
        Expr::Tuple(x) => format!(
            "{{\"k\":\"tuple\",\"elems\":{},\"ln\":{}}}",
            list(x.elems.iter().map(expr).collect()),
            l
        ),
        Expr::Array(x) => format!(
            "{{\"k\":\"array\",\"elems\":{},\"ln\":{}}}",
            list(x.elems.iter().map(expr).collect()),
            l
        ),
        Expr::Repeat(x) => format!(
            "{{\"k\":\"repeat\",\"e\":{},\"len\":{},\"ln\":{}}}",
            expr(&x.expr),
            expr(&x.len),
            l
        ),
        Expr::Index(x) => format!(
            "{{\"k\":\"index\",\"e\":{},\"i\":{},\"ln\":{}}}",
            expr(&x.expr),
            expr(&x.index),
            l
        ),
        Expr::Cast(x) => format!(
            "{{\"k\":\"cast\",\"e\":{},\"ty\":{},\"ln\":{}}}",
            expr(&x.expr),
            q(&toks(&*x.ty)),
            l
        ),
        Expr::Range(x) => format!(
            "{{\"k\":\"range\",\"lo\":{},\"hi\":{},\"closed\":{},\"ln\":{}}}",
            opt(x.start.as_ref().map(|e| expr(e))),
            opt(x.end.as_ref().map(|e| expr(e))),
            matches!(x.limits, RangeLimits::Closed(_)),
            l
        ),
        Expr::Paren(x) => expr(&x.expr),
        Expr::Group(x) => expr(&x.expr),
        Expr::Assign(x) => format!(
            "{{\"k\":\"assign\",\"l\":{},\"r\":{},\"ln\":{}}}",
            expr(&x.left),
            expr(&x.right),
            l
        ),
        Expr::Macro(x) => mac(&x.mac),
        other => format!("{{\"k\":\"other\",\"src\":{},\"ln\":{}}}", q(&toks(other)), l),
    }
}

fn sig(s: &Signature) -> String {
    let inputs: Vec<String> = s
        .inputs
        .iter()
        .map(|a| match a {
            FnArg::Receiver(r) => format!(
                "{{\"pat\":{{\"k\":\"pident\",\"name\":\"self\",\"ref\":false,\"mut\":{},\"sub\":null,\"ln\":{}}},\"ty\":{}}}",
                r.mutability.is_some() && r.reference.is_none(),
                ln(r.span()),
                q(&toks(&*r.ty))
            ),
            FnArg::Typed(t) => format!("{{\"pat\":{},\"ty\":{}}}", pat(&t.pat), q(&toks(&*t.ty))),
        })
        .collect();
    let ret = match &s.output {
        ReturnType::Default => String::new(),
        ReturnType::Type(_, t) => toks(&**t),
    };
    format!("{{\"inputs\":{},\"ret\":{},\"generics\":{}}}", list(inputs), q(&ret), q(&toks(&s.generics)))
}

fn attrs(a: &[Attribute]) -> String {
    list(a.iter().map(|x| q(&toks(&x.meta))).collect())
}

fn item(it: &Item, modpath: &mut Vec<String>, impl_of: Option<&str>) -> String {
    let l = ln(it.span());
    match it {
        Item::Mod(m) => {
            modpath.push(m.ident.to_string());
            let items = match &m.content {
                Some((_, items)) => list(items.iter().map(|i| item(i, modpath, None)).collect()),
                None => "[]".to_string(),
            };
            let p = modpath.join("::");
            modpath.pop();
            format!(
                "{{\"k\":\"mod\",\"name\":{},\"path\":{},\"items\":{},\"ln\":{}}}",
                q(&m.ident.to_string()),
                q(&p),
                items,
                l
            )
        }
        Item::Fn(f) => format!(
            "{{\"k\":\"fn\",\"name\":{},\"mod\":{},\"impl_of\":{},\"sig\":{},\"attrs\":{},\"vis\":{},\"body\":{},\"ln\":{}}}",
            q(&f.sig.ident.to_string()),
            q(&modpath.join("::")),
            opt(impl_of.map(q)),
            sig(&f.sig),
            attrs(&f.attrs),
            q(&toks(&f.vis)),
            block(&f.block),
            l
        ),
        Item::Impl(im) => {
            let self_ty = toks(&*im.self_ty);
            let tr = im.trait_.as_ref().map(|(_, p, _)| toks(p));
            let items: Vec<String> = im
                .items
                .iter()
                .map(|ii| match ii {
                    ImplItem::Fn(f) => format!(
                        "{{\"k\":\"fn\",\"name\":{},\"mod\":{},\"impl_of\":{},\"trait\":{},\"sig\":{},\"attrs\":{},\"vis\":{},\"body\":{},\"ln\":{}}}",
                        q(&f.sig.ident.to_string()),
                        q(&modpath.join("::")),
                        q(&self_ty),
                        opt(tr.as_ref().map(|t| q(t))),
                        sig(&f.sig),
                        attrs(&f.attrs),
                        q(&toks(&f.vis)),
                        block(&f.block),
                        ln(f.span())
                    ),
                    ImplItem::Const(c) => format!(
                        "{{\"k\":\"const\",\"name\":{},\"mod\":{},\"ty\":{},\"e\":{},\"ln\":{}}}",
                        q(&c.ident.to_string()),
                        q(&modpath.join("::")),
                        q(&toks(&c.ty)),
                        expr(&c.expr),
                        ln(c.span())
                    ),
                    ImplItem::Type(t) => format!(
                        "{{\"k\":\"type\",\"name\":{},\"ty\":{},\"ln\":{}}}",
                        q(&t.ident.to_string()),
                        q(&toks(&t.ty)),
                        ln(t.span())
                    ),
                    other => format!("{{\"k\":\"other\",\"src\":{}}}", q(&toks(other).chars().take(80).collect::<String>())),
                })
                .collect();
            format!(
                "{{\"k\":\"impl\",\"self_ty\":{},\"trait\":{},\"mod\":{},\"attrs\":{},\"items\":{},\"ln\":{}}}",
                q(&self_ty),
                opt(tr.as_ref().map(|t| q(t))),
                q(&modpath.join("::")),
                attrs(&im.attrs),
                list(items),
                l
            )
        }
        Item::Enum(e) => {
            let vs: Vec<String> = e
                .variants
                .iter()
                .map(|v| {
                    let fs: Vec<String> = v
                        .fields
                        .iter()
                        .enumerate()
                        .map(|(i, f)| {
                            format!(
                                "[{},{}]",
                                q(&f.ident.as_ref().map(|x| x.to_string()).unwrap_or(i.to_string())),
                                q(&toks(&f.ty))
                            )
                        })
                        .collect();
                    format!(
                        "{{\"name\":{},\"fields\":{},\"named\":{}}}",
                        q(&v.ident.to_string()),
                        list(fs),
                        matches!(v.fields, Fields::Named(_))
                    )
                })
                .collect();
            format!(
                "{{\"k\":\"enum\",\"name\":{},\"mod\":{},\"attrs\":{},\"variants\":{},\"ln\":{}}}",
                q(&e.ident.to_string()),
                q(&modpath.join("::")),
                attrs(&e.attrs),
                list(vs),
                l
            )
        }
        Item::Struct(s) => {
            let fs: Vec<String> = s
                .fields
                .iter()
                .enumerate()
                .map(|(i, f)| {
                    format!(
                        "[{},{}]",
                        q(&f.ident.as_ref().map(|x| x.to_string()).unwrap_or(i.to_string())),
                        q(&toks(&f.ty))
                    )
                })
                .collect();
            format!(
                "{{\"k\":\"struct_item\",\"name\":{},\"mod\":{},\"attrs\":{},\"fields\":{},\"ln\":{}}}",
                q(&s.ident.to_string()),
                q(&modpath.join("::")),
                attrs(&s.attrs),
                list(fs),
                l
            )
        }
        Item::Const(c) => format!(
            "{{\"k\":\"const\",\"name\":{},\"mod\":{},\"ty\":{},\"e\":{},\"ln\":{}}}",
            q(&c.ident.to_string()),
            q(&modpath.join("::")),
            q(&toks(&*c.ty)),
            expr(&c.expr),
            l
        ),
        Item::Static(c) => format!(
            "{{\"k\":\"static\",\"name\":{},\"mod\":{},\"ty\":{},\"mut\":{},\"e\":{},\"ln\":{}}}",
            q(&c.ident.to_string()),
            q(&modpath.join("::")),
            q(&toks(&*c.ty)),
            matches!(c.mutability, StaticMutability::Mut(_)),
            expr(&c.expr),
            l
        ),
        Item::Trait(t) => {
            let items: Vec<String> = t
                .items
                .iter()
                .filter_map(|ti| match ti {
                    TraitItem::Fn(f) => Some(format!(
                        "{{\"k\":\"fn\",\"name\":{},\"mod\":{},\"impl_of\":{},\"sig\":{},\"attrs\":[],\"vis\":\"\",\"body\":{},\"ln\":{}}}",
                        q(&f.sig.ident.to_string()),
                        q(&modpath.join("::")),
                        q(&t.ident.to_string()),
                        sig(&f.sig),
                        opt(f.default.as_ref().map(block)),
                        ln(f.span())
                    )),
                    _ => None,
                })
                .collect();
            format!(
                "{{\"k\":\"trait\",\"name\":{},\"mod\":{},\"items\":{},\"ln\":{}}}",
                q(&t.ident.to_string()),
                q(&modpath.join("::")),
                list(items),
                l
            )
        }
        Item::Type(t) => format!(
            "{{\"k\":\"type\",\"name\":{},\"mod\":{},\"ty\":{},\"ln\":{}}}",
            q(&t.ident.to_string()),
            q(&modpath.join("::")),
            q(&toks(&*t.ty)),
            l
        ),
        Item::Use(u) => format!("{{\"k\":\"use\",\"src\":{},\"mod\":{},\"ln\":{}}}", q(&toks(&u.tree)), q(&modpath.join("::")), l),
        Item::Macro(m) => format!(
            "{{\"k\":\"macro_item\",\"name\":{},\"ident\":{},\"ln\":{}}}",
            q(&path_str(&m.mac.path)),
            q(&m.ident.as_ref().map(|i| i.to_string()).unwrap_or_default()),
            l
        ),
        other => format!(
            "{{\"k\":\"other_item\",\"src\":{},\"ln\":{}}}",
            q(&toks(other).chars().take(80).collect::<String>()),
            l
        ),
    }
}

fn main() {
    let args: Vec<String> = std::env::args().collect();
    if args.len() < 3 {
        eprintln!("usage: synfacts <in.rs> <out.json>");
        std::process::exit(2);
    }
    let src = std::fs::read_to_string(&args[1]).expect("read input");
    let file = match syn::parse_file(&src) {
        Ok(f) => f,
        Err(e) => {
            eprintln!("synfacts: parse error in {}: {} at line {}", args[1], e, e.span().start().line);
            std::process::exit(3);
        }
    };
    let mut modpath: Vec<String> = Vec::new();
    let items: Vec<String> = file.items.iter().map(|i| item(i, &mut modpath, None)).collect();
    let out = format!("{{\"file\":{},\"items\":{}}}", q(&args[1]), list(items));
    std::fs::write(&args[2], out).expect("write output");
}
