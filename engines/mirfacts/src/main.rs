// mirfacts: rustc_private driver that dumps the resolved program (MIR) of crate `mamba` as JSON lines.
// No policy lives here: the Python rule layer decides. One JSON object per MIR body.
//
// Invocation (see /verif/check): RUSTC_WORKSPACE_WRAPPER=<this> cargo +nightly check --offline --lib
// Output: $MIRFACTS_OUT (one write per process, only for crate `mamba`).
#![feature(rustc_private)]
extern crate rustc_abi;
extern crate rustc_driver;
extern crate rustc_hir;
extern crate rustc_interface;
extern crate rustc_middle;
extern crate rustc_span;

use rustc_driver::Compilation;
use rustc_hir::def::DefKind;
use rustc_middle::mir::{
    AggregateKind, BasicBlock, Body, Const, Operand, Place, PlaceElem, Rvalue, StatementKind,
    TerminatorKind, VarDebugInfoContents,
};
use rustc_middle::ty::{self, Instance, Ty, TyCtxt, TypingEnv};
use std::fmt::Write;

struct Cb;

fn esc(s: &str) -> String {
    let mut o = String::with_capacity(s.len() + 2);
    for c in s.chars() {
        match c {
            '\\' => o.push_str("\\\\"),
            '"' => o.push_str("\\\""),
            '\n' => o.push_str("\\n"),
            '\r' => o.push_str("\\r"),
            '\t' => o.push_str("\\t"),
            c if (c as u32) < 0x20 => {
                let _ = write!(o, "\\u{:04x}", c as u32);
            }
            c => o.push(c),
        }
    }
    o
}

fn q(s: &str) -> String {
    format!("\"{}\"", esc(s))
}

fn ty_str<'tcx>(t: Ty<'tcx>) -> String {
    format!("{:?}", t)
}

// place -> "L|proj|proj" ; field projections carry the field name and the ADT when known
fn place_str<'tcx>(tcx: TyCtxt<'tcx>, body: &Body<'tcx>, p: &Place<'tcx>) -> String {
    let mut s = format!("{}", p.local.as_usize());
    let mut pty = rustc_middle::mir::PlaceTy::from_ty(body.local_decls[p.local].ty);
    for elem in p.projection.iter() {
        match elem {
            PlaceElem::Deref => s.push_str("|*"),
            PlaceElem::Field(f, _) => {
                let mut name = String::new();
                if let ty::Adt(adt, _) = pty.ty.kind() {
                    let vidx = pty.variant_index.unwrap_or(rustc_abi::FIRST_VARIANT);
                    if adt.is_enum() || adt.is_struct() {
                        if let Some(v) = adt.variants().get(vidx) {
                            if let Some(fd) = v.fields.get(f) {
                                name = format!(
                                    ":{}:{}:{}",
                                    fd.name,
                                    tcx.def_path_str(adt.did()),
                                    v.name
                                );
                            }
                        }
                    }
                }
                let _ = write!(s, "|.{}{}", f.as_usize(), name);
            }
            PlaceElem::Downcast(name, v) => {
                let _ = write!(
                    s,
                    "|v{}:{}",
                    v.as_usize(),
                    name.map(|n| n.to_string()).unwrap_or_default()
                );
            }
            PlaceElem::Index(l) => {
                let _ = write!(s, "|[{}]", l.as_usize());
            }
            PlaceElem::ConstantIndex { offset, from_end, .. } => {
                let _ = write!(s, "|[c{}{}]", if from_end { "-" } else { "" }, offset);
            }
            PlaceElem::Subslice { from, to, from_end } => {
                let _ = write!(s, "|[s{}:{}{}]", from, if from_end { "-" } else { "" }, to);
            }
            _ => s.push_str("|?"),
        }
        pty = pty.projection_ty(tcx, elem);
    }
    s
}

fn const_str<'tcx>(tcx: TyCtxt<'tcx>, te: TypingEnv<'tcx>, c: &Const<'tcx>) -> String {
    let t = c.ty();
    match *t.kind() {
        ty::FnDef(did, gargs) => {
            let r = match Instance::try_resolve(tcx, te, did, gargs) {
                Ok(Some(i)) => tcx.def_path_str(i.def_id()),
                _ => tcx.def_path_str(did),
            };
            format!("F:{}", r)
        }
        ty::Bool | ty::Int(_) | ty::Uint(_) | ty::Char => {
            if let Some(si) = c.try_eval_scalar_int(tcx, te) {
                let sz = si.size();
                let v: i128 = match *t.kind() {
                    ty::Int(_) => si.to_int(sz),
                    _ => si.to_uint(sz) as i128,
                };
                format!("K:{:?}:{}", t, v)
            } else {
                format!("K:{:?}:?", t)
            }
        }
        _ => {
            let d = format!("{}", c);
            let d = if d.len() > 200 { d.chars().take(200).collect() } else { d };
            format!("K:{:?}:{}", t, d)
        }
    }
}

fn op_str<'tcx>(tcx: TyCtxt<'tcx>, te: TypingEnv<'tcx>, body: &Body<'tcx>, o: &Operand<'tcx>) -> String {
    match o {
        Operand::Copy(p) => format!("c{}", place_str(tcx, body, p)),
        Operand::Move(p) => format!("m{}", place_str(tcx, body, p)),
        Operand::Constant(c) => const_str(tcx, te, &c.const_),
        #[allow(unreachable_patterns)]
        _ => String::from("?"),
    }
}

fn line_of<'tcx>(tcx: TyCtxt<'tcx>, sp: rustc_span::Span) -> (String, usize, usize) {
    let sm = tcx.sess.source_map();
    // walk out of macro expansions to the call site in user code
    let sp = sp.source_callsite();
    let lo = sm.lookup_char_pos(sp.lo());
    let hi = sm.lookup_char_pos(sp.hi());
    let f = match &lo.file.name {
        rustc_span::FileName::Real(r) => format!("{}", r.local_path().map(|p| p.display().to_string()).unwrap_or_default()),
        other => format!("{:?}", other),
    };
    (f, lo.line, hi.line)
}

impl rustc_driver::Callbacks for Cb {
    fn after_analysis<'tcx>(
        &mut self,
        _c: &rustc_interface::interface::Compiler,
        tcx: TyCtxt<'tcx>,
    ) -> Compilation {
        let crate_name = tcx.crate_name(rustc_span::def_id::LOCAL_CRATE).to_string();
        if crate_name != "mamba" {
            return Compilation::Continue;
        }
        let Ok(out_path) = std::env::var("MIRFACTS_OUT") else {
            return Compilation::Continue;
        };
        // bin target has the same crate name; distinguish by crate type
        let is_bin = tcx.crate_types().iter().any(|t| matches!(t, rustc_session_crate_type::Executable));
        let out_path = if is_bin { format!("{}.bin", out_path) } else { out_path };
        let mut out = String::new();

        // ADT table: enums with variants and field names/types, structs with fields
        for ldid in tcx.hir_crate_items(()).definitions() {
            let did = ldid.to_def_id();
            match tcx.def_kind(did) {
                DefKind::Enum | DefKind::Struct => {
                    let adt = tcx.adt_def(did);
                    let mut vs = Vec::new();
                    for v in adt.variants().iter() {
                        let fs: Vec<String> = v
                            .fields
                            .iter()
                            .map(|f| {
                                format!(
                                    "[{},{}]",
                                    q(&f.name.to_string()),
                                    q(&ty_str(tcx.type_of(f.did).instantiate_identity().skip_norm_wip()))
                                )
                            })
                            .collect();
                        vs.push(format!("{{\"name\":{},\"fields\":[{}]}}", q(&v.name.to_string()), fs.join(",")));
                    }
                    let (f, l, _) = line_of(tcx, tcx.def_span(did));
                    let _ = writeln!(
                        out,
                        "{{\"k\":\"adt\",\"path\":{},\"enum\":{},\"file\":{},\"line\":{},\"variants\":[{}]}}",
                        q(&tcx.def_path_str(did)),
                        adt.is_enum(),
                        q(&f),
                        l,
                        vs.join(",")
                    );
                }
                DefKind::Static { .. } => {
                    let (f, l, _) = line_of(tcx, tcx.def_span(did));
                    let t = tcx.type_of(did).instantiate_identity().skip_norm_wip();
                    let _ = writeln!(
                        out,
                        "{{\"k\":\"static\",\"path\":{},\"ty\":{},\"mutable\":{},\"file\":{},\"line\":{}}}",
                        q(&tcx.def_path_str(did)),
                        q(&ty_str(t)),
                        tcx.is_mutable_static(did),
                        q(&f),
                        l
                    );
                }
                DefKind::Impl { of_trait } => {
                    let selfty = tcx.type_of(did).instantiate_identity().skip_norm_wip();
                    let tr = if of_trait {
                        let t = tcx.impl_trait_ref(did).instantiate_identity().skip_norm_wip();
                        format!("{:?}", t)
                    } else {
                        String::new()
                    };
                    let items: Vec<String> = tcx
                        .associated_item_def_ids(did)
                        .iter()
                        .map(|d| q(&tcx.def_path_str(*d)))
                        .collect();
                    let _ = writeln!(
                        out,
                        "{{\"k\":\"impl\",\"self\":{},\"trait\":{},\"items\":[{}]}}",
                        q(&ty_str(selfty)),
                        q(&tr),
                        items.join(",")
                    );
                }
                _ => {}
            }
        }

        for ldid in tcx.mir_keys(()) {
            let did = ldid.to_def_id();
            let kind = tcx.def_kind(did);
            if !matches!(kind, DefKind::Fn | DefKind::AssocFn | DefKind::Closure) {
                continue;
            }
            let body = tcx.optimized_mir(did);
            let path = tcx.def_path_str(did);
            let te = TypingEnv::post_analysis(tcx, did);
            let (file, line, end_line) = line_of(tcx, tcx.def_span(did));
            let (_, _, body_end) = line_of(tcx, body.span);
            let parent = if matches!(kind, DefKind::Closure) {
                let mut p = tcx.parent(did);
                while matches!(tcx.def_kind(p), DefKind::Closure) {
                    p = tcx.parent(p);
                }
                tcx.def_path_str(p)
            } else {
                String::new()
            };
            let locals: Vec<String> = body.local_decls.iter().map(|d| q(&ty_str(d.ty))).collect();
            let mut names: Vec<String> = Vec::new();
            for vdi in &body.var_debug_info {
                if let VarDebugInfoContents::Place(p) = &vdi.value {
                    names.push(format!("[{},{}]", q(&place_str(tcx, body, p)), q(&vdi.name.to_string())));
                }
            }
            let has_unsafe = false;
            // fn items mentioned in promoted constants (`&parse_level_6` passed as a callback is promoted)
            let mut mentions: Vec<String> = Vec::new();
            for pbody in tcx.promoted_mir(did).iter() {
                for data in pbody.basic_blocks.iter() {
                    for st in &data.statements {
                        if let StatementKind::Assign(b) = &st.kind {
                            let (_, rv) = &**b;
                            let mut ops: Vec<&Operand<'tcx>> = Vec::new();
                            match rv {
                                Rvalue::Use(o, _) | Rvalue::Repeat(o, _) | Rvalue::Cast(_, o, _) | Rvalue::UnaryOp(_, o) => ops.push(o),
                                Rvalue::Aggregate(_, fields) => { for o in fields.iter() { ops.push(o); } }
                                _ => {}
                            }
                            for o in ops {
                                if let Operand::Constant(c) = o {
                                    let s = const_str(tcx, te, &c.const_);
                                    if let Some(rest) = s.strip_prefix("F:") { mentions.push(q(rest)); }
                                }
                            }
                        }
                    }
                }
            }
            let _ = write!(
                out,
                "{{\"k\":\"fn\",\"fn\":{},\"kind\":{},\"file\":{},\"line\":{},\"end_line\":{},\"parent\":{},\"argc\":{},\"unsafe\":{},\"mentions\":[{}],\"locals\":[{}],\"names\":[{}],\"bbs\":[",
                q(&path),
                q(&format!("{:?}", kind)),
                q(&file),
                line,
                end_line.max(body_end),
                q(&parent),
                body.arg_count,
                has_unsafe,
                mentions.join(","),
                locals.join(","),
                names.join(",")
            );
            let mut first_bb = true;
            for (_bb, data) in body.basic_blocks.iter_enumerated() {
                if !first_bb {
                    out.push(',');
                }
                first_bb = false;
                let _ = write!(out, "{{\"c\":{},\"s\":[", if data.is_cleanup { 1 } else { 0 });
                let mut first = true;
                for st in &data.statements {
                    let (_, sl, _) = line_of(tcx, st.source_info.span);
                    let exp = st.source_info.span.from_expansion();
                    match &st.kind {
                        StatementKind::Assign(b) => {
                            let (place, rv) = &**b;
                            let dst = place_str(tcx, body, place);
                            let (rk, detail, ops): (&str, String, Vec<String>) = match rv {
                                Rvalue::Use(o, _) => ("Use", String::new(), vec![op_str(tcx, te, body, o)]),
                                Rvalue::Repeat(o, _) => ("Repeat", String::new(), vec![op_str(tcx, te, body, o)]),
                                Rvalue::Ref(_, bk, p) => (
                                    "Ref",
                                    format!("{:?}", bk),
                                    vec![format!("c{}", place_str(tcx, body, p))],
                                ),
                                Rvalue::RawPtr(_, p) => ("RawPtr", String::new(), vec![format!("c{}", place_str(tcx, body, p))]),
                                Rvalue::Cast(ck, o, t) => (
                                    "Cast",
                                    format!("{:?}|{}|{}", ck, ty_str(o.ty(&body.local_decls, tcx)), ty_str(*t)),
                                    vec![op_str(tcx, te, body, o)],
                                ),
                                Rvalue::BinaryOp(op, b2) => {
                                    let (l, r) = &**b2;
                                    (
                                        "BinaryOp",
                                        format!("{:?}|{}", op, ty_str(l.ty(&body.local_decls, tcx))),
                                        vec![op_str(tcx, te, body, l), op_str(tcx, te, body, r)],
                                    )
                                }
                                Rvalue::UnaryOp(op, o) => ("UnaryOp", format!("{:?}", op), vec![op_str(tcx, te, body, o)]),
                                Rvalue::Discriminant(p) => (
                                    "Discriminant",
                                    ty_str(p.ty(&body.local_decls, tcx).ty),
                                    vec![format!("c{}", place_str(tcx, body, p))],
                                ),
                                Rvalue::Aggregate(ak, fields) => {
                                    let d = match &**ak {
                                        AggregateKind::Adt(adid, vidx, _, _, _) => {
                                            let adt = tcx.adt_def(*adid);
                                            format!(
                                                "Adt|{}|{}|{}",
                                                tcx.def_path_str(*adid),
                                                vidx.as_usize(),
                                                adt.variant(*vidx).name
                                            )
                                        }
                                        AggregateKind::Closure(cdid, _) => format!("Closure|{}", tcx.def_path_str(*cdid)),
                                        AggregateKind::Tuple => "Tuple".to_string(),
                                        AggregateKind::Array(_) => "Array".to_string(),
                                        _ => "Other".to_string(),
                                    };
                                    (
                                        "Aggregate",
                                        d,
                                        fields.iter().map(|o| op_str(tcx, te, body, o)).collect(),
                                    )
                                }
                                Rvalue::CopyForDeref(p) => ("Use", String::new(), vec![format!("c{}", place_str(tcx, body, p))]),
                                _ => ("Other", {
                                    let d = format!("{:?}", rv);
                                    d.chars().take(120).collect()
                                }, vec![]),
                            };
                            if !first {
                                out.push(',');
                            }
                            first = false;
                            let opsj: Vec<String> = ops.iter().map(|o| q(o)).collect();
                            let _ = write!(
                                out,
                                "[{},{},{},[{}],{},{}]",
                                q(&dst),
                                q(rk),
                                q(&detail),
                                opsj.join(","),
                                sl,
                                if exp { 1 } else { 0 }
                            );
                        }
                        StatementKind::SetDiscriminant { place, variant_index } => {
                            if !first {
                                out.push(',');
                            }
                            first = false;
                            let _ = write!(
                                out,
                                "[{},\"SetDiscr\",\"{}\",[],{},{}]",
                                q(&place_str(tcx, body, place)),
                                variant_index.as_usize(),
                                sl,
                                if exp { 1 } else { 0 }
                            );
                        }
                        _ => {}
                    }
                }
                out.push_str("],\"t\":");
                let term = data.terminator();
                let (_, tl, _) = line_of(tcx, term.source_info.span);
                let texp = term.source_info.span.from_expansion();
                let succ: Vec<String> = term.successors().map(|b: BasicBlock| b.as_usize().to_string()).collect();
                match &term.kind {
                    TerminatorKind::Call { func, args, destination, target, unwind: _, .. } => {
                        let mut callee = String::from("<indirect>");
                        let mut unresolved = String::new();
                        let mut gargs_s = String::new();
                        let mut fop = String::new();
                        match func {
                            Operand::Constant(c) => {
                                if let ty::FnDef(cdid, gargs) = *c.const_.ty().kind() {
                                    unresolved = tcx.def_path_str(cdid);
                                    callee = match Instance::try_resolve(tcx, te, cdid, gargs) {
                                        Ok(Some(i)) => tcx.def_path_str(i.def_id()),
                                        _ => unresolved.clone(),
                                    };
                                    gargs_s = format!("{:?}", gargs);
                                }
                            }
                            other => {
                                fop = op_str(tcx, te, body, other);
                            }
                        }
                        let argl: Vec<String> = args.iter().map(|a| q(&op_str(tcx, te, body, &a.node))).collect();
                        let argt: Vec<String> =
                            args.iter().map(|a| q(&ty_str(a.node.ty(&body.local_decls, tcx)))).collect();
                        let _ = write!(
                            out,
                            "{{\"k\":\"call\",\"callee\":{},\"decl\":{},\"gargs\":{},\"fop\":{},\"args\":[{}],\"argt\":[{}],\"dst\":{},\"dty\":{},\"target\":{},\"succ\":[{}],\"line\":{},\"exp\":{}}}",
                            q(&callee),
                            q(&unresolved),
                            q(&gargs_s),
                            q(&fop),
                            argl.join(","),
                            argt.join(","),
                            q(&place_str(tcx, body, destination)),
                            q(&ty_str(destination.ty(&body.local_decls, tcx).ty)),
                            target.map(|t| t.as_usize() as i64).unwrap_or(-1),
                            succ.join(","),
                            tl,
                            if texp { 1 } else { 0 }
                        );
                    }
                    TerminatorKind::SwitchInt { discr, targets } => {
                        let vals: Vec<String> =
                            targets.iter().map(|(v, t)| format!("[{},{}]", v, t.as_usize())).collect();
                        let _ = write!(
                            out,
                            "{{\"k\":\"switch\",\"discr\":{},\"dty\":{},\"targets\":[{}],\"otherwise\":{},\"succ\":[{}],\"line\":{}}}",
                            q(&op_str(tcx, te, body, discr)),
                            q(&ty_str(discr.ty(&body.local_decls, tcx))),
                            vals.join(","),
                            targets.otherwise().as_usize(),
                            succ.join(","),
                            tl
                        );
                    }
                    TerminatorKind::Assert { cond, expected, msg, target, .. } => {
                        let k = format!("{:?}", msg);
                        let kk = k.split(|c| c == '(' || c == ' ').next().unwrap_or("").to_string();
                        let _ = write!(
                            out,
                            "{{\"k\":\"assert\",\"kind\":{},\"cond\":{},\"expected\":{},\"msg\":{},\"target\":{},\"succ\":[{}],\"line\":{},\"exp\":{}}}",
                            q(&kk),
                            q(&op_str(tcx, te, body, cond)),
                            expected,
                            q(&k.chars().take(160).collect::<String>()),
                            target.as_usize(),
                            succ.join(","),
                            tl,
                            if texp { 1 } else { 0 }
                        );
                    }
                    TerminatorKind::Drop { place, .. } => {
                        let _ = write!(
                            out,
                            "{{\"k\":\"drop\",\"place\":{},\"succ\":[{}]}}",
                            q(&place_str(tcx, body, place)),
                            succ.join(",")
                        );
                    }
                    other => {
                        let k = match other {
                            TerminatorKind::Return => "return",
                            TerminatorKind::Goto { .. } => "goto",
                            TerminatorKind::Unreachable => "unreachable",
                            TerminatorKind::UnwindResume => "resume",
                            TerminatorKind::UnwindTerminate(_) => "terminate",
                            TerminatorKind::FalseEdge { .. } => "falseedge",
                            TerminatorKind::FalseUnwind { .. } => "falseunwind",
                            _ => "other",
                        };
                        let _ = write!(out, "{{\"k\":{},\"succ\":[{}],\"line\":{}}}", q(k), succ.join(","), tl);
                    }
                }
                out.push('}');
            }
            out.push_str("]}\n");
        }
        std::fs::write(&out_path, out).expect("mirfacts: cannot write facts");
        Compilation::Continue
    }
}

mod rustc_session_crate_type {
    pub use rustc_session::config::CrateType::*;
}
extern crate rustc_session;

fn main() {
    let mut args: Vec<String> = std::env::args().collect();
    // RUSTC_WORKSPACE_WRAPPER passes the real rustc as argv[1]
    args.remove(1);
    rustc_driver::run_compiler(&args, &mut Cb);
}
