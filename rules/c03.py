"""C03 - totality (no panic, no unbounded recursion, loops make progress).

R-C03-1  (MIR, panic-obligation census A3) every construct of the library that can panic - explicit panicking calls
         (unwrap/expect/panic!/unreachable!/indexing/slicing/Vec::remove/String::remove ..., also when only mentioned as
         `.map(Result::unwrap)`) and every arithmetic `Assert` terminator - is discharged mechanically (see `_auto_arith`) or is in
         the reviewed table tables/panic_sites.json with its reason. A site the table does not list (or more sites of a kind than
         reviewed in that function) is reported: a new unreviewed unwrap on an input-dependent path is the realistic C03 regression.
R-C03-2  (call graph, recursion census A4) every recursive SCC is an owned-tree recursion (all members take an AST / Core / Name /
         Expected ... value and no member looks a definition up by name), a reviewed one (token stream, unifier queue, lexer
         re-lexing), or a table-lookup recursion that is protected by a validation dominating every construction of the table
         (inheritance must be acyclic: `Context::try_from` must-calls the cycle check on its Ok path).
R-C03-3  (MIR, loop progress A5) every natural loop contains a progress call (Iterator::next, pop, eat ...) or is reviewed; every
         callback handed to the parser's `peek_while_*` combinators consumes at least one token on each of its Ok paths
         (greatest fixpoint of "all Ok paths call a consuming function").
R-C03-4  (MIR, sign of signed->unsigned casts A7) the operand of every `as usize` from a signed type is non-negative by
         construction (widening of an unsigned, max with a non-negative constant, |a-b| idiom, difference under a dominating
         comparison), or reviewed.
R-C03-5  (syntax) the unifier's re-insertion is bounded: `Constraints::reinsert` returns Err for a flagged constraint under exactly
         the condition `constraint.is_flag`, pushes `constraint.flag()` otherwise, and `flag()` sets the flag.
"""
import re
from collections import Counter, defaultdict
from .common import walk, src, strip, AnchorError, load_table, must_call_blocks, tail_expr, owner_root

PANIC_CALLS = [
    r"^std::option::Option::<T>::(unwrap|expect)$",
    r"^std::result::Result::<T, E>::(unwrap|expect|unwrap_err|expect_err)$",
    r"^core::panicking::", r"^std::rt::begin_panic", r"^std::rt::panic_",
    r"::index$", r"::index_mut$", r"^core::slice::index::",
    r"^std::vec::Vec::<T, A>::(remove|swap_remove|insert|drain|split_off)$",
    r"^std::collections::VecDeque::<T, A>::(remove|swap|insert|drain|split_off|range)$",
    r"^std::string::String::(remove|insert|insert_str|drain|split_off|replace_range)$",
    r"<impl str>::split_at$", r"<impl \[T\]>::(split_at|chunks|windows|copy_from_slice|swap|chunks_exact|rotate_left|rotate_right)$",
    r"^std::cell::RefCell::<T>::(borrow|borrow_mut)$", r"^std::iter::Iterator::step_by$",
    r"^std::process::(exit|abort)$", r"^core::option::(unwrap_failed|expect_failed)", r"^core::result::unwrap_failed",
    r"^std::char::from_digit$", r"^std::sync::(Mutex|RwLock)::<T>::",
]
_PRX = [re.compile(p) for p in PANIC_CALLS]
TREE = re.compile(r"parse::ast::(AST|Node)|check::ast::(ASTTy|NodeTy)|generate::ast::node::Core|check::name::(Name|true_name::TrueName|string_name::StringName)"
                  r"|check::ident::(Identifier|IdentiCall)|constraint::expected::(Expected|Expect)|python_parser::ast::")
TREE_STRICT = re.compile(r"parse::ast::(AST|Node)|check::ast::(ASTTy|NodeTy)|generate::ast::node::Core|check::ident::(Identifier|IdentiCall)|constraint::expected::(Expected|Expect)|python_parser::ast::|parse::iterator::LexIterator")
LOOKUP = re.compile(r"LookupClass<|LookupFunction<|LookupField<|GetFun<|GetField<")
PROGRESS = re.compile(r"::(next|pop|pop_front|pop_back|pop_constr|next_back|nth|eat|remove|next_if|next_if_eq)$")


NONCONSUMING = re.compile(r"::(peek|peek_mut|last|first|is_empty|len|get|front|back)$")


def _recv_root(body, local, depth=0):
    """(root local, field names) of the place a reference-typed local points to: `&mut *it` -> (it, ()); `&mut ahead` -> (ahead, ());
    `&mut (*self).it` -> (self, ('it',))"""
    if depth > 8:
        return (local, ())
    argc = getattr(body, "argc", None)
    defs = [s_ for _, s_ in body.stmts() if s_.dst.local == local and not s_.dst.proj and s_.rv in ("Ref", "Use", "RawPtr", "Cast", "CopyForDeref") and s_.ops and s_.ops[0].place is not None]
    if not defs:
        return (local, ())
    p = defs[0].ops[0].place
    fields = tuple(x.split(":")[1] for x in p.proj if x.startswith(".") and len(x.split(":")) > 1)
    if p.proj and p.proj[0] == "*":
        r, f = _recv_root(body, p.local, depth + 1)
        return (r, f + fields)
    if defs[0].rv in ("Use", "Cast", "CopyForDeref") and not p.proj:
        return _recv_root(body, p.local, depth + 1)
    return (p.local, fields)


def _handed_over(body, term, driver):
    """a closure/fn call one of whose arguments (directly or inside the argument tuple) is the driver's owner"""
    for a in term.args:
        if a.place is None:
            continue
        if _same_root(_recv_root(body, a.place.local), driver):
            return True
        for _, s_ in body.stmts():
            if s_.dst.local == a.place.local and s_.rv == "Aggregate":
                for o in s_.ops:
                    if o.place is not None and _same_root(_recv_root(body, o.place.local), driver):
                        return True
    return False


def _same_root(a, b):
    return a[0] == b[0] and (a[1][:len(b[1])] == b[1] or b[1][:len(a[1])] == a[1])


def _root_str(r):
    return f"_{r[0]}" + "".join("." + f for f in r[1])


def short_callee(c):
    c = re.sub(r"<[^<>]*>", "", c)
    c = re.sub(r"<[^<>]*>", "", c)
    return "::".join(x for x in c.split("::")[-2:] if x)


def is_panic_callee(c):
    return any(r.search(c) for r in _PRX)


def reviewed_sites(mir, syn, table):
    """the reviewed table with its keys attributed the way the census attributes sites (common.owner_root); entries that fall together add up"""
    out = {}
    for r in table["sites"]:
        fn_ = r["fn"] if r["fn"] in mir.fns else re.sub(r"(::\{closure#\d+\})+$", "", r["fn"])
        key = (owner_root(mir, syn, fn_) if syn is not None else r["fn"], r["kind"])
        if key in out:
            m = dict(out[key])
            m["count"] += r["count"]
            if r["disposition"] == "finding" and m["disposition"] != "finding":
                m.update({"disposition": "finding", "reason": r["reason"]})
            out[key] = m
        else:
            out[key] = dict(r)
    return out


_WIN = re.compile(r"<impl \[T\]>::(windows|chunks_exact)$")
_WIN_PASS = re.compile(r"^(std::iter::Iterator::\w+|std::option::Option::<T>::\w+|std::iter::IntoIterator::into_iter|<[^>]*(Windows|ChunksExact)<.*> as std::iter::\w+>::\w+|<std::iter::\w+<.*> as std::iter::Iterator>::\w+)$")


def fixed_width_slices(mir):
    """{body path: {local: N}}: locals that are - or carry, as an Option / iterator / reference - items of `slice.windows(N)` or
    `slice.chunks_exact(N)` with a constant N >= 1: every such item has exactly N elements. Followed through plain copies and
    references, through the std iterator / Option adapters, and into the first real parameter of a closure handed to such an adapter."""
    cached = mir.__dict__.get("_fixed_width")
    if cached is not None:
        return cached
    out = defaultdict(dict)
    pending = []            # (closure path, N)
    def run(b, seed):
        t_ = out[b.path]
        t_.update(seed)
        clos = {}
        for bb in b.bbs:
            for s_ in bb.stmts:
                if s_.rv == "Aggregate" and s_.detail.startswith("Closure|") and not s_.dst.proj:
                    clos[s_.dst.local] = s_.detail.split("|", 1)[1]
        for _ in range(8):
            n0 = len(t_)
            for bb in b.bbs:
                if bb.cleanup:
                    continue
                for s_ in bb.stmts:
                    if s_.rv in ("Use", "Ref", "RawPtr", "CopyForDeref", "Cast") and len(s_.ops) == 1 and s_.ops[0].place is not None and not s_.dst.proj \
                            and s_.ops[0].place.local in t_ and not any(isinstance(p_, str) and p_.startswith("[") for p_ in s_.ops[0].place.proj):
                        t_.setdefault(s_.dst.local, t_[s_.ops[0].place.local])
                t = bb.term
                if t.k != "call" or t.dst is None or t.dst.proj:
                    continue
                if _WIN.search(t.callee) and len(t.args) == 2 and t.args[1].const_value() and t.args[1].const_value()[1].isdigit() and int(t.args[1].const_value()[1]) >= 1:
                    t_.setdefault(t.dst.local, int(t.args[1].const_value()[1]))
                    continue
                ns = [t_[a.place.local] for a in t.args if a.place is not None and a.place.local in t_]
                if ns and _WIN_PASS.search(t.callee):
                    t_.setdefault(t.dst.local, min(ns))
                    for a in t.args:
                        if a.place is not None and a.place.local in clos:
                            pending.append((clos[a.place.local], min(ns)))
            if len(t_) == n0:
                break
    for b in list(mir.fns.values()):
        if b.kind != "Closure" and any(bb.term.k == "call" and _WIN.search(bb.term.callee) for bb in b.bbs):
            run(b, {})
    seen = set()
    while pending:
        cp, n_ = pending.pop()
        if cp in seen or cp not in mir.fns:
            continue
        seen.add(cp)
        run(mir.fns[cp], {2: n_})          # local 1 is the closure itself, local 2 its first argument
    mir.__dict__["_fixed_width"] = dict(out)
    return mir.__dict__["_fixed_width"]


def _auto_bounds(mir, b, bb, t):
    """`w[i]` with a constant i on an item of `windows(N)` / `chunks_exact(N)`, i < N"""
    m = re.match(r"BoundsCheck \{ len: (?:move|copy) _(\d+), index: (?:move|copy) _(\d+) \}", t.msg)
    fw = fixed_width_slices(mir).get(b.path)
    if not m or not fw:
        return False
    len_l, idx_l = int(m.group(1)), int(m.group(2))
    idx = None
    for kind_, bb_, s_ in _def_of(b, idx_l):
        if kind_ == "stmt" and s_.rv == "Use" and len(s_.ops) == 1 and s_.ops[0].const_value() and s_.ops[0].const_value()[1].isdigit():
            idx = int(s_.ops[0].const_value()[1]) if idx is None else -1
        else:
            idx = -1
    if idx is None or idx < 0:
        return False
    # the length is the metadata of a pointer / reference to a fixed-width item
    cur, n = len_l, None
    for _ in range(6):
        ds = _def_of(b, cur)
        if len(ds) != 1 or ds[0][0] != "stmt":
            return False
        s_ = ds[0][2]
        if len(s_.ops) != 1 or s_.ops[0].place is None or any(isinstance(p_, str) and (p_.startswith("[") or p_.startswith(".")) for p_ in s_.ops[0].place.proj):
            return False
        cur = s_.ops[0].place.local
        if cur in fw:
            n = fw[cur]
            break
    return n is not None and idx < n


def census(mir, syn=None):
    """-> Counter[(fn, kind)] and first location per key; fn is the function the site belongs to: the enclosing named function for
    closures, the caller for a private helper with a single caller (common.owner_root)"""
    cnt = Counter()
    loc = {}
    for b in mir.fns.values():
        owner = owner_root(mir, syn, b.path) if syn is not None else (b.parent if b.kind == "Closure" and b.parent else b.path)
        for bb in b.bbs:
            if bb.cleanup:
                continue
            t = bb.term
            keys = []
            if t.k == "assert" and t.kind not in ("NullPointerDereference", "MisalignedPointerDereference"):
                if t.kind == "BoundsCheck" and _auto_bounds(mir, b, bb, t):
                    pass
                elif not _auto_arith(b, bb, t):
                    m = re.match(r"(\w+)\((\w+)", t.msg)
                    op = m.group(2) if m and m.group(1) == "Overflow" else ""
                    keys.append(f"assert:{t.kind}{':' + op if op else ''}")
            if t.k == "call":
                if _WIN.search(t.callee) and len(t.args) == 2 and t.args[1].const_value() and t.args[1].const_value()[1].isdigit() and int(t.args[1].const_value()[1]) >= 1:
                    pass            # `windows(N)` / `chunks_exact(N)` panic for N = 0 only
                elif is_panic_callee(t.callee):
                    keys.append("call:" + short_callee(t.callee))
                for a in t.args:
                    if a.kind == "fn" and is_panic_callee(a.const):
                        keys.append("mention:" + short_callee(a.const))
            for s in bb.stmts:
                for o in s.ops:
                    if o.kind == "fn" and is_panic_callee(o.const):
                        keys.append("mention:" + short_callee(o.const))
            for k in keys:
                cnt[(owner, k)] += 1
                loc.setdefault((owner, k), f"{b.file}:{t.line}")
        for m in b.mentions:
            if is_panic_callee(m):
                k = "mention:" + short_callee(m)
                cnt[(owner, k)] += 1
                loc.setdefault((owner, k), b.loc)
    return cnt, loc


def _def_of(body, local):
    """the statements / call terminators that define `local` (whole-local assignments)"""
    out = []
    for bb in body.bbs:
        if bb.cleanup:
            continue
        for s in bb.stmts:
            if s.dst.local == local and not s.dst.proj:
                out.append(("stmt", bb, s))
        if bb.term.k == "call" and bb.term.dst.local == local and not bb.term.dst.proj:
            out.append(("call", bb, bb.term))
    return out


def _auto_arith(body, bb, t):
    """arithmetic asserts discharged mechanically:
       * Add / Mul / Shl: would need > 2^31 elements or characters (assumption: inputs are smaller than 2 GiB, nesting <= 500)
       * signed Sub / Neg on i32/i64 values that are bounded by the input size
       * Div / Rem (and their overflow check) by a non-zero constant"""
    m = re.match(r"(\w+)\((\w+)?", t.msg)
    if not m:
        return False
    kind, op = m.group(1), m.group(2)
    if kind == "Overflow":
        if op in ("Add", "Mul", "Shl"):
            return True
        # find the checked binary op in this block to learn the type
        ty = None
        for s in bb.stmts:
            if s.rv == "BinaryOp" and (op + "WithOverflow") in s.detail:
                ty = s.detail.split("|")[1]
        if ty is None:
            for s in bb.stmts:
                if s.rv == "BinaryOp":
                    ty = s.detail.split("|")[1]
        if op in ("Sub", "Neg") and ty and ty.startswith("i"):
            return True
        if op in ("Div", "Rem"):
            return _const_divisor(body, bb)
        return False
    if kind in ("DivisionByZero", "RemainderByZero"):
        return _const_divisor(body, bb)
    return False


def _const_divisor(body, bb):
    # the division follows in the successor block: look for a Div/Rem with a non-zero constant right operand on the same line
    line = bb.term.line
    for b2 in body.bbs:
        for s in b2.stmts:
            if s.rv == "BinaryOp" and s.detail.split("|")[0] in ("Div", "Rem") and s.line == line and len(s.ops) == 2:
                cv = s.ops[1].const_value()
                if cv and cv[1] not in ("0", "?", "-1"):
                    return True
    return False


def run(chk, facts):
    mir, syn = facts.mir, facts.syn
    chk.rule("R-C03-1", "every potentially panicking construct is mechanically discharged or reviewed in tables/panic_sites.json")
    chk.rule("R-C03-2", "every recursive SCC is owned-tree, reviewed, or a table lookup protected by a dominating validation")
    chk.rule("R-C03-3", "every loop makes progress; every peek_while callback consumes a token on each Ok path")
    chk.rule("R-C03-4", "operands of signed->unsigned casts are non-negative by construction or reviewed")
    chk.rule("R-C03-5", "reinsertion of a constraint happens at most once (guard is exactly `is_flag`)")
    table = load_table("panic_sites.json")

    # ---------------- R-C03-1 ----------------
    reviewed = reviewed_sites(mir, facts.syn, table)
    cnt, loc = census(mir, facts.syn)
    total = sum(cnt.values())
    n_auto = 0
    for b in mir.fns.values():
        for bb in b.bbs:
            if not bb.cleanup and bb.term.k == "assert" and bb.term.kind not in ("NullPointerDereference", "MisalignedPointerDereference") and _auto_arith(b, bb, bb.term):
                n_auto += 1
    chk.ob("R-C03-1", "auto-arith", True, f"{n_auto} arithmetic asserts discharged mechanically (Add/Mul counters, signed differences, division by non-zero constants)")
    chk.floor("R-C03-1", total + n_auto, 100, "panic obligations in the library")
    # a reviewed site that moved, together with its code, from *all* callers into a private helper they now share keeps its review: the helper
    # has no entry of its own, each of its callers has a reviewed entry of that kind with more reviewed sites than it still contains, and
    # the helper is private to their module (a new caller without such a surplus is reported as before)
    callers_of = defaultdict(set)
    for a_, bs_ in mir.callgraph().items():
        for b_ in bs_:
            callers_of[b_].add(owner_root(mir, facts.syn, a_))
    private_fns = {f_["qual"] for f_ in facts.syn.fns if f_.get("vis", "") == "" and f_.get("qual") and not f_.get("impl_trait")}

    def moved_from(fn, kind, n):
        if fn not in private_fns:
            return None
        cs = sorted(c_ for c_ in callers_of.get(fn, ()) if c_ != fn)
        if not cs:
            return None
        for c_ in cs:
            rc = reviewed.get((c_, kind))
            if rc is None or rc["disposition"] == "finding" or rc["count"] - cnt.get((c_, kind), 0) < n:
                return None
        return cs
    for (fn, kind), n in sorted(cnt.items()):
        r = reviewed.get((fn, kind))
        mv = moved_from(fn, kind, n) if r is None else None
        if mv:
            chk.ob("R-C03-1", f"{fn}|{kind}", True, f"{fn}: {n}x `{kind}` - moved here from {[m_.split('::')[-1] for m_ in mv]}, each of which had it reviewed: {reviewed[(mv[0], kind)]['reason'][:120]}", loc[(fn, kind)])
            continue
        if r is None:
            chk.ob("R-C03-1", f"{fn}|{kind}", False,
                   f"{fn}: {n} unreviewed `{kind.split(':', 1)[1]}` ({kind.split(':')[0]}) - a construct that panics for some value; "
                   "nothing shows that no input reaches it with such a value", loc[(fn, kind)])
        elif n > r["count"]:
            chk.ob("R-C03-1", f"{fn}|{kind}|count", False,
                   f"{fn}: {n} `{kind}` sites, {r['count']} reviewed - a new potentially panicking construct", loc[(fn, kind)])
        elif r["disposition"] == "finding":
            chk.ob("R-C03-1", f"{fn}|{kind}", False, f"{fn}: `{kind}`: {r['reason']}", loc[(fn, kind)])
        else:
            chk.ob("R-C03-1", f"{fn}|{kind}", True, f"{fn}: {n}x `{kind}` - {r['disposition']}: {r['reason']}", loc[(fn, kind)])
    # structural invariants behind the reviewed reasons
    _invariants(chk, facts)

    # ---------------- R-C03-2 ----------------
    cg = mir.callgraph()
    sccs = [c for c in mir.sccs() if len(c) > 1 or c[0] in cg.get(c[0], ())]
    rec_reviewed = table["recursion"]
    n_scc = 0
    for comp in sccs:
        comp = [p for p in comp if p in mir.fns]
        if not comp:
            continue
        n_scc += 1
        names = sorted({(mir.fns[p].parent if mir.fns[p].kind == "Closure" else p) for p in comp})
        key = min(names)
        def generic_carrier(p):
            """a member that receives the tree through a type parameter (`I: IntoIterator<Item = &Name>`): the parameter's type is not
            visible in its signature, but what it - and the closures written in it - pass on into the recursion is"""
            b_ = mir.fns[p]
            if not any(re.fullmatch(r"&*(mut )?\w+/#\d+", a) for a in b_.locals[1:1 + b_.argc]):
                return False
            inner = [b_] + [c_ for c_ in mir.fns.values() if c_.kind == "Closure" and c_.parent == p]
            calls_in = [t for c_ in inner for bb, t in c_.calls() if t.callee in comp and mir.fns[t.callee].kind != "Closure"]
            return bool(calls_in) and all(any(TREE.search(a) for a in t.argt) for t in calls_in)
        owned = all(any(TREE.search(a) for a in mir.fns[p].locals[1:1 + mir.fns[p].argc]) or mir.fns[p].kind == "Closure" or generic_carrier(p) for p in comp)
        lookups = sorted({t.callee for p in comp for bb, t in mir.fns[p].calls() if LOOKUP.search(t.callee)})
        rv = next((r for r in rec_reviewed if any(n.endswith(r["member"]) for n in names)), None)
        strict = all(any(TREE_STRICT.search(a) for a in mir.fns[p].locals[1:1 + mir.fns[p].argc]) or mir.fns[p].kind == "Closure" for p in comp)
        if rv is not None and rv["class"] != "table-lookup":
            fin = rv.get("disposition") == "finding"
            chk.ob("R-C03-2", f"scc:{key}", not fin, f"recursion {names[:3]}: reviewed {rv['class']}: {rv['reason']}", mir.fns[comp[0]].loc)
        elif strict:
            chk.ob("R-C03-2", f"scc:{key}", True, f"recursion {names[:2]} ({len(comp)} members) descends an owned syntax tree: depth bounded by the nesting of the input", mir.fns[comp[0]].loc)
        elif lookups:
            # recursion that follows names through a table: needs the acyclicity validation
            prot = _acyclic_validation(mir)
            same_key, key_why = _acyclic_same_key(mir, facts.syn)
            if not any(o["key"] == "R-C03-2|acyclic-guard:covers-final-table" for o in chk.obligations):
                final_ok, final_why = _acyclic_final(mir)
                chk.ob("R-C03-2", "acyclic-guard:covers-final-table", final_ok, f"acyclicity validation: {final_why}" if final_ok else
                       f"acyclicity validation: {final_why} - a cycle that only exists in the table as it is used (user classes merged with the bundled ones) is not reported and the "
                       "class lookup recurses until the stack overflows")
            if not any(o["key"] == "R-C03-2|acyclic-guard:no-type-parameter-parent" for o in chk.obligations):
                # a parent that is a type parameter becomes whatever it is substituted with - also the class itself (`class A[T]: T`, `class B: A[B]`):
                # the name-level walk cannot see that cycle, so such a parent has to be rejected outright
                try:
                    from .common import inline_lets, fn_paths
                    from .common import local_helpers
                    cia = facts.syn.one_fn("check_inheritance_acyclic", mod="check::context")
                    okp = False
                    # (the validation may be split into private helpers that it calls with `?`: each is looked at on its own)
                    for cia_part in [cia] + local_helpers(facts.syn, cia):
                        # what an Err-returning condition depends on: its own text plus, transitively, the initialisers of the locals it names
                        inits = {}
                        for n in walk(cia_part["body"]):
                            if n.get("k") == "local" and n.get("init") is not None:
                                for p_ in walk(n["pat"]):
                                    if p_.get("k") == "pident":
                                        inits.setdefault(p_["name"], []).append(src(n["init"], -30))

                        def closure_text(text):
                            seen_, todo, out_ = set(), [text], text
                            while todo:
                                t_ = todo.pop()
                                for nm in set(re.findall(r"[A-Za-z_]\w*", t_)):
                                    if nm in inits and nm not in seen_:
                                        seen_.add(nm)
                                        for it_ in inits[nm]:
                                            out_ += " " + it_
                                            todo.append(it_)
                            return out_
                        for p_ in fn_paths(cia_part["body"]):
                            r_ = src(strip(p_.result), -30).replace(" ", "") if p_.result is not None else ""
                            if not r_.startswith("Err("):
                                continue
                            cs = closure_text(" ".join(c for c, pol in p_.conds if pol))
                            if ".parents" in cs and ".generics" in cs:
                                okp = True
                    chk.ob("R-C03-2", "acyclic-guard:no-type-parameter-parent", okp,
                           "acyclicity validation: a class that inherits from one of its own type parameters is rejected" if okp else
                           "acyclicity validation: a class may inherit from its own type parameter (`class A[T]: T`): with `class B: A[B]` the class lookup, which substitutes "
                           "the parameter, finds B among its own ancestors and recurses until the stack overflows - the name-level cycle walk cannot see it", facts.loc_of(cia))
                except AnchorError as e_:
                    chk.anchor_fail("R-C03-2", e_)
            if not any(o["key"] == "R-C03-2|acyclic-guard:same-key-as-lookup" for o in chk.obligations):
              chk.ob("R-C03-2", "acyclic-guard:same-key-as-lookup", same_key, f"acyclicity validation: {key_why}" if same_key else
                     f"acyclicity validation: {key_why} - a cycle among such classes is not reported and the class lookup recurses until the stack overflows")
            # which edges does the recursion follow?  Bounded by the acyclicity validation only if it walks the *parents* of the classes it looks
            # up: reviewed by name, or - for a recursion the table does not know (renamed, merged) - visible in the SCC itself: its members read a
            # `parents` field and no field / function / argument collection of a class
            reads = set()
            for p in comp:
                for bb in mir.fns[p].bbs:
                    places = [o.place for s_ in bb.stmts for o in s_.ops if o.place] + [s_.dst for s_ in bb.stmts]
                    if bb.term.k == "call":
                        places += [o.place for o in bb.term.args if o.place]
                    for pl in places:
                        for pr in pl.proj:
                            m_ = re.match(r"^\.\d+:(\w+):check::context::clss::(generic::GenericClass|Class)", pr) if isinstance(pr, str) else None
                            if m_:
                                reads.add(m_.group(1))
            follows_parents = "parents" in reads and not (reads & {"fields", "functions", "args"})
            ok = prot and ((rv is not None and rv["class"] == "table-lookup") or follows_parents)
            if ok and rv is None:
                rv = {"class": "table-lookup", "reason": "walks the `parents` of the classes it looks up (read from the SCC's own field accesses)"}
            chk.ob("R-C03-2", f"scc:{key}", ok,
                   f"recursion {names[:3]} follows names through the class table ({len(lookups)} lookups); "
                   + ("every construction of the table is validated to be acyclic first (Context::try_from must-calls check_inheritance_acyclic)" if prot else
                      "nothing validates that the table is acyclic: `class A: A` never terminates")
                   + ("" if rv else " - and the SCC is not reviewed"), mir.fns[comp[0]].loc)
        elif owned:
            chk.ob("R-C03-2", f"scc:{key}", True, f"recursion {names[:2]} ({len(comp)} members) descends an owned name/type tree: depth bounded by the nesting of the type", mir.fns[comp[0]].loc)
        else:
            chk.ob("R-C03-2", f"scc:{key}", False,
                   f"recursion {names[:4]} is neither an owned-tree recursion nor reviewed: nothing bounds its depth", mir.fns[comp[0]].loc)
    chk.floor("R-C03-2", n_scc, 30, "recursive SCCs")

    # ---------------- R-C03-3 ----------------
    loop_rev = {r["fn"]: r for r in table["loops"]}
    n_loops = n_descent = 0
    for b in mir.fns.values():
        for h, blks in b.natural_loops():
            n_loops += 1
            calls = [b.bbs[i].term.callee for i in blks if b.bbs[i].term.k == "call"]
            if any(PROGRESS.search(c) for c in calls):
                continue
            if _descends(b, blks):
                n_descent += 1
                continue
            owner = b.parent if b.kind == "Closure" else b.path
            r = loop_rev.get(owner)
            chk.ob("R-C03-3", f"loop:{owner}", r is not None,
                   f"loop in {owner} has no iterator/pop/eat call: " + (f"reviewed: {r['reason']}" if r else "nothing shows that an iteration makes progress"),
                   f"{b.file}:{b.bbs[h].term.line}")
    # loops driven by a *non-consuming* test (`while let Some(c) = it.peek()`): the header does not advance, so every path around
    # the loop must pass a consuming call on the same iterator (or leave the loop). A look-ahead on a clone does not count.
    n_peek = 0
    for b in mir.fns.values():
        for h, blks in b.natural_loops():
            t = b.bbs[h].term
            if t.k != "call" or not NONCONSUMING.search(t.callee) or not t.args or t.args[0].place is None:
                continue
            if "MultiPeek" in t.callee:
                continue    # itertools::MultiPeek::peek advances its own cursor on every call: a consuming test
            n_peek += 1
            driver = _recv_root(b, t.args[0].place.local)
            consuming = set()
            for i in blks:
                ti = b.bbs[i].term
                if ti.k != "call":
                    continue
                if PROGRESS.search(ti.callee) and ti.args and ti.args[0].place is not None and _same_root(_recv_root(b, ti.args[0].place.local), driver):
                    consuming.add(i)
                elif re.search(r"::(eat_if)$", ti.callee) and ti.args and ti.args[0].place is not None and _same_root(_recv_root(b, ti.args[0].place.local), driver):
                    consuming.add(i)     # consumes when the token matches - which is what the loop has just tested
                elif re.search(r"::(call|call_mut|call_once)$", ti.callee) and _handed_over(b, ti, driver):
                    consuming.add(i)     # a callback that is handed the iterator: R-C03-3 callbacks (greatest fixpoint) shows it consumes
            # is the header reachable from its in-loop successors without a consuming block?
            seen, stack, path_back = set(), [x for x in b.succs(h) if x in blks], None
            prev = {x: h for x in stack}
            while stack:
                x = stack.pop()
                if x in seen or b.bbs[x].cleanup:
                    continue
                seen.add(x)
                if x in consuming:
                    continue
                for sx in b.succs(x):
                    if sx == h:
                        path_back = x
                        stack = []
                        break
                    if sx in blks and sx not in seen:
                        prev.setdefault(sx, x)
                        stack.append(sx)
            owner = b.parent if b.kind == "Closure" else b.path
            line = b.bbs[path_back].term.line if path_back is not None else b.bbs[h].term.line
            chk.ob("R-C03-3", f"peek-loop:{owner}|{_root_str(driver)}|{len([1 for hh, _ in b.natural_loops() if hh < h and NONCONSUMING.search(getattr(b.bbs[hh].term, 'callee', '') or '')])}",
                   path_back is None,
                   f"{owner}: every path around the `{t.callee.split('::')[-1]}`-driven loop consumes from `{_root_str(driver)}` ({len(consuming)} consuming block(s))" if path_back is None else
                   f"{owner}: the loop tests `{_root_str(driver)}.{t.callee.split('::')[-1]}()` without consuming, and there is a path back to the test that consumes nothing "
                   f"from that iterator (a look-ahead on a clone does not count): the same character is looked at for ever", f"{b.file}:{line}")
    chk.floor("R-C03-3", n_peek, 3, "loops driven by a non-consuming test")
    chk.ob("R-C03-3", "loops", True, f"{n_loops} natural loops examined ({n_descent} of them make progress by descending an owned structure: a reference replaced by a reference to a field of its target)")
    chk.floor("R-C03-3", n_loops, 60, "natural loops")
    _callbacks(chk, facts)

    # ---------------- R-C03-4 ----------------
    cast_rev = {(r["fn"]): r for r in table["casts"]}
    n_casts = 0
    per_fn = Counter()
    for b in mir.fns.values():
        for bb, s in b.stmts():
            if s.rv == "Cast" and s.detail.startswith("IntToInt") and not s.exp:
                _, st, dt = s.detail.split("|")
                if st.startswith("i") and dt.startswith("u"):
                    n_casts += 1
                    sign, why = _sign(b, s.ops[0], bb, 0)
                    owner = b.parent if b.kind == "Closure" else b.path
                    if sign:
                        chk.ob("R-C03-4", f"cast:{owner}|{per_fn[owner]}", True, f"{owner}: `{st} as {dt}` operand is non-negative: {why}", f"{b.file}:{s.line}")
                    else:
                        r = cast_rev.get(owner)
                        per = per_fn[(owner, "any")]
                        per_fn[(owner, "any")] += 1
                        ok = r is not None and per < r["count"]
                        chk.ob("R-C03-4", f"cast:{owner}|any{per}", ok,
                               f"{owner}: `{st} as {dt}` of a possibly negative value ({why}): " + (f"reviewed: {r['reason']}" if ok else
                               "a negative value wraps to a huge unsigned one (positions move, allocations explode)"), f"{b.file}:{s.line}")
                    per_fn[owner] += 1
    chk.floor("R-C03-4", n_casts, 6, "signed->unsigned casts")

    # ---------------- R-C03-5 ----------------
    try:
        ri = syn.one_fn("reinsert", impl_of="Constraints")
        loc_ = facts.loc_of(ri)
        ifs = [s["e"] for s in ri["body"]["stmts"] if s.get("k") == "expr" and strip(s["e"]).get("k") == "if"]
        guard_ok = False
        for i in ifs:
            i = strip(i)
            c = src(strip(i["c"])).replace(" ", "")
            if any(n.get("k") == "return" and "Err" in src(n) for n in walk(i["then"])):
                guard_ok = c == "constraint.is_flag"
                cond = c
        chk.ob("R-C03-5", "guard", guard_ok, "a flagged constraint is never re-inserted (guard `constraint.is_flag` returns Err)" if guard_ok else
               f"the re-insertion guard is `{cond if ifs else '-'}` instead of `constraint.is_flag`: a constraint can be re-queued more than once and unification need not terminate", loc_)
        pb = [n for n in walk(ri["body"]) if n.get("k") == "mcall" and n["m"] in ("push_back", "push_front", "push")]
        ok = len(pb) == 1 and src(strip(pb[0]["args"][0])).replace(" ", "") == "constraint.flag()"
        chk.ob("R-C03-5", "pushes-flagged", ok, "the re-inserted constraint is flagged (`constraint.flag()`)" if ok else
               "reinsert does not push `constraint.flag()`: the once-only guard never fires", loc_)
        fl = syn.one_fn("flag", impl_of="Constraint")
        lits = [n for n in walk(fl["body"]) if n.get("k") == "struct"]
        ok = any(any(f == "is_flag" and src(strip(v)) == "true" for f, v in l["fields"]) for l in lits)
        chk.ob("R-C03-5", "flag-sets-is_flag", ok, "Constraint::flag sets is_flag: true" if ok else "Constraint::flag no longer sets is_flag", facts.loc_of(fl))
        # the only other way to put a popped constraint back is push_constr / push: unify_link's fallback arm must go through reinsert
        ul = mir.one("check::constrain::unify::link::unify_link")
        direct = [t.callee for bb, t in ul.calls() if t.callee.endswith("Constraints::push_constr")]
        chk.ob("R-C03-5", "unify_link-no-direct-requeue", not direct, "unify_link re-queues only through reinsert" if not direct else "unify_link re-queues a constraint directly (push_constr), bypassing the once-only guard", ul.loc)
    except AnchorError as e:
        chk.anchor_fail("R-C03-5", e)
    chk.assume("inputs are smaller than 2 GiB and nest at most 500 levels deep (owned-tree recursion depth is linear in nesting; counters cannot overflow)")
    chk.assume("arithmetic asserts exist in debug builds; release builds wrap instead - the census covers the debug semantics")
    chk.notes.append(f"C03: {total + n_auto} panic obligations, {n_scc} recursive SCCs, {n_loops} loops, {n_casts} signed->unsigned casts.")


def _descends(b, blks):
    """pointer chasing through an owned structure: inside the loop a reference-typed local is replaced by a reference to a *field* of
    what it points to (`while let Call(inner, _) = cur { cur = inner }`) - each iteration is one level deeper in a finite tree.
    Flow-insensitive within the loop: derived[l] = (root local, passed through a field projection)"""
    derived = {}
    PASS = re.compile(r"::(as_ref|deref|as_mut|deref_mut|borrow|as_deref)$")
    edges = []          # (dst local, src place)
    for i in blks:
        bb = b.bbs[i]
        for s_ in bb.stmts:
            if s_.rv in ("Ref", "Use", "Cast", "CopyForDeref") and len(s_.ops) == 1 and s_.ops[0].place is not None and not s_.dst.proj:
                edges.append((s_.dst.local, s_.ops[0].place))
        t = bb.term
        if t.k == "call" and PASS.search(t.callee) and len(t.args) == 1 and t.args[0].place is not None and t.dst is not None and not t.dst.proj:
            edges.append((t.dst.local, t.args[0].place))
    for _ in range(6):
        for dst, pl in edges:
            through = any(isinstance(p_, str) and p_.startswith(".") for p_ in pl.proj)
            srcs = {(pl.local, through)} | {(r, f or through) for (r, f) in derived.get(pl.local, ())}
            derived.setdefault(dst, set()).update(srcs)
    for x, srcs in derived.items():
        if (x, True) in srcs and x < len(b.locals) and b.locals[x].startswith("&"):
            return True
    return False


def _acyclic_same_key(mir, syn=None):
    """the validation must follow the class table by the key the recursion follows it by. `Context::class` finds a class by its
    bare name (String == String); a guard that compares generic-sensitive names (StringName / TrueName / Name equality also
    compares the generic arguments) misses `class Node[T]: Tree[T]` / `class Tree[E]: Node[E]`.
    -> (ok, description)"""
    helpers = set()
    if syn is not None:
        from .common import local_helpers
        try:
            cia = syn.one_fn("check_inheritance_acyclic", mod="check::context")
            helpers = {h["qual"] for h in local_helpers(syn, cia)}
        except AnchorError:
            pass
    def eq_types(pred):
        out = []
        for b in mir.fns.values():
            owner = b.parent if b.kind == "Closure" else b.path
            if (owner or "") in helpers:                      # a private helper of the guard is part of the guard
                owner = "check::context::check_inheritance_acyclic"
            if pred(owner or ""):
                for bb, t in b.calls():
                    if re.search(r"::(eq|ne)$", t.callee):
                        out.append(tuple(re.sub(r"^&+", "", x) for x in t.argt))
        return out
    guard = eq_types(lambda o: o.endswith("check::context::check_inheritance_acyclic"))
    lookup = eq_types(lambda o: "LookupClass<&check::name::string_name::StringName, check::context::clss::Class> for check::context::Context>::class" in o)
    bare = ("std::string::String", "str")
    def is_bare(ts):
        return all(any(x == t or x.endswith(t) for t in bare) for x in ts)
    if not guard or not lookup:
        return False, f"comparisons not found (guard {len(guard)}, lookup {len(lookup)})"
    bad = [ts for ts in guard if not is_bare(ts)]
    lk_bare = any(is_bare(ts) for ts in lookup)
    if bad:
        return False, f"the cycle guard compares {bad[0]}, the class lookup compares bare names: generics make equal classes look different to the guard"
    if not lk_bare:
        return False, "the class lookup no longer compares bare names; the guard does"
    return True, f"guard and lookup both compare bare names ({len(guard)} + {len(lookup)} comparisons)"


def _acyclic_final(mir):
    """what is validated is the table that is returned: between the validation and the Ok return of Context::try_from nothing is called
    that could add or replace classes (only the plumbing of `?`, moves and drops)"""
    cands = [b for b in mir.fns.values() if b.kind != "Closure" and "check::context::Context as std::convert::TryFrom<&[parse::ast::AST]>" in b.path]
    if len(cands) != 1:
        return False, "Context::try_from not found"
    b = cands[0]
    checks = [bb.idx for bb, t in b.calls() if t.callee.endswith("::check_inheritance_acyclic")]
    if not checks:
        return False, "no call of check_inheritance_acyclic"
    errs = b.error_exit_blocks()
    HARMLESS = re.compile(r"(ops::Try>::branch|FromResidual<.*>>::from_residual|::drop$|drop_in_place|::clone$|::deref$|::as_ref$|::borrow$|Result::<.*>::Ok)")
    seen, stack, after = set(), [s_ for c in checks for s_ in b.succs(c)], []
    while stack:
        x = stack.pop()
        if x in seen or x in errs or b.bbs[x].cleanup:
            continue
        seen.add(x)
        t = b.bbs[x].term
        if t.k == "call" and not HARMLESS.search(t.callee) and x not in checks:
            after.append(t.callee)
        stack.extend(b.succs(x))
    if after:
        return False, f"after the validation the context still goes through `{after[0].split('<')[0][-60:]}`" + (f" (+{len(after) - 1} more)" if len(after) > 1 else "")
    return True, "nothing changes the class table between the validation and the Ok return"


def _acyclic_validation(mir):
    """Context::try_from must-calls check_inheritance_acyclic on every Ok path"""
    cands = [b for b in mir.fns.values() if b.kind != "Closure" and "check::context::Context as std::convert::TryFrom<&[parse::ast::AST]>" in b.path]
    if len(cands) != 1:
        return False
    b = cands[0]
    holds, _ = must_call_blocks(b, 0, lambda t: t.callee.endswith("::check_inheritance_acyclic"))
    if not holds:
        return False
    # who else constructs a Context? (Default: only `Any`, no parents)
    return True


def _invariants(chk, facts):
    mir, syn = facts.mir, facts.syn
    # I1: ConstrBuilder.constraints never shrinks and starts non-empty
    shrink = []
    for b in mir.fns.values():
        for bb, t in b.calls():
            if t.args and t.args[0].place is not None:
                p = t.args[0].place
                holder = None
                # receiver is (a ref to) the field `constraints` of ConstrBuilder
                for bb2, s in b.stmts():
                    if s.dst.local == p.local and s.ops and s.ops[0].place is not None and any(":constraints:check::constrain::constraint::builder::ConstrBuilder:" in pr for pr in s.ops[0].place.proj):
                        holder = True
                if any(":constraints:check::constrain::constraint::builder::ConstrBuilder:" in pr for pr in p.proj):
                    holder = True
                if holder and re.search(r"::(pop|remove|clear|truncate|drain|swap_remove|split_off|retain|dedup|take)$", t.callee):
                    shrink.append((b.path, t.callee))
    chk.ob("R-C03-1", "inv:ConstrBuilder.constraints-never-shrinks", not shrink,
           "ConstrBuilder.constraints is never popped/cleared (the `len() - 1` and `last().expect` sites rely on it)" if not shrink else
           f"ConstrBuilder.constraints can shrink: {shrink[:2]} - `len() - 1` / `last().expect(\"Is never empty\")` can now fail")
    try:
        new = syn.one_fn("new", impl_of="ConstrBuilder")
        lit = [n for n in walk(new["body"]) if n.get("k") == "struct" and n["p"] in ("ConstrBuilder", "Self")]
        ok = False
        for l in lit:
            for f, v in l["fields"]:
                if f == "constraints":
                    s = src(v)
                    ok = "box_assume_init_into_vec_unsafe" in s or s.startswith("vec![")
        chk.ob("R-C03-1", "inv:ConstrBuilder::new-non-empty", ok, "ConstrBuilder::new starts with one constraint set" if ok else "ConstrBuilder::new no longer starts with a non-empty `constraints`", facts.loc_of(new))
    except AnchorError as e:
        chk.anchor_fail("R-C03-1", e)
    # I2: zero carets are only built by Position::invisible / Default
    zero_sites = []
    for b in mir.fns.values():
        for bb, s in b.stmts():
            if s.rv == "Aggregate" and s.detail.startswith("Adt|common::position::CaretPos|"):
                vals = [o.const_value() for o in s.ops]
                if any(v is not None and v[1] == "0" for v in vals):
                    zero_sites.append(b.path)
    allowed = {"common::position::Position::invisible", "<common::position::CaretPos as std::default::Default>::default"}
    bad = sorted(set(zero_sites) - allowed)
    chk.ob("R-C03-1", "inv:zero-caret-only-invisible", not bad,
           "a caret with a zero component is only built by Position::invisible (renderers test for it before subtracting 1)" if not bad else
           f"{bad} build a caret with a zero component: `pos - 1` / `line - 1` in the renderers underflow for it")
    # I3: Position::union never sees the invisible position: its callers pass positions of AST nodes / tokens.
    #     `union` takes the minimum of the starts, so one invisible operand yields a zero start that no longer equals invisible().
    try:
        un = syn.one_fn("union", impl_of="Position")
        bad_callers = []
        for fn in syn.fns:
            if not fn.get("body") or fn.get("derived"):
                continue
            txt = None
            for n in walk(fn["body"]):
                if n.get("k") == "mcall" and n["m"] == "union" and n["args"]:
                    # the receiver or argument is syntactically an invisible()/default() position, or sits under a test for invisibility
                    for e in (n["recv"], n["args"][0]):
                        s = src(strip(e))
                        if "invisible()" in s or "Position::default()" in s:
                            bad_callers.append(fn["qual"])
            # a union guarded by `== Position::invisible()` on the same value
            for n in walk(fn["body"]):
                if n.get("k") == "if" and "Position::invisible()" in src(n["c"]) and "==" in src(n["c"]) and "!=" not in src(n["c"]):
                    for m in walk(n["then"]):
                        if m.get("k") == "mcall" and m["m"] == "union":
                            bad_callers.append(fn["qual"])
        chk.ob("R-C03-1", "inv:union-never-on-invisible", not bad_callers,
               "Position::union is never applied to an invisible position" if not bad_callers else
               f"{sorted(set(bad_callers))} apply Position::union to an invisible position: the result has a zero start but is not invisible(), and rendering it underflows")
    except AnchorError as e:
        chk.anchor_fail("R-C03-1", e)
    # I5: `branch_point - 1` in ConstrBuilder::branch (a trace message, but it panics in debug builds): every call of branch() is dominated by
    # a call of branch_point() in the same body, which increments the counter first
    bad_br = []
    n_br = 0
    for b in mir.fns.values():
        if "::tests::" in b.path or b.path.endswith("::tests"):
            continue
        brs = [bb.idx for bb, t in b.calls() if t.callee.endswith("ConstrBuilder::branch")]
        if not brs:
            continue
        pts = [bb.idx for bb, t in b.calls() if t.callee.endswith("ConstrBuilder::branch_point")]
        dom = b.dominators()
        for x in brs:
            n_br += 1
            if not any(p_ in dom.get(x, ()) for p_ in pts):
                bad_br.append(b.path)
    chk.ob("R-C03-1", "inv:branch-after-branch_point", not bad_br and n_br >= 1,
           f"every call of ConstrBuilder::branch ({n_br}) is dominated by a call of branch_point, which makes the counter positive" if not bad_br and n_br >= 1 else
           f"ConstrBuilder::branch is called without a dominating branch_point in {sorted(set(bad_br))[:2] or 'no caller found'}: `branch_point - 1` underflows")
    # I4: the generator panics when the Python form of a class or parent name is not a type (`class name should be type`, `Expected type in
    # parent`): StringName::to_py must yield a type for every name - each arm builds core_type(..), or hands a *non-empty* list of members on
    # (a bare `Union`, the name of a user class, must not be taken for the union type constructor: its union is empty and renders as nothing)
    try:
        tp = [f for f in syn.fns if f["name"] == "to_py" and f["mod"] == "generate::name" and "StringName" in (f.get("impl_of") or "")]
        if len(tp) != 1:
            raise AnchorError(f"{len(tp)} StringName::to_py")
        ms = [n for n in walk(tp[0]["body"]) if n.get("k") == "match" and "self.name" in src(n["e"], -30)]
        if len(ms) != 1:
            raise AnchorError("StringName::to_py is no longer a match on the name")
        bad_arms = []
        for a in ms[0]["arms"]:
            t_ = tail_expr(a["body"]) if strip(a["body"]).get("k") == "block" else a["body"]
            t_ = strip(t_) if t_ else {}
            builds_type = t_.get("k") == "call" and src(t_["f"]).split("::")[-1] == "core_type"
            guard = src(a["guard"], -30).replace(" ", "") if a.get("guard") else ""
            nonempty = "!self.generics.is_empty()" in guard or "self.generics.len()>0" in guard or "self.generics.len()>=1" in guard
            if not builds_type and not nonempty:
                bad_arms.append(src(a["pat"]))
        chk.ob("R-C03-1", "inv:StringName::to_py-yields-a-type", not bad_arms,
               "StringName::to_py builds a type for every name (core_type, or members handed on only when there are some)" if not bad_arms else
               f"StringName::to_py: the arm(s) {bad_arms} can yield something that is not a type (an empty union renders as nothing): `class Union` / `class A: Union` "
               "reach the panics `class name should be type` / `Expected type in parent` in generate::convert::class", facts.loc_of(tp[0]))
    except AnchorError as e:
        chk.anchor_fail("R-C03-1", e)


def _callbacks(chk, facts):
    """A5 callback rule: closures handed to peek_while_* consume a token on every Ok path"""
    mir = facts.mir
    LEX = "parse::iterator::LexIterator::<'a>::"
    base = {LEX + "eat"}
    # candidates: every function / closure of parse:: ; consuming = gfp
    fns = {p: b for p, b in mir.fns.items() if p.startswith("parse::") and "lex::" not in p}
    consuming = set(fns) | base
    HIGHER = {LEX + "parse", LEX + "parse_vec", LEX + "peek_or_err"}   # call their function argument exactly once on Ok paths
    # .. and so does a helper that hands its *own* function parameter on to one of them on every Ok path (`push_parsed(.., parse_fun, ..)`)
    grew = True
    while grew:
        grew = False
        for p_, b_ in fns.items():
            if p_ in HIGHER:
                continue
            def from_param(l_, b_=b_, depth=0):
                if 1 <= l_ <= b_.argc:
                    return True
                if depth > 3:
                    return False
                for _, s_ in b_.stmts():
                    if s_.dst.local == l_ and not s_.dst.proj and s_.ops and s_.ops[0].place is not None:
                        if from_param(s_.ops[0].place.local, b_, depth + 1):
                            return True
                return False

            def hands_param_on(t_, b_=b_, from_param=from_param):
                return t_.callee in HIGHER and any(a_.place is not None and not a_.place.proj and from_param(a_.place.local) and
                                                   ("Fn" in b_.locals[a_.place.local] or "fn(" in b_.locals[a_.place.local]) for a_ in t_.args[1:])
            if any(hands_param_on(t_) for _, t_ in b_.calls()):
                holds_, _ = must_call_blocks(b_, 0, hands_param_on)
                if holds_:
                    HIGHER.add(p_)
                    grew = True

    def callee_consumes(b, t):
        c = t.callee
        if c in base:
            return True
        if c in HIGHER:
            # which function is passed? fn items mentioned by this body (promoted `&parse_x`) or closures created in it
            cands = [m for m in b.fn_mentions() if m.startswith("parse::")]
            cl = [s.detail.split("|", 1)[1] for bb, s in b.stmts() if s.rv == "Aggregate" and s.detail.startswith("Closure|")]
            passed = []
            for a in t.args:
                cl = _closure_of(b, a)
                if cl:
                    passed.append(cl)
            if passed:
                return all(p in consuming for p in passed)
            return bool(cands) and all(m in consuming for m in cands)
        if c in consuming and c in fns:
            return True
        return False

    changed = True
    while changed:
        changed = False
        for p, b in fns.items():
            if p not in consuming:
                continue
            holds, _ = must_call_blocks(b, 0, lambda t, b=b: callee_consumes(b, t))
            if not holds:
                consuming.discard(p)
                changed = True
    facts._c03_consuming = consuming
    # the callbacks: closures created in a function that calls peek_while_* and that have the loop-body signature
    # (&mut LexIterator, &Lex) -> ParseResult<()>  (they are passed as `&mut dyn FnMut`, so the call site does not name them)
    n = 0
    for p, b in mir.fns.items():
        if not p.startswith("parse::") or b.kind == "Closure" and False:
            continue
        if not any(t.callee.startswith(LEX + "peek_while") for bb, t in b.calls()):
            continue
        created = [s.detail.split("|", 1)[1] for bb, s in b.stmts() if s.rv == "Aggregate" and s.detail.startswith("Closure|")]
        for cl in created:
            cb = mir.fns.get(cl)
            if cb is None:
                continue
            ret = cb.locals[0]
            argtys = cb.locals[1:1 + cb.argc]
            if not (ret.startswith("std::result::Result<(), std::boxed::Box<parse::result::ParseErr>>") and any("LexIterator" in a for a in argtys)):
                continue
            n += 1
            ok = cl in consuming
            chk.ob("R-C03-3", f"callback:{cl}", ok,
                   f"{cl}: every Ok path consumes a token" if ok else
                   f"{cl} is the body of a peek_while loop but can return Ok without consuming a token: the loop need not terminate", cb.loc)
    chk.floor("R-C03-3", n, 15, "peek_while callbacks")


def _closure_of(body, op, depth=0):
    """the closure a (possibly unsized `&dyn Fn`) argument refers to, through Ref / Use / Cast definitions"""
    if op.place is None or depth > 5:
        return None
    ty = body.locals[op.place.local]
    m = re.search(r"\{closure:((?:[^{}]|\{[^{}]*\})*)\}", ty)
    if m and "dyn" not in ty.split("{closure")[0]:
        return m.group(1)
    for kind, bb, d in _def_of(body, op.place.local):
        if kind == "stmt" and d.rv in ("Use", "Ref", "Cast") and d.ops:
            r = _closure_of(body, d.ops[0], depth + 1)
            if r:
                return r
    return None


def _sign(body, op, at_bb, depth):
    """(is_nonneg, explanation) for an operand, by its defining chain"""
    if depth > 6:
        return False, "chain too long"
    if op.kind == "const":
        cv = op.const_value()
        try:
            return (int(cv[1]) >= 0), f"constant {cv[1]}"
        except Exception:
            return False, "constant"
    if op.place is None:
        return False, "unknown operand"
    if op.place.proj:
        t0 = _resolve_tuple0(body, op)
        if t0 is not None:
            # the value part of a checked operation
            bop = t0.detail.split("|")[0].replace("WithOverflow", "")
            if bop in ("Add", "Mul"):
                a, wa = _sign(body, t0.ops[0], at_bb, depth + 1)
                b_, wb = _sign(body, t0.ops[1], at_bb, depth + 1)
                return (a and b_), f"{bop} of ({wa}) and ({wb})"
            if bop == "Sub":
                g = _guarded_sub(body, t0, at_bb)
                return g, ("difference under a dominating comparison of the same operands" if g else "a difference that no comparison guards")
        return False, "field/projection read"
    defs = _def_of(body, op.place.local)
    if len(defs) != 1:
        return False, f"{len(defs)} definitions"
    kind, bb, d = defs[0]
    if kind == "stmt":
        if d.rv == "Use":
            return _sign(body, d.ops[0], bb, depth + 1)
        if d.rv == "Cast" and d.detail.startswith("IntToInt"):
            _, st, dt = d.detail.split("|")
            if st.startswith("u"):
                return True, f"widening of an unsigned value ({st})"
            return _sign(body, d.ops[0], bb, depth + 1)
        if d.rv == "BinaryOp":
            bop = d.detail.split("|")[0].replace("WithOverflow", "")
            if bop in ("Add", "Mul"):
                a, wa = _sign(body, d.ops[0], bb, depth + 1)
                b_, wb = _sign(body, d.ops[1], bb, depth + 1)
                return (a and b_), f"{bop} of ({wa}) and ({wb})"
            if bop in ("Div",):
                a, wa = _sign(body, d.ops[0], bb, depth + 1)
                b_, wb = _sign(body, d.ops[1], bb, depth + 1)
                return (a and b_), f"quotient of ({wa}) by ({wb})"
            if bop == "Sub":
                g = _guarded_sub(body, d, bb)
                return g, ("difference under a dominating comparison of the same operands" if g else "a difference that no comparison guards")
            return False, bop
        if d.rv == "Aggregate" or d.dst.proj:
            return False, "aggregate"
        # checked arithmetic yields a tuple; `.0` is read by a Use with projection
        return False, d.rv
    else:
        c = d.callee
        if c.endswith("cmp::max") or c.endswith("Ord::max"):
            a, wa = _sign(body, d.args[0], bb, depth + 1)
            b_, wb = _sign(body, d.args[1], bb, depth + 1)
            if a or b_:
                return True, f"max with a non-negative value ({wa if a else wb})"
            # |a - b| idiom: max(a - b, b - a)
            if _abs_idiom(body, d):
                return True, "max(a - b, b - a)"
            return False, f"max of ({wa}) and ({wb})"
        if re.search(r"::(len|count|abs|unsigned_abs)$", c):
            return True, "length"
        return False, f"result of {short_callee(c)}"


def _resolve_tuple0(body, op):
    """checked ops store (value, overflowed) in a tuple local; the value is read as `(_t.0)`"""
    if op.place is not None and op.place.proj and op.place.proj[0].startswith(".0"):
        defs = _def_of(body, op.place.local)
        if len(defs) == 1 and defs[0][0] == "stmt" and defs[0][2].rv == "BinaryOp":
            return defs[0][2]
    return None


def _operand_source(body, op, depth=0):
    """canonical text of where an operand's value comes from (field path through copies/casts)"""
    if depth > 6 or op.place is None:
        return op.raw
    if op.place.proj:
        base = _operand_source(body, type(op)("c" + str(op.place.local)), depth + 1) if False else str(op.place.local)
        return base + "|" + "|".join(op.place.proj)
    defs = _def_of(body, op.place.local)
    if len(defs) == 1 and defs[0][0] == "stmt" and defs[0][2].rv in ("Use", "Cast") and defs[0][2].ops:
        return _operand_source(body, defs[0][2].ops[0], depth + 1)
    return str(op.place.local)


def _guarded_sub(body, sub_stmt, bb):
    """a - b where the block is dominated by the true edge of `a >= b` / `a > b` (or the false edge of `a < b` / `a <= b`, or the
    false edge of `b >= a`...)"""
    a = _operand_source(body, sub_stmt.ops[0])
    b = _operand_source(body, sub_stmt.ops[1])
    dom = body.dominators()
    for cb in body.bbs:
        if cb.cleanup or cb.term.k != "switch":
            continue
        d = cb.term.discr
        if d.place is None:
            continue
        for s in cb.stmts:
            if s.rv == "BinaryOp" and s.dst.local == d.place.local and s.detail.split("|")[0] in ("Ge", "Gt", "Le", "Lt") and len(s.ops) == 2:
                x = _operand_source(body, s.ops[0])
                y = _operand_source(body, s.ops[1])
                cmpop = s.detail.split("|")[0]
                # which edge means a >= b ?
                true_t = cb.term.otherwise           # switchInt(bool): [0 -> false target], otherwise -> true
                false_t = cb.term.targets[0][1] if cb.term.targets else None
                want = None
                if (x, y) == (a, b) and cmpop in ("Ge", "Gt"):
                    want = true_t
                elif (x, y) == (a, b) and cmpop in ("Lt", "Le"):
                    want = false_t
                elif (x, y) == (b, a) and cmpop in ("Le", "Lt"):
                    want = true_t
                elif (x, y) == (b, a) and cmpop in ("Gt", "Ge"):
                    want = false_t
                if want is not None and bb.idx in dom and want in dom.get(bb.idx, ()):
                    return True
    return False


def _abs_idiom(body, call):
    subs = []
    for a in call.args:
        if a.place is None:
            return False
        defs = _def_of(body, a.place.local)
        if len(defs) != 1 or defs[0][0] != "stmt":
            return False
        d = defs[0][2]
        if d.rv == "Use":
            t = _resolve_tuple0(body, d.ops[0])
            if t is None:
                return False
            d = t
        if d.rv != "BinaryOp" or not d.detail.startswith("Sub"):
            return False
        subs.append((_operand_source(body, d.ops[0]), _operand_source(body, d.ops[1])))
    return len(subs) == 2 and subs[0] == (subs[1][1], subs[1][0])
