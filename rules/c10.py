"""C10 - printed expressions keep their structure.

R-C10-1  For every expression template of the printer, every operand hole and every expression variant that can be
         printed into it:   P(child) < N(hole)  =>  the printer parenthesises, i.e. the hole is routed through
         operand()/protect() and  precedence[child] < required[parent, side]  (both tables re-read from source).
         P and N come from the Python grammar (tables/python_expr.json), looked up by the *token sequence of the
         template text*, so the rule follows the templates, not names. By induction over the tree this is sufficient
         for "Python re-parses the text to the tree it was printed from"; an undischarged triple is a two-node
         counter-example.
R-C10-2  Forms that are only legal directly inside brackets printed by their parent (bare tuple, bare comprehension,
         key: value, name: type) are constructed only at the reviewed sites that put them there.
R-C10-3  Desugarings that build new parents around user expressions (inclusive range `to + 1`, slice `to - 1`,
         isna -> Not(IsA), `?` -> Or, ternary) construct ordinary Core operator nodes (no pre-rendered text), so that
         R-C10-1 covers them.
R-C10-4  (source side, facts) parse_tuple folds `(e)` into `e`; the parser nests equal precedence to the right: these are
         why the printer must protect; checked so that the premise of R-C10-1 stays true.
"""
from .common import walk, src, strip, AnchorError, load_table, pat_alternatives
from .printer import PrinterModel, py_tokens


def flat_templates(pieces):
    """expand conditional holes: list of flat piece lists"""
    outs = [[]]
    for p in pieces:
        if p[0] == "hole" and p[1] == "cond":
            new = []
            for alt in (p[2]["then"], p[2]["else"]):
                for sub in flat_templates(alt):
                    for o in outs:
                        new.append(o + sub)
            outs = new
        else:
            for o in outs:
                o.append(p)
    return outs


def token_key(flat):
    """token sequence of a flat template: literal text tokenised like Python, holes as {}"""
    toks = []
    holes = []
    for p in flat:
        if p[0] == "lit":
            toks.extend(py_tokens(p[1]))
        else:
            toks.append("{}")
            holes.append(p)
    return toks, holes


def run(chk, facts):
    chk.rule("R-C10-1", "P(child) < N(hole) => hole is routed through operand()/protect() and precedence[child] < required[parent, side]; "
                        "P, N from the Python grammar by the template's token sequence")
    chk.rule("R-C10-2", "bracket-only forms (TupleLiteral, Comprehension, KeyValue, ExpressionType) are built only at the reviewed sites")
    chk.rule("R-C10-3", "desugarings build Core operator nodes, never pre-rendered text")
    chk.rule("R-C10-4", "parser facts that make protection necessary still hold (1-tuples folded; right-nesting)")
    oracle = load_table("python_expr.json")
    pm = PrinterModel(facts)
    syn = facts.syn
    loc = facts.loc_of(pm.fn)
    if pm.precedence is None:
        pm.precedence = {}
    if pm.required is None:
        pm.required = {}
    kinds = {}
    for kind, vs in oracle["core_kinds"].items():
        for v in vs:
            kinds[v] = kind
    # every Core variant must be classified (a new variant is analysed only if we know whether it is an expression)
    for v in pm.core:
        chk.ob("R-C10-1", f"kind:{v}", v in kinds, f"Core::{v} is " + (kinds.get(v, "not classified as expression/statement in tables/python_expr.json - cannot decide its holes")), loc)
    tmpl_index = {}
    for t in oracle["templates"]:
        tmpl_index.setdefault(tuple(t["tokens"]), t)
    override = {k: v["prec"] for k, v in oracle["variant_prec_override"].items()}

    # 1. P(v) and N(holes) per expression arm
    P = {}
    arm_rows = []  # (variant, flat holes, needs)
    for arm in pm.arms:
        for v in arm.variants:
            if v == "_":
                chk.ob("R-C10-1", "wildcard-arm", False, "to_py has a wildcard arm: its variants are printed by a template the rule cannot see", loc)
                continue
            if kinds.get(v) != "expr":
                continue
            for flat in flat_templates(arm.pieces):
                toks, holes = token_key(flat)
                if len(holes) == 1 and len(toks) == 1 and holes[0][1] == "comma":
                    toks = ["COMMA_LIST"]
                if len(holes) == 1 and len(toks) == 1 and holes[0][1] == "delegate":
                    continue
                ent = tmpl_index.get(tuple(toks))
                if ent is None:
                    chk.ob("R-C10-1", f"template:{v}:{' '.join(toks)}", False,
                           f"Core::{v} prints `{' '.join(toks)}`, a template whose Python binding strength is not in the oracle table - cannot decide", loc)
                    continue
                p = override.get(v, ent["prec"])
                P[v] = min(P.get(v, 99), p)
                needs = ent["needs"]
                # holes that take Core children (lexeme/indent holes have no need entry)
                ch = [h for h in holes if h[1] not in ("lexeme", "indent")]
                if len(ch) != len(needs) and len([h for h in holes if h[1] != "indent"]) == len(needs):
                    ch = [h for h in holes if h[1] != "indent"]   # a lexeme stands in an operand position (Type: name[..])
                if len(ch) != len(needs):
                    chk.ob("R-C10-1", f"template-holes:{v}:{' '.join(toks)}", False,
                           f"Core::{v} `{' '.join(toks)}`: {len(ch)} child holes but the grammar entry has {len(needs)} operands", loc)
                    continue
                arm_rows.append((v, toks, ch, needs))
    expr_variants = sorted(P)
    chk.floor("R-C10-1", len(expr_variants), 50, "expression variants with a known template")

    # 2. the triples
    n_tr = 0
    bad_by_hole = {}
    chain_bad = {}
    for v, toks, holes, needs in arm_rows:
        for i, (h, need) in enumerate(zip(holes, needs)):
            kind, info = h[1], h[2]
            if kind == "join":
                inner = info.get("inner")
                if not inner or len(inner) != 1 or inner[0][0] != "hole":
                    chk.ob("R-C10-1", f"hole:{v}:{i}:join", not isinstance(need, int) or need <= 1,
                           f"Core::{v} hole {i}: joined elements are not printed by a single helper call", loc)
                    continue
                kind, info = inner[0][1], inner[0][2]
            if not isinstance(need, int) or kind == "lexeme":
                continue  # structural need: R-C10-2 ; a lexeme is an atom
            holekey = f"{v}.{info.get('field')}"
            for c in expr_variants:
                n_tr += 1
                pc = P[c]
                if pc >= need:
                    continue
                if pc == 0 and need <= 1:
                    continue  # bracket-only forms reach `any expression` holes only by construction: R-C10-2
                # must parenthesise
                if kind == "operand":
                    req = pm.required.get((v, info["side"]))
                    ok = req is not None and pm.precedence.get(c, 99) < req
                    how = f"operand(.., Side::{info['side']}) with required={req}, precedence[{c}]={pm.precedence.get(c)}"
                    if pm.operand_rule == "chain" and info["side"] == "Right" and pm.chain_level.get(v) is not None and pm.chain_level.get(v) == pm.chain_level.get(c):
                        # same grammar level, right operand: printed bare by design
                        chain_bad.setdefault(pm.chain_level[v], set()).add((v, c))
                        continue
                elif kind == "protect":
                    req = info.get("level")
                    ok = req is not None and pm.precedence.get(c, 99) < req
                    how = f"protect(.., {req}), precedence[{c}]={pm.precedence.get(c)}"
                else:
                    ok = False
                    how = f"printed bare ({kind})"
                if not ok:
                    bad_by_hole.setdefault((holekey, " ".join(toks)), []).append((c, pc, need, how))
            chk.sample({"rule": "R-C10-1", "template": " ".join(toks), "variant": v, "hole": info.get("field"), "need": need, "routed": kind})
    # one obligation per (hole): lists the children that would re-associate
    seen_holes = set()
    for v, toks, holes, needs in arm_rows:
        for i, (h, need) in enumerate(zip(holes, needs)):
            info = h[2] if h[1] != "join" else ((h[2].get("inner") or [("hole", "other", {})])[0][2])
            holekey = f"{v}.{info.get('field')}"
            k = (holekey, " ".join(toks))
            if k in seen_holes or not isinstance(need, int):
                continue
            seen_holes.add(k)
            bad = bad_by_hole.get(k, [])
            if bad:
                ex = bad[0]
                chk.ob("R-C10-1", f"hole:{holekey}:{' '.join(toks)}", False,
                       f"`{' '.join(toks)}` (Core::{v}) hole `{info.get('field')}` needs binding >= {need} but {len(bad)} child form(s) are printed without "
                       f"parentheses, e.g. Core::{ex[0]} (binds {ex[1]}): {ex[3]}; all: {sorted({b[0] for b in bad})}", loc,
                       detail={"children": [b[0] for b in bad]})
            else:
                chk.ob("R-C10-1", f"hole:{holekey}:{' '.join(toks)}", True, f"`{' '.join(toks)}` hole `{info.get('field')}` (need {need}): every looser child form is parenthesised", loc)
    # right operands of the same grammar level: one obligation per level, keyed by the exact set of (parent, child) pairs
    for lvl, pairs in sorted(chain_bad.items()):
        members = sorted({p for p, _ in pairs} | {c for _, c in pairs})
        chk.ob("R-C10-1", f"chain-level:{lvl}|{','.join(members)}|{len(pairs)}", False,
               f"grammar level {lvl} ({', '.join(members)}): a right operand of the same level is printed without parentheses, so the grouping `x op (y op z)` "
               f"is lost for {len(pairs)} (parent, child) pairs, e.g. {sorted(pairs)[0][0]}(x, {sorted(pairs)[0][1]}(y, z))", loc, detail={"pairs": sorted(pairs)})
    chk.counts["R-C10-1:triples"] = n_tr
    chk.floor("R-C10-1", n_tr, 2000, "(template, hole, child) triples")

    # 3. R-C10-2: construction sites of bracket-only forms
    reviewed = load_table("c10_sites.json")
    zero_forms = {v for v in expr_variants if P[v] == 0}
    sites = {}
    gen_fns = [f for f in syn.fns if f["mod"].startswith("generate") and f.get("body") and not f.get("derived")]
    for fn in gen_fns:
        for n in walk(fn["body"]):
            if n.get("k") == "struct" and n["p"].startswith("Core::") and n["p"].split("::")[-1] in zero_forms:
                ctx = _enclosing_ctor(fn, n)
                sites.setdefault((fn["qual"], n["p"].split("::")[-1], ctx), 0)
                sites[(fn["qual"], n["p"].split("::")[-1], ctx)] += 1
    allowed = {(s["fn"], s["form"], s["inside"]) for s in reviewed["bracket_only_sites"]}
    for (fq, form, ctx), cnt in sorted(sites.items()):
        ok = (fq, form, ctx) in allowed
        chk.ob("R-C10-2", f"site:{fq}:{form}:{ctx}", ok,
               f"Core::{form} is constructed in {fq} inside `{ctx}`" + ("" if ok else
               " - a form that is only legal inside its parent's brackets is built at an unreviewed place"), None)
    # the state flag that makes tuples bare is only switched on for definition targets
    callers = []
    for fn in gen_fns:
        for n in walk(fn["body"]):
            if n.get("k") == "mcall" and n["m"] == "tuple_literal":
                callers.append(fn["qual"])
    for c in sorted(set(callers)):
        ok = c in reviewed["tuple_literal_callers"]
        chk.ob("R-C10-2", f"tuple_literal:{c}", ok, f"{c} switches bare-tuple printing on" + ("" if ok else " - unreviewed: a bare tuple may end up inside an operator"))
    chk.floor("R-C10-2", len(sites), 2, "construction sites of bracket-only forms")

    # 4. R-C10-3: desugarings construct nodes; no generate::convert function pre-renders expression text into an Id
    n_des = 0
    for fn in gen_fns:
        if not fn["mod"].startswith("generate::convert"):
            continue
        for n in walk(fn["body"]):
            if n.get("k") == "struct" and n["p"] in ("Core::Id", "Core::Int", "Core::Float", "Core::Str"):
                for fname, fv in n["fields"]:
                    n_des += 1
                    # the lexeme must not be produced by formatting a Core / calling to_string on a Core
                    bad = None
                    for m in walk(fv):
                        if m.get("k") == "macro" and m.get("name", "").endswith("format_args"):
                            args = m.get("args", [])[1:]
                            for a in args:
                                s = src(strip(a))
                                if s in ("core", "expr", "left", "right", "stmt", "other"):
                                    bad = f"format!(.., {s})"
                    if bad:
                        chk.ob("R-C10-3", f"prerender:{fn['qual']}:{n['p']}", False,
                               f"{fn['qual']} builds {n['p']} from pre-rendered text ({bad}): its structure is invisible to the printer", facts.loc_of(fn))
    chk.ob("R-C10-3", "scan", True, f"scanned {n_des} lexeme fields built in generate::convert: none is pre-rendered expression text")

    # 5. R-C10-4: parser facts
    try:
        from .chain import parse_tuple_fold
        pt = syn.one_fn("parse_tuple", mod="parse::collection")
        folds, why = parse_tuple_fold(syn)
        chk.ob("R-C10-4", "parse_tuple-folds-1", folds, f"{why} (so source parentheses exist only as tree shape)"
               if folds else f"{why}: `(e)` would be printed as `(e)` = e in Python, but the premise of the printer's parenthesis rules changed", facts.loc_of(pt))
    except AnchorError as e:
        chk.anchor_fail("R-C10-4", e)
    # a right operand on the chain level of its parent is printed bare because *the parser* nests unparenthesised chains to the right.  That
    # premise holds only for operator nodes that come from the parser: every construction of a chain-level Core operator in generate:: sits
    # in the conversion arm of the NodeTy node of the same name (one node in, one node out) - a generator that builds `Core::And` itself
    # (conditions folded into one conjunction) creates left-nested trees that the printer flattens to another grouping
    try:
        from .c11 import parents_map
        chainv = set(pm.chain_level) if getattr(pm, "chain_level", None) else set()
        n_sites = 0
        bad_sites = []
        for fn in syn.fns:
            if not fn["mod"].startswith("generate::") or "test" in fn["mod"] or not fn.get("body") or fn["mod"].startswith("generate::ast"):
                continue
            pm_ = None
            for n in walk(fn["body"]):
                if n.get("k") == "struct" and n["p"].startswith("Core::") and n["p"].split("::")[-1] in chainv:
                    n_sites += 1
                    if pm_ is None:
                        pm_ = parents_map(fn["body"])
                    cur, arm_pat = n, None
                    while True:
                        par, key = pm_.get(id(cur), (None, None))
                        if par is None:
                            break
                        if par.get("k") == "match":
                            for a_ in par["arms"]:
                                if a_ is cur or a_["body"] is cur or any(x is cur for x in walk(a_["body"])):
                                    arm_pat = src(a_["pat"], -30)
                            if arm_pat and "NodeTy::" in arm_pat:
                                break
                        cur = par
                    v_ = n["p"].split("::")[-1]
                    REVIEWED_SYNTH = {("generate::convert::range_slice::convert_range_slice", "Core::Add"):
                                      "`to + 1` of an inclusive range: the synthesised right operand is the literal 1 (R-C01-5), the left one is protected by the precedence table",
                                      ("generate::convert::range_slice::convert_range_slice", "Core::Sub"):
                                      "`to - 1` of an exclusive slice (known finding D35 is about its value, not its grouping): right operand literal 1, left operand protected"}
                    # `l ? r` is parsed on the level of and / or (parse_level_7, right-nested like them) and converted to `or` (its meaning: finding D34)
                    SAME_LEVEL_SOURCE = {"Or": ("NodeTy::Or", "NodeTy::Question")}
                    from_parser = arm_pat and any(a_.replace(" ", "") in arm_pat.replace(" ", "") for a_ in SAME_LEVEL_SOURCE.get(v_, (f"NodeTy::{v_}",)))
                    if not from_parser and (fn["qual"], n["p"]) not in REVIEWED_SYNTH:
                        bad_sites.append((fn["qual"], n["p"], arm_pat))
        chk.ob("R-C10-4", "chain-operators-come-from-the-parser", not bad_sites and n_sites >= len(chainv) - 2,
               f"all {n_sites} constructions of chain-level operators in generate:: convert the parser's node of the same name" if not bad_sites and n_sites >= len(chainv) - 2 else
               (f"{bad_sites[0][0]} builds `{bad_sites[0][1]}` outside the conversion of the parser's node of that name (enclosing arm: {str(bad_sites[0][2])[:50]}): the printer prints "
                "same-level right operands bare on the premise that the parser nested them - a synthesised operator tree is flattened to another grouping" if bad_sites else
                f"only {n_sites} constructions of chain-level operators found"), None)
    except AnchorError as e:
        chk.anchor_fail("R-C10-4", e)
    chk.assume("Python grammar as frozen in tables/python_expr.json (language reference 3.10 §6.17)")
    chk.notes.append(f"C10: {n_tr} (template, hole, child) triples enumerated exhaustively over {len(expr_variants)} expression variants.")


def _enclosing_ctor(fn, node):
    """name of the nearest enclosing Core constructor / pattern context for a struct literal (lexical)"""
    from .c11 import parents_map
    pm = parents_map(fn["body"])
    cur = node
    while True:
        par, key = pm.get(id(cur), (None, None))
        if par is None:
            return "-"
        if par.get("k") == "struct" and par["p"].startswith("Core::"):
            for fname, fv in par["fields"]:
                if fv is cur or any(x is cur for x in walk(fv)):
                    return f"{par['p']}.{fname}"
            return par["p"]
        cur = par
