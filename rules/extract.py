"""Fact extraction with a content-addressed cache.

Runs the two engines on /repo's *current working tree*:
  * mirfacts  (rustc_private driver under `cargo +nightly check --lib`)  -> mir.jsonl
  * `cargo +nightly rustc --lib -- -Zunpretty=expanded` + synfacts       -> expanded.rs, syn.json
The cache key is a hash over every file the analysis reads, so an edited tree is always re-analysed.
"""
import fcntl
import hashlib
import os
import shutil
import subprocess
import sys
import tempfile
import time

VERIF = os.path.dirname(os.path.dirname(os.path.abspath(__file__)))
REPO = os.environ.get("MAMBA_REPO", "/repo")
CACHE = os.path.join(VERIF, ".cache")
MIR_BIN = os.path.join(VERIF, "engines/mirfacts/target/release/mirfacts")
SYN_BIN = os.path.join(VERIF, "engines/synfacts/target/release/synfacts")


def _iter_files(repo):
    for top in ("src", "docs"):
        base = os.path.join(repo, top)
        for root, dirs, files in os.walk(base):
            dirs.sort()
            for f in sorted(files):
                yield os.path.join(root, f)
    for f in ("Cargo.toml", "Cargo.lock", "README.md"):
        p = os.path.join(repo, f)
        if os.path.exists(p):
            yield p


def tree_hash(repo=REPO):
    h = hashlib.sha256()
    for p in _iter_files(repo):
        h.update(os.path.relpath(p, repo).encode())
        h.update(b"\0")
        with open(p, "rb") as fh:
            h.update(hashlib.sha256(fh.read()).digest())
    for p in (MIR_BIN, SYN_BIN):
        with open(p, "rb") as fh:
            h.update(hashlib.sha256(fh.read()).digest())
    return h.hexdigest()[:24]


def _sysroot():
    return subprocess.check_output(["rustc", "+nightly", "--print", "sysroot"], text=True).strip()


def _run(cmd, env, cwd, log):
    with open(log, "ab") as lf:
        lf.write(("\n$ " + " ".join(cmd) + "\n").encode())
        lf.flush()
        return subprocess.run(cmd, env=env, cwd=cwd, stdout=lf, stderr=subprocess.STDOUT).returncode


def extract(repo=REPO, force=False, want_bin=False):
    """Returns the cache directory holding mir.jsonl / syn.json / expanded.rs for repo's current tree."""
    for b in (MIR_BIN, SYN_BIN):
        if not os.path.exists(b):
            print(f"ENGINE-MISSING {b}: run /verif/setup.sh first", file=sys.stderr)
            sys.exit(2)
    os.makedirs(CACHE, exist_ok=True)
    key = tree_hash(repo)
    d = os.path.join(CACHE, key)
    lock = open(os.path.join(CACHE, key + ".lock"), "w")
    fcntl.flock(lock, fcntl.LOCK_EX)
    try:
        done = os.path.join(d, "DONE")
        if force and os.path.isdir(d):
            shutil.rmtree(d)
        if os.path.exists(done) and (not want_bin or os.path.exists(os.path.join(d, "mir.jsonl.bin"))):
            return d
        os.makedirs(d, exist_ok=True)
        log = os.path.join(d, "extract.log")
        t0 = time.time()
        env = dict(os.environ)
        env["CARGO_NET_OFFLINE"] = "true"
        env["LD_LIBRARY_PATH"] = _sysroot() + "/lib:" + env.get("LD_LIBRARY_PATH", "")
        base_flags = "-Awarnings -Zallow-features="
        # 1. MIR facts (fresh target dir: cargo's freshness cache would otherwise skip the wrapper)
        tdir = tempfile.mkdtemp(prefix="mamba_verif_mir.")
        try:
            env1 = dict(env)
            env1["RUSTFLAGS"] = "-Zmir-opt-level=0 " + base_flags
            env1["RUSTC_WORKSPACE_WRAPPER"] = MIR_BIN
            env1["CARGO_TARGET_DIR"] = tdir
            env1["MIRFACTS_OUT"] = os.path.join(d, "mir.jsonl")
            target = ["--lib"] if not want_bin else ["--lib", "--bins"]
            rc = _run(["cargo", "+nightly", "check", "--offline"] + target, env1, repo, log)
            if rc != 0 or not os.path.exists(env1["MIRFACTS_OUT"]) or os.path.getsize(env1["MIRFACTS_OUT"]) == 0:
                print(f"EXTRACTION-FAILED (mirfacts rc={rc}); the tree does not build? see {log}", file=sys.stderr)
                sys.stderr.write(open(log, errors="replace").read()[-3000:])
                sys.exit(2)
        finally:
            shutil.rmtree(tdir, ignore_errors=True)
        # 2. macro-expanded source -> syn facts
        tdir = tempfile.mkdtemp(prefix="mamba_verif_exp.")
        try:
            env2 = dict(env)
            env2["RUSTFLAGS"] = base_flags
            env2["CARGO_TARGET_DIR"] = tdir
            exp = os.path.join(d, "expanded.rs")
            with open(exp, "wb") as out, open(log, "ab") as lf:
                rc = subprocess.run(
                    ["cargo", "+nightly", "rustc", "--offline", "--lib", "--", "-Zunpretty=expanded"],
                    env=env2, cwd=repo, stdout=out, stderr=lf).returncode
            if rc != 0 or os.path.getsize(exp) == 0:
                print(f"EXTRACTION-FAILED (expand rc={rc}); see {log}", file=sys.stderr)
                sys.exit(2)
        finally:
            shutil.rmtree(tdir, ignore_errors=True)
        rc = _run([SYN_BIN, exp, os.path.join(d, "syn.json")], env, repo, log)
        if rc != 0 or not os.path.exists(os.path.join(d, "syn.json")):
            print(f"EXTRACTION-FAILED (synfacts rc={rc}); see {log}", file=sys.stderr)
            sys.exit(2)
        with open(done, "w") as fh:
            fh.write(f"{time.time() - t0:.1f}\n")
        _prune(keep=key)
        return d
    finally:
        fcntl.flock(lock, fcntl.LOCK_UN)
        lock.close()


def _prune(keep, maxn=12, min_age_s=3600):
    """Keep the cache small (disk is limited; a tree is ~21 MB): the newest `maxn` trees, and never one younger than an hour -
    another check process may have extracted it a moment ago and not have read it yet."""
    ents = []
    for n in os.listdir(CACHE):
        p = os.path.join(CACHE, n)
        if os.path.isdir(p) and n != keep:
            ents.append((os.path.getmtime(p), p, n))
    ents.sort(reverse=True)
    now = time.time()
    for mt, p, n in ents[maxn - 1:]:
        if now - mt < min_age_s:
            continue
        shutil.rmtree(p, ignore_errors=True)
        try:
            os.remove(os.path.join(CACHE, n + ".lock"))
        except OSError:
            pass


if __name__ == "__main__":
    print(extract(force="--force" in sys.argv))
