"""C06 - null safety.

R-C06-1  (decision table A11) `TrueName::is_superset_of` - the one place that compares nullability - is turned into a propositional
         formula over its atoms and enumerated over all valuations (respecting the known implications between atoms) against
             accepts  <=>  not(self non-empty and other empty)  and  ( (self nullable and other is None)
                                                                        or ((self nullable or other not nullable) and variant accepts) )
         i.e. T? accepts None, T and T?; T accepts T but not T? and not None.
R-C06-2  (syntax) it is the only comparator: `unify_type`'s (Type, Type) arm reaches success only through
         `Name::is_superset_of` or the documented `Any` escape; no other function of check:: reads `is_nullable` to accept.
R-C06-3  (constraint census) the sources of null are typed: the literal None adds `Constraint::undefined`, `l ? r` requires its
         left operand to accept None, `pass` in a function with a return type is None; union with None turns the other members
         nullable (`Name::union` shape).
R-C06-4  (syntax + field-flow) constructor fields: the set of fields that an `__init__` must assign is
         {own fields} minus {fields a parent has, compared as whole fields} restricted to non-nullable, unassigned ones; the
         unassigned-set rules of C09 (R-C09-3) apply.
"""
import itertools
from .common import walk, src, strip, AnchorError, decision_function, load_table
from . import envflow, constr
from .c08 import _arm

ATOMS = {
    "self.is_empty()": "SE", "other.is_empty()": "OE", "self.is_nullable()": "SN", "other.is_nullable()": "ON", "other.is_null()": "ONULL",
    "self.variant.is_superset_of(&other.variant,ctx,pos)": "V",
    "(self.variant==other.variant)": "E", "(other.variant==self.variant)": "E",     # (the facts are normalised: sides of == in text order)
}
# implications between atoms that hold by construction (a valuation violating one cannot occur)
IMPLICATIONS = [("E", "V", "a class accepts itself (has_parent is reflexive: R-C20-2)")]


def spec(v):
    return (not ((not v["SE"]) and v["OE"])) and ((v["SN"] and v["ONULL"]) or ((v["SN"] or not v["ON"]) and v["V"]))


def nullable_table(facts):
    syn = facts.syn
    fn = syn.one_fn("is_superset_of", mod="check::name::true_name", impl_of="TrueName")
    ev, atoms = decision_function(fn["body"])
    unknown = [a for a in atoms if a not in ATOMS]
    if unknown:
        raise AnchorError(f"TrueName::is_superset_of tests `{unknown[0]}`, which is outside the reviewed atoms")
    names = [ATOMS[a] for a in atoms]
    return fn, ev, atoms, names


def run(chk, facts):
    syn = facts.syn
    chk.rule("R-C06-1", "decision table of TrueName::is_superset_of equals the nullable specification on every feasible valuation")
    chk.rule("R-C06-2", "unify_type accepts (Type, Type) only through Name::is_superset_of or the Any escape; nobody else decides on is_nullable")
    chk.rule("R-C06-3", "None literal -> undefined; `?` left operand accepts None; pass is None; union with None makes members nullable")
    chk.rule("R-C06-4", "constructor obligation set = own fields minus inherited (whole-field equality), non-nullable and unassigned")

    # ---------------- R-C06-1 ----------------
    try:
        fn, ev, atoms, names = nullable_table(facts)
        loc = facts.loc_of(fn)
        allnames = sorted(set(ATOMS.values()))
        rows = bad = 0
        first_bad = None
        for bits in itertools.product([False, True], repeat=len(allnames)):
            v = dict(zip(allnames, bits))
            if any(v[a] and not v[b] for a, b, _ in IMPLICATIONS):
                continue
            if v["ONULL"] and v["ON"] and False:
                continue
            code_v = {a: v[ATOMS[a]] for a in atoms}
            rows += 1
            got, want = ev(code_v), spec(v)
            if got != want:
                bad += 1
                if first_bad is None:
                    first_bad = (v, got, want)
        if first_bad:
            v, got, want = first_bad
            desc = ("T?" if v["SN"] else "T") + (" accepts " if got else " rejects ") + ("None" if v["ONULL"] else ("U?" if v["ON"] else "U")) + \
                   f" with variant-accepts={v['V']}" + (", same class" if v["E"] else "")
            chk.ob("R-C06-1", "table", False, f"TrueName::is_superset_of deviates on {bad} of {rows} feasible valuations, e.g. {desc} (specification: {'accept' if want else 'reject'}): "
                   "a nullable value can flow into a non-nullable position (or a legal one is refused)", loc, detail={"valuation": v})
        else:
            chk.ob("R-C06-1", "table", True, f"TrueName::is_superset_of agrees with the nullable specification on all {rows} feasible valuations of {names}", loc)
        chk.counts["R-C06-1"] += rows
        # named rows of the property, for the evidence
        for label, v in [("T? <- None", dict(SE=0, OE=0, SN=1, ON=0, ONULL=1, V=0, E=0)), ("T? <- T", dict(SE=0, OE=0, SN=1, ON=0, ONULL=0, V=1, E=1)),
                         ("T? <- T?", dict(SE=0, OE=0, SN=1, ON=1, ONULL=0, V=1, E=1)), ("T <- T?", dict(SE=0, OE=0, SN=0, ON=1, ONULL=0, V=1, E=1)),
                         ("T <- T", dict(SE=0, OE=0, SN=0, ON=0, ONULL=0, V=1, E=1)), ("A <- B? (B child of A)", dict(SE=0, OE=0, SN=0, ON=1, ONULL=0, V=1, E=0))]:
            vv = {k: bool(x) for k, x in v.items()}
            chk.sample({"rule": "R-C06-1", "row": label, "code": ev({a: vv[ATOMS[a]] for a in atoms}), "spec": spec(vv)})
    except AnchorError as e:
        chk.anchor_fail("R-C06-1", e)

    # ---------------- R-C06-2 ----------------
    try:
        ut = syn.one_fn("unify_type", mod="check::constrain::unify::ty")
        loc = facts.loc_of(ut)
        conds = [n for n in walk(ut["body"]) if n.get("k") == "if" and "is_superset_of" in src(n["c"])]
        if len(conds) != 1:
            raise AnchorError(f"unify_type: {len(conds)} conditions mention is_superset_of")
        from .common import disjuncts, fn_paths
        c = src(strip(conds[0]["c"])).replace(" ", "")
        # the three alternatives, in any order ..
        ok = disjuncts(conds[0]["c"]) == sorted(["l_ty.is_superset_of(r_ty,ctx,left.pos)?", "l_ty==&Name::any()", "r_ty==&Name::any()"])
        # .. and what they decide, on the enumerated paths: when the test fails the constraint is rejected, when it holds unification
        # goes on (whether `unify_link` is called in the branch or after it)
        from .common import _norm_cond
        cn = _norm_cond(conds[0]["c"])
        acc = rej = wrong = 0
        for p_ in fn_paths(ut["body"]):
            v = [pol for cc, pol in p_.conds if cc == cn or cc == c]
            if not v or p_.result is None:
                continue
            r_ = src(strip(p_.result)).replace(" ", "")
            if v[-1] and r_.startswith("unify_link("):
                acc += 1
            elif not v[-1] and r_.startswith("Err("):
                rej += 1
            else:
                wrong += 1
        ok = ok and acc >= 1 and rej >= 1 and wrong == 0
        chk.ob("R-C06-2", "unify_type:accept-condition", ok,
               "two types unify iff the parent accepts the child (Name::is_superset_of) or one side is Any" if ok else
               f"unify_type accepts two types under `{c[:140]}`: the comparison of declared and actual type is bypassed or reversed", loc)
    except AnchorError as e:
        chk.anchor_fail("R-C06-2", e)
    readers = set()
    for fn in syn.fns:
        if not fn.get("body") or fn.get("derived") or not fn["mod"].startswith("check"):
            continue
        for n in walk(fn["body"]):
            if (n.get("k") == "field" and n["name"] == "is_nullable") or (n.get("k") == "mcall" and n["m"] == "is_nullable"):
                readers.add(fn["qual"])
    table = load_table("c06_readers.json")
    for r in sorted(readers):
        ok = r in table["is_nullable_readers"]
        chk.ob("R-C06-2", f"reader:{r}", ok, f"{r} looks at nullability: {table['is_nullable_readers'].get(r, '')}" if ok else
               f"{r} looks at `is_nullable` but is not a reviewed reader: a second place that decides on nullability can disagree with the comparator")
    chk.floor("R-C06-2", len(readers), 5, "functions that read is_nullable")

    # ---------------- R-C06-3 ----------------
    cen = constr.census(syn)
    def has(fn, kind, msg, parent, child):
        return any(r["fn"] == fn and r["kind"] == kind and r["msg"] == msg and r["parent"] == parent and r["child"] == child for r in cen)
    ok = has("generate::expression::match_id", "undefined", "undefined", "expr:ast", "-")
    chk.ob("R-C06-3", "None-literal", ok, "the literal None is constrained to the undefined (None) type" if ok else "the literal None no longer gets the `undefined` constraint: it can take any type")
    ok = has("generate::expression::gen_expr", "add", "question", "expr:left", "none")
    chk.ob("R-C06-3", "question-left-accepts-None", ok, "`l ? r`: l must accept None" if ok else "`l ? r` no longer requires `l >= None` in this direction")
    ok = has("generate::expression::gen_expr", "add", "pass", "none", "var:expected_ret_ty")
    chk.ob("R-C06-3", "pass-is-None", ok, "`pass` in a function with a return type is typed as None", None)
    try:
        mid = syn.one_fn("match_id", mod="check::constrain::generate::expression")
        arm = _arm(mid, "Node::Id")
        first_if = None
        for n in walk(arm["body"]):
            if n.get("k") == "if":
                first_if = n
                break
        ok = first_if is not None and src(strip(first_if["c"])).replace(" ", "") == '(lit.as_str()=="None")' and "Constraint::undefined" in src(first_if["then"])
        chk.ob("R-C06-3", "None-literal-first", ok, "the None test comes first in identifier lookup" if ok else "the None literal is no longer recognised first in match_id", facts.loc_of(mid))
        un = [f for f in syn.find_fn("union", mod="check::name", impl_of="Name") if "Union < Name >" in (f.get("impl_trait") or "") or "Union<Name>" in (f.get("impl_trait") or "").replace(" ", "")]
        if len(un) != 1:
            raise AnchorError(f"{len(un)} impl Union<Name> for Name")
        # the function is folded over small unions (rules/smalleval.py): None next to other members is dropped and the others become
        # nullable; None alone and unions without None are returned as they are; the interchangeable flag is the disjunction
        from .smalleval import SmallEval, NoEval
        local = {f["name"]: f for f in syn.fns if f["mod"] == un[0]["mod"] and f.get("impl_of") is None and f.get("body")}
        T = lambda n_, nl=False: ("T", n_, nl)
        NONE = ("T", "None", False)
        fz = {"is_null": lambda t: t == NONE, "as_nullable": lambda t: ("T", t[1], True) if t != NONE else t}
        ev_u = SmallEval(local_fns=local, funcs={"TrueName::is_null": fz["is_null"], "TrueName::as_nullable": fz["as_nullable"]},
                         methods={"is_null": fz["is_null"], "as_nullable": fz["as_nullable"]})
        cases = [([NONE], [T("A")], [T("A", True)]), ([T("A")], [T("B")], [T("A"), T("B")]), ([NONE], [], [NONE]), ([NONE, T("A")], [T("B")], [T("A", True), T("B", True)]),
                 ([T("A", True)], [NONE], [T("A", True)]), ([], [T("A")], [T("A")]), ([NONE], [NONE], [NONE])]
        ok, why_u = True, None
        try:
            for l_, r_, want_ in cases:
                for il, ir in ((False, False), (True, False), (False, True)):
                    v = ev_u.call(un[0], [{"names": ("list", l_), "is_interchangeable": il}, {"names": ("list", r_), "is_interchangeable": ir}]) \
                        if len(un[0]["sig"]["inputs"]) == 2 and all(i_.get("pat", {}).get("k") == "pident" for i_ in un[0]["sig"]["inputs"]) else \
                        ev_u.ev(un[0]["body"], {"self": {"names": ("list", l_), "is_interchangeable": il}, "name": {"names": ("list", r_), "is_interchangeable": ir}})
                    got_ = v.get("names") if isinstance(v, dict) else None
                    if not (isinstance(got_, tuple) and got_[0] == "list" and sorted(got_[1]) == sorted(want_) and v.get("is_interchangeable") == (il or ir)):
                        ok = False
                        why_u = why_u or f"{[x[1] + ('?' if x[2] else '') for x in l_]} | {[x[1] + ('?' if x[2] else '') for x in r_]} gives {[x[1] + ('?' if x[2] else '') for x in (got_[1] if isinstance(got_, tuple) else [])]}"
        except NoEval as ex:
            ok, why_u = False, f"could not be evaluated ({ex})"
        unc_u = ev_u.uncovered()
        chk.ob("R-C06-3", "union:fold-covers-every-branch", not unc_u, f"the case table reaches every branch of Name::union and its helpers ({len(ev_u.cov)} branch outcomes)" if not unc_u else
               f"the case table does not reach {len(unc_u)} branch(es), e.g. {unc_u[0]}: what the union does there is not decided", facts.loc_of(un[0]))
        chk.ob("R-C06-3", "union-with-None", ok, "a union that contains None (and something else) becomes the other members made nullable" if ok else
               f"Name::union no longer turns `T | None` into `T?`: {why_u}", facts.loc_of(un[0]))
    except AnchorError as e:
        chk.anchor_fail("R-C06-3", e)

    # ---------------- R-C06-4 ----------------
    try:
        gd = syn.one_fn("gen_def", mod="check::constrain::generate::definition")
        loc = facts.loc_of(gd)
        arm = _arm(gd, "Node::FunDef")
        flt = [n for n in walk(arm["body"]) if n.get("k") == "mcall" and n["m"] == "filter" and "fields" in src(n["recv"])]
        from .common import cond_atoms
        bodies = sorted(sorted(str(a_) for a_ in cond_atoms(strip(f["args"][0])["body"], "&&")) for f in flt)
        want = sorted([["!parents.iter().any(|p|p.fields.contains(f))"], sorted(["!f.ty.is_nullable()", "!f.assigned_to"])])
        ok = bodies == want
        chk.ob("R-C06-4", "must-assign-set", ok,
               "must-assign set = own fields not contained (as whole fields) in a parent, non-nullable and without initialiser" if ok else
               f"the set of fields a constructor must assign is computed by {bodies}: a non-nullable field can stay unassigned (it is None at run time)", loc)
        ws = [n for n in walk(arm["body"]) if n.get("k") == "mcall" and n["m"] == "with_unassigned"]
        ok = len(ws) == 1 and src(strip(ws[0]["args"][0])) == "non_nullable_class_vars"
        chk.ob("R-C06-4", "body-env-unassigned", ok, "the constructor body starts with exactly that set as unassigned" if ok else "the constructor body no longer starts with the must-assign set", loc)
    except AnchorError as e:
        chk.anchor_fail("R-C06-4", e)
    envflow.check_unassigned_join(chk, facts, "R-C06-4")
    envflow.check_unassigned_closed(chk, facts, "R-C06-4")
    # the constructor clause of the property: a non-nullable field is assigned on every path before it is read (shared rule)
    chk.rule("R-C06-5", "non-nullable fields are definitely assigned by the constructor: unassigned join, `self.f` refused while unassigned, only `self.<field> := e` marks a field (shared with R-C09-3)")
    from .c09 import field_init
    field_init(chk, facts, "R-C06-5")
    chk.rule("R-C06-6", "no element is dropped before it is checked: every zip/take/skip in the checker is length-guarded or reviewed (shared census, rules/quant.py)")
    from .quant import truncation_census
    truncation_census(chk, facts, "R-C06-6")
    chk.notes.append("C06: decision table of the nullable comparator enumerated; constraint census for the sources of null.")
