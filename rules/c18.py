"""C18 - token positions are exact, indentation tokens balanced, stream ends with one Eof.

R-C18-1  (syntax, path enumeration of the lexer) consumed = spelled: on every path of every fixed-spelling arm of `into_tokens`
         the characters consumed (the matched char, each `it.next()`, each `next_and_create`) are exactly the printed form
         (`Display`) of the token created - the width of a token is the length of its printed form, so a path that consumes more
         or less moves every later column. For the variable tokens the printed form is lexeme plus exactly the delimiters the
         lexer consumed (string: quote + text + quote; comment: # + text; doc-string: three quotes on each side; numbers and
         identifiers: the lexeme itself; E-notation: base E exponent).
R-C18-2  (syntax) the caret advances by what was consumed: `State::token` and `Lex::new` both advance by `token.width()` columns
         and by `lines().count().saturating_sub(1)` lines for string tokens; `width()` is the length of `to_string()`;
         a newline resets the column to 1 and increments the line; a space advances one column. No signed arithmetic is involved.
R-C18-3  (tables) round trip: every keyword spelling maps to a token whose printed form is that spelling, the default is the
         identifier token, and no two fixed-spelling tokens share a printed form.
R-C18-4  (MIR) end of stream: `tokenize` appends `flush_indents()` and exactly one `Eof` on its only Ok path, after the loop.
R-C18-5  (syntax) interpolated expressions are re-lexed verbatim (`tokenize_direct(<captured text>)`, no trimming) and every nested
         token is shifted by the recorded offset of the opening brace (`lex.pos.offset(offset)`); the offset is taken when the
         brace counter goes from 0 to 1 as `state.pos.offset_pos(string.len() + 1)`.
"""
import re
from .common import idents_in, walk, src, strip, AnchorError, must_call_blocks, must_call_deep, text_as_is
from .lexer import LexerModel

VARIABLE_DISPLAY = {
    # token -> (template with {} holes, reason)
    "Token::Id": ("{}", "identifiers: every consumed char is pushed into the lexeme"),
    "Token::Int": ("{}", "digits are pushed into the lexeme"),
    "Token::Real": ("{}", "digits and the single `.` are pushed into the lexeme"),
    "Token::ENum": ("{}E{}", "base digits, the consumed `E`, exponent digits"),
    "Token::Str": ("\"{}\"", "opening quote, the text, closing quote"),
    "Token::DocStr": ("\"\"\"{}\"\"\"", "three tokens `\"\"`, `\"text\"`, `\"\"` are merged: 6 quote characters plus the text"),
    "Token::Comment": ("#{}", "the `#` and the text up to the end of the line"),
}
NO_WIDTH = {"Token::NL": "", "Token::Dedent": "", "Token::Eof": ""}


def run(chk, facts):
    syn, mir = facts.syn, facts.mir
    chk.rule("R-C18-1", "consumed characters = printed form of the token, on every path of every fixed-spelling arm; variable tokens print lexeme + consumed delimiters")
    chk.rule("R-C18-2", "caret advance = token.width() columns (+ lines-1 lines for strings); width() = to_string().len(); newline -> (line+1, 1)")
    chk.rule("R-C18-3", "keyword table round trip; printed forms of fixed tokens are pairwise distinct")
    chk.rule("R-C18-4", "tokenize: flush_indents and exactly one Eof on the Ok path")
    chk.rule("R-C18-5", "interpolations re-lexed verbatim and offset by the recorded brace position")
    lm = LexerModel(facts)
    loc = facts.loc_of(lm.fn)

    # ---------------- R-C18-1 ----------------
    n_paths = 0
    for first, paths in sorted(lm.paths.items()):
        for p in paths:
            if p.token in ("complex", "Err", "none"):
                continue
            n_paths += 1
            sp = lm.spelling(p.token)
            consumed = p.text()
            if p.token == "Token::NL":
                ok = consumed in ("\n", "\r\n")
                chk.ob("R-C18-1", f"path:{_show(consumed)}->{p.token}", ok, f"`{_show(consumed)}` -> NL (handled by State::newline, no width)" if ok else
                       f"NL is created after consuming `{_show(consumed)}`", loc)
                continue
            if sp is None:
                chk.ob("R-C18-1", f"path:{_show(consumed)}->{p.token}", False, f"{p.token} has no fixed printed form in Display but is created on a fixed path `{_show(consumed)}`", loc)
                continue
            ok = consumed == sp
            chk.ob("R-C18-1", f"path:{_show(consumed)}->{p.token}", ok,
                   f"`{_show(consumed)}` -> {p.token} (printed `{sp}`)" if ok else
                   f"the path that creates {p.token} consumes `{_show(consumed)}` but the token is {len(sp)} wide (`{sp}`): "
                   + ("it swallows a character it has not looked at" if "?" in consumed else "every later column on the line is shifted"), loc)
            chk.sample({"rule": "R-C18-1", "consumed": consumed, "token": p.token, "printed": sp})
    chk.floor("R-C18-1", n_paths, 40, "fixed-spelling lexer paths")
    # variable tokens
    for tok, (want, why) in VARIABLE_DISPLAY.items():
        d = lm.display.get(tok)
        if d is None:
            chk.ob("R-C18-1", f"display:{tok}", False, f"{tok} has no Display arm", loc)
            continue
        tmpl = d["template"] or ""
        norm = re.sub(r"\{(\d+)\}", "{}", tmpl)
        holes_in_order = [int(x) for x in re.findall(r"\{(\d+)\}", tmpl)]
        args_ok = holes_in_order == list(range(len(holes_in_order))) and all(a in d["binds"] for a in d["args"]) and re.search(r"\{\d+:", tmpl) is None
        ok = norm == want and args_ok
        chk.ob("R-C18-1", f"display:{tok}", ok,
               f"{tok} prints `{want}` = what the lexer consumed ({why})" if ok else
               f"{tok} prints `{tmpl}` with {d['args']} instead of `{want}`: its width differs from the characters consumed ({why}), e.g. a debug format re-escapes the text", loc)
    for tok, want in NO_WIDTH.items():
        sp = lm.spelling(tok)
        chk.ob("R-C18-1", f"display:{tok}", sp == want, f"{tok} has no width" if sp == want else f"{tok} prints `{sp}`: a token that is not in the text has a width", loc)
    # lexeme building: in the identifier and number loops, on every path through the loop body, each `it.next()` is paired with a
    # push of that char (decided per syntactic path, so merged or split arms, `if` inside an arm etc. do not matter)
    from .common import fn_paths
    for label, arm in lm.complex_arms.items():
        body_s = src(arm["body"]).replace(" ", "")
        if "id_or_operation" not in body_s and "e_num" not in body_s:
            continue
        which = "identifier" if "id_or_operation" in body_s and "e_num" not in body_s else "number"
        loops = [n for n in walk(arm["body"]) if n.get("k") in ("while", "loop", "for")]
        if not loops:
            chk.ob("R-C18-1", f"lexeme:{which}", False, f"{which} arm: no loop found", loc)
            continue
        bad = None
        n_paths = 0
        n_unpushed = 0
        for lp in loops[:1]:
            try:
                from .common import rename_shadowing_clones
                paths = fn_paths(rename_shadowing_clones(lp["body"], "it"))   # a look-ahead on `let mut it = it.clone()` does not consume
            except AnchorError as e:
                chk.anchor_fail("R-C18-1", e)
                continue
            for p in paths:
                n_paths += 1
                nexts = sum(1 for ev in p.events if ev.get("k") == "mcall" and ev["m"] == "next" and src(strip(ev["recv"])) == "it")
                pushes = sum(1 for ev in p.events if ev.get("k") == "mcall" and ev["m"] == "push" and ev["args"] and src(strip(ev["args"][0])).lstrip("*") == "c")
                # a look-ahead on a clone that shadows `it` (`let mut it = it.clone(); it.next();`) does not consume: those calls sit
                # in a block with that `let`; fn_paths works on inlined lets, where the receiver is `it.clone()` then - not `it`
                if nexts == pushes:
                    continue
                if which == "number" and nexts == pushes + 1 and any(c.endswith("'E'") or "~'E'" in c for c, pol in p.conds if pol):
                    n_unpushed += 1     # the `E` itself: consumed, not pushed; Display prints it between mantissa and exponent
                    continue
                bad = bad or (nexts, pushes, [c for c, pol in p.conds if pol][-2:])
        ok = bad is None and n_paths > 0 and (which != "number" or n_unpushed == 1)
        chk.ob("R-C18-1", f"lexeme:{which}", ok,
               f"{which} loop: on each of {n_paths} paths every consumed char is pushed into the lexeme" + (" (except the `E`, which Display re-adds)" if which == "number" else "") if ok else
               (f"{which} loop: a path ({bad[2]}) consumes {bad[0]} char(s) but pushes {bad[1]}: the printed token is not what was consumed, so every later column is shifted" if bad else
                f"{which} loop: {n_paths} paths, {n_unpushed} unpushed `E` paths"), loc)

    # the token that is created carries the accumulated lexeme *unchanged*: Token::Int(number) / Real(number) / ENum(number, exp) /
    # as_op_or_id(id_or_operation). (Filling in a default - `if exp.is_empty() { "0" }` - here makes the token print wider than the
    # text it was read from; defaults belong to the code generator.) Decided on the symbolic value of the argument of `create(..)`.
    from . import symeval as _sv
    for label, arm in lm.complex_arms.items():
        body_s = src(arm["body"]).replace(" ", "")
        if "e_num" not in body_s and "id_or_operation" not in body_s:
            continue
        which = "number" if "e_num" in body_s else "identifier"
        creates = [n for n in walk(arm["body"]) if n.get("k") == "call" and n["f"].get("k") == "path" and n["f"]["p"] == "create" and len(n["args"]) == 2]
        se_ = _sv.SymEval(syn, "parse::lex")
        bad_tok = None
        n_leaves = 0
        env_ = {v_: ("var", v_) for v_ in ("number", "exp", "float", "e_num", "id_or_operation", "state")}
        # lets before the create (e.g. `let literal = match (e_num, float) {..}`)
        if arm["body"].get("k") == "block":
            for st_ in arm["body"]["stmts"]:
                if st_.get("k") == "local" and st_.get("init") is not None and st_["pat"].get("k") == "pident" and not st_["pat"].get("mut"):
                    env_[st_["pat"]["name"]] = se_.ev(st_["init"], env_)

        def leaves(v_):
            if v_[0] == "ite":
                yield from leaves(v_[2])
                yield from leaves(v_[3])
            elif v_[0] == "match":
                for _p, _g, x_ in v_[2]:
                    yield from leaves(x_)
            else:
                yield v_
        if which == "identifier":
            # the keyword table is applied to the accumulated word as it is (the table itself: R-C18-3)
            from .common import inline_lets as _il
            cr2 = [n for n in walk(_il(arm["body"])) if n.get("k") == "call" and n["f"].get("k") == "path" and n["f"]["p"] == "create" and len(n["args"]) == 2]
            okc = bool(cr2) and all(strip(c_["args"][1]).get("k") == "call" and src(strip(c_["args"][1])["f"]) == "as_op_or_id" and
                                    [src(strip(a_)) for a_ in strip(c_["args"][1])["args"]] == ["id_or_operation"] for c_ in cr2)
            chk.ob("R-C18-1", "token-carries-lexeme:identifier", okc, "identifier arm: the keyword table is applied to the accumulated word unchanged" if okc else
                   "identifier arm: the token is no longer `as_op_or_id(<the accumulated word>)`: its printed form differs from the characters consumed", loc)
            continue
        for c_ in creates:
            for lf in leaves(se_.ev(c_["args"][1], env_)):
                n_leaves += 1
                okl = (lf[0] == "call" and lf[1] in ("Token::Int", "Token::Real") and lf[2] == [("var", "number")]) or \
                      (lf[0] == "call" and lf[1] == "Token::ENum" and lf[2] == [("var", "number"), ("var", "exp")]) or \
                      (lf[0] == "call" and lf[1] == "as_op_or_id" and lf[2] == [("var", "id_or_operation")])
                if not okl:
                    bad_tok = bad_tok or _sv.show(lf)[:90]
        ok = bad_tok is None and n_leaves >= (3 if which == "number" else 1)
        chk.ob("R-C18-1", f"token-carries-lexeme:{which}", ok, f"{which} arm: the created token carries the accumulated text unchanged ({n_leaves} form(s))" if ok else
               f"{which} arm: the token is created as `{bad_tok}` - not from the accumulated text as it was read: its printed form (and so its width) differs from the characters "
               "consumed, and every later token on the line is shifted", loc)

    # ---------------- R-C18-2 ----------------
    try:
        from .common import inline_lets, fn_paths
        from . import symeval
        se = symeval.SymEval(syn, "parse::lex")
        w = syn.one_fn("width", impl_of="Token")
        wv = se.ev(w["body"], {"self": ("var", "self")})
        measure = None          # how the printed form is measured: ("len",) or ("chars", "count")
        if wv == ("mcall", ("var", "self"), "len", []):
            measure = ("len",)
        elif wv == ("mcall", ("mcall", ("var", "self"), "chars", []), "count", []):
            measure = ("chars", "count")
        ok = measure == ("chars", "count")
        chk.ob("R-C18-2", "width=characters-of-printed-form", ok, "Token::width is the number of characters of the printed form (a column is one character: State::space, the caret that runs through a literal, the renderer's indentation)" if ok else
               (f"Token::width is `{src(w['body'])[:60]}`" if measure is None else "Token::width counts bytes, every other column count characters: after a non-ASCII character all columns of the line are too large"), facts.loc_of(w))

        def meas(x):
            v = x
            for m_ in measure or ("len",):
                v = ("mcall", v, m_, [])
            return v

        def terms(v):
            if v[0] == "bin" and v[1] == "+":
                return sorted(terms(v[2]) + terms(v[3]), key=repr)
            return [v]
        # the caret after a token is one function of (caret before, token): Token::end.  It is folded (rules/smalleval.py) over printed forms that
        # cover its branches - without a line break, with one, with two, ending in one, consisting of one, with a non-ASCII character - from a
        # start caret in the middle of a line: without a break it ends `characters` columns after its start, with breaks on line + number of
        # '\n' (the lexer's own line rule, R-C19-4 lexer:newline-at-LF-and-CRLF) at column 1 + characters after the last break
        from .smalleval import SmallEval, NoEval
        en = syn.one_fn("end", impl_of="Token")
        methods_ = {}
        for f_ in syn.fns:
            if f_.get("impl_of") and f_.get("body") and not f_.get("impl_trait") and f_["mod"] in ("common::position", "parse::lex::token"):
                methods_[(f_["impl_of"].strip(), f_["name"])] = f_
        cases_e = [("ab", (3, 7)), ("\u00e9\"x", (3, 8)), ("a\nbc", (4, 3)), ("a\n\nbcd", (5, 4)), ("ab\n", (4, 1)), ("\n", (4, 1)), ("", (3, 5))]
        ev_e = SmallEval(methods={"to_string": lambda tok: ("text", tok[1]) if isinstance(tok, tuple) and tok[0] == "tok" else tok})
        ev_e.local_methods = methods_
        bad_none, bad_some = None, None
        try:
            for text_, (wl, wp) in cases_e:
                r_ = ev_e.call(en, [("tok", text_), {"__struct__": "CaretPos", "line": 3, "pos": 5}])
                got_ = (r_.get("line"), r_.get("pos")) if isinstance(r_, dict) else r_
                if got_ != (wl, wp):
                    msg_ = f"a token printed as {text_!r} that starts at 3:5 ends at {got_}, its characters end at {wl}:{wp}"
                    if "\n" in text_:
                        bad_some = bad_some or msg_
                    else:
                        bad_none = bad_none or msg_
        except NoEval as ex:
            bad_none = bad_some = f"could not be evaluated ({ex})"
        chk.ob("R-C18-2", "Token::end:no-break", bad_none is None, "a token without a line break ends `characters` columns after its start" if bad_none is None else
               f"Token::end: {bad_none}", facts.loc_of(en))
        chk.ob("R-C18-2", "Token::end:line-breaks", bad_some is None, "a token with line breaks ends on line + (number of \\n), at column 1 + what follows the last break" if bad_some is None else
               f"Token::end: {bad_some}: a multi-line or empty string moves later line numbers or columns", facts.loc_of(en))
        unc_e = ev_e.uncovered()
        chk.ob("R-C18-2", "Token::end:fold-covers-every-branch", not unc_e, "the printed forms reach every branch of Token::end and the helpers it calls" if not unc_e else
               f"the printed forms do not reach {len(unc_e)} branch(es), e.g. {unc_e[0]}", facts.loc_of(en))
        st = syn.one_fn("token", impl_of="State")
        s_ = src(st["body"], -30).replace(" ", "")
        # on every path that pushes the token, the caret is advanced exactly once, by `token.end(self.pos)`, after the push
        ok1, ok3, why1 = True, True, None
        n_paths = 0
        for p_ in fn_paths(inline_lets(st["body"])):
            evs = []
            for ev in p_.events:
                for n in walk(ev):
                    if n.get("k") == "assign" and src(strip(n["l"])) == "self.pos":
                        evs.append(("adv", n))
                    elif n.get("k") == "mcall" and n["m"] == "push" and "Lex::new(self.pos,token" in src(n, -30).replace(" ", ""):
                        evs.append(("push", n))
            pushes = [i for i, (k_, _) in enumerate(evs) if k_ == "push"]
            advs = [i for i, (k_, _) in enumerate(evs) if k_ == "adv"]
            if not pushes:
                if advs:
                    ok1, why1 = False, "the caret moves on a path that records no token"
                continue
            n_paths += 1
            if len(advs) != 1:
                ok1, why1 = False, f"{len(advs)} caret updates on a path that records the token"
                continue
            r_ = strip(evs[advs[0]][1]["r"])
            if not (r_.get("k") == "mcall" and r_["m"] == "end" and src(strip(r_["recv"])) == "token" and len(r_["args"]) == 1 and src(strip(r_["args"][0])) == "self.pos"):
                ok1, why1 = False, f"the caret becomes `{src(r_, -30)[:60]}`"
            if advs[0] < pushes[-1]:
                ok3 = False
        ok1 = ok1 and n_paths >= 1
        chk.ob("R-C18-2", "State::token:advance", ok1, "State::token moves the caret to token.end(caret)" if ok1 else f"State::token no longer moves the caret to token.end(caret): {why1}", facts.loc_of(st))
        chk.ob("R-C18-2", "State::token:start-before-advance", ok3 and n_paths >= 1, "the token is recorded at the caret before it advances" if ok3 and n_paths >= 1 else "the token is no longer recorded at the caret position before the advance", facts.loc_of(st))
        ln = syn.one_fn("new", impl_of="Lex")
        lv = se.ev(ln["body"], {"start": ("var", "start"), "token": ("var", "token")})
        ok = False
        if lv[0] == "core" and lv[1] in ("Lex", "Self"):
            posv = lv[2].get("pos")
            if posv and posv[0] == "core" and posv[1] == "Position" and posv[2].get("start") == ("var", "start"):
                ok = posv[2].get("end") == ("mcall", ("var", "token"), "end", [("var", "start")])
        chk.ob("R-C18-2", "Lex::new:end=token.end(start)", ok, "Lex::new: the span ends at token.end(start) - the same function that moves the caret" if ok else
               f"Lex::new no longer computes end = token.end(start): `{symeval.show(lv)[:120]}`", facts.loc_of(ln))
        nl = syn.one_fn("newline", impl_of="State")
        sp = syn.one_fn("space", impl_of="State")
        from .lexer import state_step_folds
        from .smalleval import NoEval as _NoEval2
        try:
            after, unc = state_step_folds(syn)
            why = ("a branch no case reaches: " + "; ".join(unc[:2])) if unc else ""
        except _NoEval2 as ex:
            after, unc, why = None, [], f"not foldable ({ex})"

        def pos_of(st_):
            return (st_["pos"].get("line"), st_["pos"].get("pos"))
        ok = after is not None and not unc and all(
            pos_of(after[("newline", fl, li)]) == (4, 1) and after[("newline", fl, li)]["newlines"] == ("list", [("lex", {"line": 3, "pos": 7}, "Token::NL")])
            for fl in (False, True) for li in (1, 5))
        chk.ob("R-C18-2", "State::newline", ok, "a newline is recorded at the caret, then the caret moves to the next line, column 1 (State::newline folded)" if ok else
               f"State::newline no longer records one NL token at the caret and moves to column 1 of the next line {why}", facts.loc_of(nl))
        ok = after is not None and not unc and all(pos_of(after[("space", fl, li)]) == (3, 8) for fl in (False, True) for li in (1, 5))
        chk.ob("R-C18-2", "State::space", ok, "a space advances the caret by one column (State::space folded)" if ok else f"State::space no longer advances by one column {why}", facts.loc_of(sp))
        op = syn.one_fn("offset_pos", impl_of="CaretPos")
        # folded over three (position, offset) pairs: the line stays, the column grows by the offset - however the sum is written
        from .smalleval import SmallEval as _SEo, NoEval as _NEo
        try:
            ev_o2 = _SEo(funcs={"CaretPos::new": lambda l_, p_: {"line": l_, "pos": p_}})
            ok = True
            for (l_, c_, o_) in ((3, 7, 5), (10, 1, 0), (1, 1, 12)):
                r_ = ev_o2.call(op, [{"__struct__": "CaretPos", "line": l_, "pos": c_}, o_])
                ok = ok and isinstance(r_, dict) and r_.get("line") == l_ and r_.get("pos") == c_ + o_
            ok = ok and not ev_o2.uncovered()
        except _NEo:
            ok = False
        chk.ob("R-C18-2", "CaretPos::offset_pos", ok, "offset_pos adds the offset to the column" if ok else "CaretPos::offset_pos changed", facts.loc_of(op))
    except AnchorError as e:
        chk.anchor_fail("R-C18-2", e)

    # ---------------- R-C18-3 ----------------
    n_kw = 0
    for spelling, tok in sorted(lm.keywords.items()):
        n_kw += 1
        sp = lm.spelling(tok)
        ok = sp == spelling
        chk.ob("R-C18-3", f"keyword:{spelling}", ok, f"`{spelling}` <-> {tok}" if ok else
               f"`{spelling}` is lexed as {tok}, which prints as `{sp}`: lexing the canonical spelling does not give the token back and its width is wrong", loc)
    chk.floor("R-C18-3", n_kw, 35, "keyword rows")
    ok = (lm.keyword_default or "").replace(" ", "") == "Token::Id(string)"
    chk.ob("R-C18-3", "default=Id", ok, "any other word is an identifier" if ok else f"the default of as_op_or_id is `{lm.keyword_default}`", loc)
    seen = {}
    for tok, d in lm.display.items():
        sp = lm.spelling(tok)
        if sp:
            seen.setdefault(sp, []).append(tok)
    for sp, toks in sorted(seen.items()):
        if len(toks) > 1:
            chk.ob("R-C18-3", f"distinct:{sp}", False, f"{toks} share the printed form `{sp}`", loc)
    chk.ob("R-C18-3", "distinct", True, f"{len(seen)} distinct printed forms of fixed-spelling tokens")
    # every fixed-spelling symbol token is reachable by lexing its own spelling
    produced = {}
    for first, paths in lm.paths.items():
        for p in paths:
            if p.token.startswith("Token::"):
                produced.setdefault(p.token, set()).add(p.text())
    for tok, d in sorted(lm.display.items()):
        sp = lm.spelling(tok)
        if not sp or tok in lm.keywords.values() or tok in ("Token::Indent",):
            continue
        ok = sp in produced.get(tok, set())
        chk.ob("R-C18-3", f"symbol:{tok}", ok, f"lexing `{sp}` gives {tok}" if ok else f"no lexer path consumes `{sp}` and creates {tok}", loc)

    # ---------------- R-C18-4 ----------------
    tk = mir.one("parse::lex::tokenize")
    eof = 0
    for bb, s in tk.stmts():
        if s.rv == "Aggregate" and s.detail.startswith("Adt|parse::lex::token::Token|") and s.detail.endswith("|Eof"):
            eof += 1
    holds, path = must_call_deep(mir, tk, 0, lambda t: t.callee.endswith("State::flush_indents"))
    chk.ob("R-C18-4", "flush_indents", holds, "every Ok path of tokenize flushes the open indents" if holds else "tokenize can return Ok without flush_indents: indents stay unmatched", tk.loc)
    chk.ob("R-C18-4", "one-Eof", eof == 1, "tokenize builds exactly one Eof token" if eof == 1 else f"tokenize builds {eof} Eof tokens", tk.loc)
    # the Eof is pushed outside the character loop
    loops = tk.natural_loops()
    in_loop = set()
    for h, blks in loops:
        in_loop |= blks
    eof_blocks = [bb.idx for bb, s in tk.stmts() if s.rv == "Aggregate" and s.detail.endswith("|Eof")]
    ok = all(b not in in_loop for b in eof_blocks)
    chk.ob("R-C18-4", "Eof-after-loop", ok, "the Eof is appended after the character loop" if ok else "the Eof is appended inside the character loop", tk.loc)

    # balance: the numbers of Indent and Dedent tokens are differences of ONE level function of the indentation, so they add up to
    # zero over any sequence of lines.  The three amounts (indent, dedent in State::token; the final flush) are folded over all pairs
    # (current, new) of indentation columns 1..17 (rules/smalleval.py; the expressions are built from +, -, / by constants: their
    # deviation from a telescoping sum is periodic in both columns, and 17 covers four periods of the 4-column step):
    #   net(current, new) = flush(new) - flush(current),  no amount is negative,  flush(1) = 0,
    # and State::token leaves current = new, flush_indents leaves current = 1 = the initial value.
    try:
        from .smalleval import SmallEval, NoEval
        from .common import inline_lets
        st_ = syn.one_fn("token", impl_of="State")
        fl_ = syn.one_fn("flush_indents", impl_of="State")
        local = {f["name"]: f for f in syn.fns if f["mod"] == st_["mod"] and f.get("body") and (f.get("impl_of") is None or
                 ((f.get("impl_of") or "").strip() == "State" and not f.get("impl_trait") and f["sig"]["inputs"] and f["sig"]["inputs"][0].get("pat", {}).get("name") != "self"))}

        def amounts(fn, tok):
            out = []
            for n in walk(inline_lets(fn["body"])):
                if n.get("k") == "call" and src(n["f"]).endswith("from_elem") and len(n["args"]) == 2 and f"Token::{tok}" in src(n["args"][0], -30):
                    out.append(n)
            return out
        body_i = inline_lets(st_["body"])
        ifs = [n for n in walk(body_i) if n.get("k") == "if" and n.get("else") is not None and "line_indent" in src(n["c"], -30) and "cur_indent" in src(n["c"], -30)
               and n["c"].get("k") != "let"]
        if len(ifs) != 1:
            raise AnchorError(f"State::token: {len(ifs)} branches compare line_indent with cur_indent")
        br = ifs[0]

        mk = {"CaretPos::new": lambda l_, p_: {"line": l_, "pos": p_}, "Lex::new": lambda a_, b_: ("lex", a_, b_),
              "from_elem": lambda x, n_: ("list", [x] * n_) if isinstance(n_, int) and 0 <= n_ < 4096 else ("neg", n_)}

        def side(block):
            """(sign, expression that yields the run of Indent / Dedent tokens handed to `res`)"""
            runs = [n for n in walk(block) if n.get("k") == "mcall" and n["m"] in ("append", "extend") and src(strip(n["recv"])) == "res" and n["args"] and
                    ("Token::Indent" in src(n["args"][0], -30) or "Token::Dedent" in src(n["args"][0], -30))]
            if len(runs) != 1:
                raise AnchorError("State::token: a branch does not produce exactly one run of Indent or Dedent tokens")
            return (+1 if "Token::Indent" in src(runs[0]["args"][0], -30) else -1), strip(runs[0]["args"][0])
        then_s, else_s = side(br["then"]), side(br["else"])
        fls = [n for n in walk(inline_lets(fl_["body"])) if n.get("k") == "call" and src(n["f"]).endswith("from_elem") and len(n["args"]) == 2 and "Token::Dedent" in src(n["args"][0], -30)]
        if len(fls) != 1:
            raise AnchorError("flush_indents does not produce exactly one run of Dedent tokens")
        ev = SmallEval(local_fns=local, funcs=mk)

        def count(expr, env):
            v = ev.ev(expr, env)
            if isinstance(v, tuple) and v and v[0] == "list":
                return len(v[1])
            return -1

        def flush(x):
            return count(fls[0], {"self": {"cur_indent": x, "line_indent": x, "pos": {"line": 1, "pos": x}}})
        bad = None
        try:
            if flush(1) != 0:
                bad = f"flush_indents emits {flush(1)} dedents at indentation column 1"
            for ci in range(1, 18):
                for li in range(1, 18):
                    env = {"self": {"cur_indent": ci, "line_indent": li, "pos": {"line": 1, "pos": li}}}
                    c = ev.ev(br["c"], env)
                    sgn, run_e = then_s if c else else_s
                    amt = count(run_e, env)
                    if amt < 0 or flush(li) < 0 or flush(ci) < 0:
                        bad = bad or f"from column {ci} to column {li}: a negative number of tokens"
                    elif sgn * amt != flush(li) - flush(ci):
                        bad = bad or (f"a line in column {li} after one in column {ci} gives {amt} {'Indent' if sgn > 0 else 'Dedent'} token(s), but the flush at the end of input "
                                      f"emits {flush(li)} dedents from column {li} and {flush(ci)} from column {ci}: the counts are not differences of one level function, so some sequence of lines leaves an Indent without its Dedent (or the reverse)")
        except NoEval as ex:
            bad = f"the indent / dedent amounts could not be evaluated ({ex})"
        chk.ob("R-C18-4", "indent-balance", bad is None, "Indent and Dedent counts are differences of one level function of the indentation column: they add up to zero for every sequence of lines" if bad is None else
               f"indents and dedents do not add up: {bad}", facts.loc_of(st_))
        s_tok = src(st_["body"], -30).replace(" ", "")
        s_fl = src(fl_["body"], -30).replace(" ", "")
        okc = "self.cur_indent=self.line_indent" in s_tok and "self.cur_indent=1" in s_fl
        chk.ob("R-C18-4", "indent-state", okc, "State::token leaves current = new indentation; flush_indents resets it to column 1" if okc else
               "the indentation state is no longer updated to the new column / reset to 1 by the flush", facts.loc_of(st_))
    except AnchorError as e:
        chk.anchor_fail("R-C18-4", e)

    # ---------------- R-C18-6 ----------------
    # the synthetic tokens of State::token have spans too: an Indent stands for the four spaces of its level in front of the first
    # token of the line (it must not sit on that token), and what is handed out is in the order of the positions
    chk.rule("R-C18-6", "Indent tokens cover the leading spaces of their level; tokens are handed out in the order of their positions")
    try:
        from .smalleval import SmallEval, NoEval
        from .common import inline_lets, fn_paths
        st6 = syn.one_fn("token", impl_of="State")
        local6 = local
        body6 = inline_lets(st6["body"])
        makers = []
        for n in walk(body6):
            if n.get("k") == "mcall" and n["m"] in ("append", "extend", "push") and src(strip(n["recv"])) == "res" and n["args"] and "Token::Indent" in src(n["args"][0], -30):
                makers.append(n)
        if len(makers) != 1:
            raise AnchorError(f"State::token: {len(makers)} places hand out Indent tokens")
        arg = strip(makers[0]["args"][0])
        bad6 = None
        width_indent = len(lm.spelling("Token::Indent") or "")
        for ci in (1, 5, 9):
            for li in (ci, ci + 4, ci + 8):
                ev6 = SmallEval(local_fns=local6, funcs={
                    "CaretPos::new": lambda l_, p_: {"line": l_, "pos": p_},
                    "Lex::new": lambda st__, tk__: ("lex", st__, tk__),
                    "from_elem": lambda x, n_: ("list", [x] * n_ if isinstance(n_, int) and 0 <= n_ < 64 else [])})
                env6 = {"self": {"cur_indent": ci, "line_indent": li, "pos": {"line": 7, "pos": li}}}
                try:
                    v = ev6.ev(arg, env6)
                except NoEval as ex:
                    bad6 = bad6 or f"the Indent tokens could not be evaluated ({ex})"
                    continue
                got = [(x[1]["line"], x[1]["pos"]) for x in (v[1] if isinstance(v, tuple) and v[0] == "list" else []) if isinstance(x, tuple) and x[0] == "lex" and isinstance(x[1], dict)]
                want = [(7, c) for c in range(ci, li, 4)]
                if got != want and not bad6:
                    where = ", ".join(f"{a}:{b}" for a, b in got) or "-"
                    bad6 = (f"a line whose first token is in column {li} after one in column {ci}: Indent token(s) recorded at {where}; the {len(want)} level(s) of four spaces "
                            f"start at {', '.join(f'{a}:{b}' for a, b in want) or '-'}" +
                            (f" - an Indent is {width_indent} wide, so one recorded at the column of the token overlaps it" if got and got[-1][1] + width_indent > li else ""))
        chk.ob("R-C18-6", "indent-span", bad6 is None and width_indent == 4, "each Indent token covers the four leading spaces of its level, in front of the first token of the line" if bad6 is None and width_indent == 4 else
               f"Indent tokens do not cover the spaces they stand for: {bad6 or f'Indent is printed {width_indent} wide'}", facts.loc_of(st6))
        # order: once something positioned on the current line (the caret) is in `res`, nothing from earlier lines (the batched newlines) follows
        worst = None
        for p_ in fn_paths(body6):
            seen_cur = False
            for ev_ in p_.events:
                e_ = strip(ev_)
                if e_.get("k") != "mcall" or src(strip(e_["recv"])) != "res" or e_["m"] not in ("append", "extend", "push", "insert"):
                    continue
                a_s = src(e_["args"][0], -30) if e_["args"] else ""
                if "self.newlines" in a_s:
                    if seen_cur:
                        worst = "the batched newline tokens (positions on earlier lines) are appended after tokens positioned on the current line"
                elif "self.pos" in a_s:
                    seen_cur = True
        chk.ob("R-C18-6", "newline-order", worst is None, "tokens are handed out in the order of their positions" if worst is None else
               f"State::token: {worst}: after two or more blank lines in front of an indented or dedented line the stream is not ordered by position", facts.loc_of(st6))
    except AnchorError as e:
        chk.anchor_fail("R-C18-6", e)

    # ---------------- R-C18-5 ----------------
    try:
        strarm = None
        for firsts, a in lm.arms:
            if '"' in firsts:
                strarm = a
        if strarm is None:
            raise AnchorError("no arm for the string quote")
        td = [n for n in walk(strarm["body"]) if n.get("k") == "call" and n["f"].get("k") == "path" and n["f"]["p"] == "tokenize_direct"]
        ok = len(td) == 1 and strip(td[0]["args"][0]).get("k") == "path"
        arg = src(td[0]["args"][0]) if td else "-"
        # the argument must be the closure's tuple parameter bound to the captured text
        chk.ob("R-C18-5", "relex-verbatim", ok, f"the captured text is re-lexed as it is (`tokenize_direct({arg})`)" if ok else
               f"the interpolated text is transformed before re-lexing (`tokenize_direct({arg})`): the recorded offset no longer matches its first character", loc)
        from .common import inline_lets
        # .. and the re-lexer itself reads its input as it is: in `tokenize` / `tokenize_direct` the character iterator is `input.chars()`
        # and nothing textual (trim, replace ..) is applied to the input - the recorded offset is that of the first character
        for tname in ("tokenize", "tokenize_direct"):
            tf_ = syn.one_fn(tname, mod="parse::lex")
            pin = tf_["sig"]["inputs"][0]["pat"].get("name", "input")
            reached_, bad_ = text_as_is(syn, tf_, pin)
            okt = not bad_ and len(reached_) == 1
            chk.ob("R-C18-5", f"input-as-is:{tname}", okt, f"{tname} iterates the characters of its input as it is ({reached_[0]})" if okt else
                   f"{tname} transforms its input before lexing ({'; '.join(bad_) if bad_ else f'chars() reached {len(reached_)} times'}): the positions it reports are "
                   "relative to the transformed text, the offsets recorded by the caller to the original one", facts.loc_of(tf_))
        nodes = list(walk(inline_lets(strarm["body"])))     # `let start = lex.pos.offset(offset).start; Lex::new(start, ..)` alike
        # every Lex::new in the string arm (they build the nested tokens) starts at <token>.pos.offset(<recorded offset>).start, where the
        # offset is the one bound together with the re-lexed text (tuple pattern of the closure / loop over `exprs`)
        lex_news = [n for n in nodes if n.get("k") == "call" and n["f"].get("k") == "path" and n["f"]["p"] == "Lex::new" and n["args"]]
        off_names = set()
        for n in walk(strarm["body"]):
            pats = []
            if n.get("k") == "closure":
                pats = n.get("params", [])
            elif n.get("k") == "for":
                pats = [n["pat"]]
            for p_ in pats:
                tp = [x for x in walk(p_) if x.get("k") == "ptuple" and len(x["elems"]) == 2]
                for t_ in tp:
                    nm = [x["name"] for x in walk(t_["elems"][0]) if x.get("k") == "pident"]
                    off_names |= set(nm)
        ok = bool(lex_news) and bool(off_names) and all(
            re.fullmatch(r"\(*(\w+)\.pos\.offset\(&?(\w+)\)\)*\.start", src(strip(n["args"][0])).replace(" ", "")) is not None and
            re.fullmatch(r"\(*(\w+)\.pos\.offset\(&?(\w+)\)\)*\.start", src(strip(n["args"][0])).replace(" ", "")).group(2) in off_names for n in lex_news)
        chk.ob("R-C18-5", "offset-applied", ok, "every nested token is shifted by the recorded offset" if ok else "nested tokens are no longer shifted by `lex.pos.offset(offset)`", loc)
        # the recorded offset is a caret that runs along with the characters of the literal: it starts behind the opening quote, and on
        # every path of the scanning loop that takes a character into the literal it advances exactly once - to the next line at a line
        # feed, by one column otherwise - before it is recorded
        from .common import fn_paths
        why_o = None
        rec = [n for n in walk(strarm["body"]) if n.get("k") == "mcall" and n["m"] == "push" and n["args"] and strip(n["args"][0]).get("k") == "tuple" and len(strip(n["args"][0])["elems"]) == 2]
        recname = src(strip(strip(rec[0]["args"][0])["elems"][0])) if len(rec) == 1 else None
        assigns = [n for n in walk(strarm["body"]) if n.get("k") == "assign" and src(strip(n["l"])) == recname]
        run = src(strip(assigns[0]["r"])) if len(assigns) == 1 and strip(assigns[0]["r"]).get("k") == "path" else None
        if recname is None or run is None:
            why_o = f"the offset stored with the captured text (`{recname}`) is not a copy of one running caret ({[src(a_['r'], -30)[:50] for a_ in assigns]})"
        else:
            inits = [n for n in walk(strarm["body"]) if n.get("k") == "local" and n.get("init") is not None and [p_["name"] for p_ in walk(n["pat"]) if p_.get("k") == "pident"] == [run]]
            if len(inits) != 1 or src(strip(inits[0]["init"]), -30).replace(" ", "") not in ("state.pos.offset_pos(1)",):
                why_o = f"the running caret `{run}` does not start behind the opening quote (`{src(inits[0]['init'], -30)[:50] if inits else '-'}`)"
            fors = [n for n in walk(strarm["body"]) if n.get("k") == "for" and any(m.get("k") == "assign" and src(strip(m["l"])) == recname for m in walk(n["body"]))]
            if len(fors) != 1:
                why_o = why_o or "no single scanning loop records the offset"
            else:
                cvar = src(fors[0]["pat"])
                n_take = 0
                for p_ in fn_paths(fors[0]["body"]):
                    evs = [strip(e_) for e_ in p_.events]
                    take = [i for i, e_ in enumerate(evs) if e_.get("k") == "mcall" and e_["m"] == "push" and src(strip(e_["recv"])) == "string"]
                    upd = [i for i, e_ in enumerate(evs) if e_.get("k") == "assign" and src(strip(e_["l"])) == run]
                    recd = [i for i, e_ in enumerate(evs) if e_.get("k") == "assign" and src(strip(e_["l"])) == recname]
                    if not take:
                        if upd:
                            why_o = why_o or f"`{run}` moves on a path that takes no character"
                        continue
                    n_take += 1
                    if len(upd) != 1:
                        why_o = why_o or f"`{run}` is updated {len(upd)} times on a path that takes a character into the literal"
                        continue
                    r_ = strip(evs[upd[0]]["r"])
                    shape = None
                    if r_.get("k") == "if" and r_.get("else") is not None:
                        shape = (src(r_["c"], -30).replace(" ", "").strip("()"), src(strip(r_["then"]), -30).replace(" ", ""), src(strip(r_["else"]), -30).replace(" ", ""))
                    elif r_.get("k") == "match" and src(strip(r_["e"])) == cvar and len(r_["arms"]) == 2 and src(r_["arms"][1]["pat"]) == "_":
                        shape = (f"{cvar}=={src(r_['arms'][0]['pat'])}", src(strip(r_["arms"][0]["body"]), -30).replace(" ", ""), src(strip(r_["arms"][1]["body"]), -30).replace(" ", ""))
                    if shape != (f"{cvar}=='\\n'", f"{run}.newline()", f"{run}.offset_pos(1)"):
                        why_o = why_o or f"`{run}` is advanced by `{src(r_, -30)[:70]}`, not to the next line at a line feed and by one column otherwise"
                    if recd and recd[0] < upd[0]:
                        why_o = why_o or "the offset is recorded before the caret has passed the opening brace"
                if n_take == 0:
                    why_o = why_o or "no path of the scanning loop takes a character"
        ok = why_o is None
        chk.ob("R-C18-5", "offset-recorded", ok, "the recorded offset is a caret that runs along with the characters of the literal (next line at a line feed, else one column)" if ok else
               f"the recorded interpolation offset is not the position behind the opening brace: {why_o}", loc)
        # the shift itself: CaretPos::offset maps a position inside a fragment that starts at `offset` to the position in the whole text -
        # lines add up (both 1-based), and only the first line of the fragment starts in the column of the offset
        try:
            from .smalleval import SmallEval, NoEval
            of_ = syn.one_fn("offset", impl_of="CaretPos")
            names_ = [i_["pat"]["name"] for i_ in of_["sig"]["inputs"] if i_.get("pat", {}).get("k") == "pident"]
            bad_o = None
            ctor = {"CaretPos::new": lambda l_, p_: {"line": l_, "pos": p_}}
            for l_ in (1, 2, 3):
                for p_ in (1, 2, 5):
                    for ol in (1, 4):
                        for op_ in (1, 3, 9):
                            ev_o = SmallEval(funcs=ctor)
                            env_o = {"self": {"line": l_, "pos": p_}, ([n_ for n_ in names_ if n_ != "self"] or ["offset"])[-1]: {"line": ol, "pos": op_}}
                            try:
                                v = ev_o.ev(of_["body"], env_o)
                            except NoEval:
                                v = None
                            if v is None or not isinstance(v, dict):
                                # struct literal: evaluate its two fields
                                lit = [n for n in walk(of_["body"]) if n.get("k") == "struct" and n["p"].split("::")[-1] in ("CaretPos", "Self")]
                                if len(lit) != 1:
                                    raise NoEval("CaretPos::offset does not build one CaretPos")
                                v = {fn_: ev_o.ev(fv, env_o) for fn_, fv in lit[0]["fields"]}
                            want = {"line": ol + l_ - 1, "pos": (op_ + p_ - 1) if l_ == 1 else p_}
                            if {k_: v.get(k_) for k_ in ("line", "pos")} != want:
                                bad_o = bad_o or f"({l_}, {p_}) in a fragment that starts at ({ol}, {op_}) is mapped to ({v.get('line')}, {v.get('pos')}), it is at ({want['line']}, {want['pos']})"
            chk.ob("R-C18-5", "offset-function", bad_o is None, "CaretPos::offset: lines add up; the column is shifted on the first line of the fragment only" if bad_o is None else
                   f"CaretPos::offset: {bad_o}", facts.loc_of(of_))
        except (NoEval, AnchorError) as ex:
            chk.ob("R-C18-5", "offset-function", False, f"CaretPos::offset could not be evaluated ({ex})", loc)
        # a lexical error inside the interpolated text is shifted like the tokens are: its position is relative to the captured text
        td_ = td[0] if td else None
        err_ok, err_why = False, "the re-lexing call was not found"
        if td_ is not None:
            pmap = {}
            for n in walk(strarm["body"]):
                for ch_ in (n.values() if isinstance(n, dict) else []):
                    for c_ in (ch_ if isinstance(ch_, list) else [ch_]):
                        if isinstance(c_, dict):
                            pmap[id(c_)] = n
            par = pmap.get(id(td_))
            while par is not None and par.get("k") in ("expr", "paren", "ref"):
                par = pmap.get(id(par))
            if par is not None and par.get("k") == "match" and strip(par["e"]) is td_:
                earms = [a_ for a_ in par["arms"] if src(a_["pat"]).startswith("Err")]
                err_why = "the Err arm hands the error on as it is: its position is relative to the interpolated text, not to the file"
                if len(earms) == 1:
                    calls = [n for n in walk(earms[0]["body"]) if n.get("k") == "mcall" and n["m"] == "offset" and n["args"] and src(strip(n["args"][0])) in off_names and ".pos" in src(n["recv"], -30)]
                    err_ok = len(calls) == 1
            elif par is not None and par.get("k") == "try":
                err_why = "`tokenize_direct(..)?` hands the error on as it is: its position is relative to the interpolated text, not to the file"
            elif par is not None and par.get("k") == "mcall" and par["m"] == "map_err" and par["args"]:
                calls = [n for n in walk(par["args"][0]) if n.get("k") == "mcall" and n["m"] == "offset" and n["args"] and src(strip(n["args"][0])) in off_names]
                err_ok = len(calls) == 1
                err_why = "map_err does not shift the error by the recorded offset"
            else:
                err_why = f"the result of the re-lexing call is used in an unmodelled way (`{par.get('k') if par else None}`)"
        chk.ob("R-C18-5", "error-offset-applied", err_ok, "a lexical error inside an interpolation is shifted by the recorded offset" if err_ok else
               f"errors of the nested lexer: {err_why}", loc)
        ok = any(n.get("k") == "mcall" and n["m"] == "push" and src(strip(n["recv"])) == "exprs" and
                 src(strip(n["args"][0])).replace(" ", "") == "(cur_offset,cur_expr.clone())" for n in nodes)
        chk.ob("R-C18-5", "offset-paired-with-text", ok, "each captured expression is stored with its own offset" if ok else "captured expressions are no longer stored with their offset", loc)
    except AnchorError as e:
        chk.anchor_fail("R-C18-5", e)
    chk.assume("column arithmetic counts bytes (`to_string().len()`), the caret advances per token width: for non-ASCII text inside strings/comments columns are byte columns (observation, not decided)")
    chk.notes.append(f"C18: {n_paths} fixed-spelling lexer paths enumerated; Display and keyword tables composed.")


def _show(s):
    return s.replace("\n", "\\n").replace("\r", "\\r")
