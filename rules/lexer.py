"""Model of the lexer (`parse::lex::tokenize::into_tokens`), re-derived from source on every run.

For each arm of `match c` that produces a fixed-spelling token, every path is enumerated with the characters it consumes:
    c                                   the character the arm matched
    it.next()                           consumes the character last peeked (known from the enclosing `Some('x')` pattern)
    next_and_create(it, state, T)       consumes the peeked character, then creates T
    create(state, T)                    creates T
A path is (consumed characters, token | Err). `?` stands for a character the path does not know (a wildcard arm).
"""
from .common import walk, src, strip, AnchorError, pat_alternatives, tail_expr


class Path:
    def __init__(self, consumed, token, how):
        self.consumed = consumed   # list of chars, '?' unknown
        self.token = token         # "Token::X" or "Err" or "complex"
        self.how = how

    def text(self):
        return "".join(self.consumed)


def _char_of_pat(p):
    """char literal of a pattern like 'x' / Some('x') / (_, Some('x'))"""
    p0 = p
    if p.get("k") == "ptstruct" and p["p"] == "Some" and len(p["elems"]) == 1:
        p = p["elems"][0]
    if p.get("k") == "pref":
        p = p["p"]
    if p.get("k") == "plit" and p["e"].get("t") == "char":
        return p["e"]["v"]
    return None


class LexerModel:
    def __init__(self, facts):
        syn = facts.syn
        self.fn = syn.one_fn("into_tokens", mod="parse::lex::tokenize")
        m = None
        for n in walk(self.fn["body"]):
            if n.get("k") == "match" and src(strip(n["e"])) == "c":
                m = n
                break
        if m is None:
            raise AnchorError("into_tokens is no longer a `match c`")
        self.arms = []   # (chars | 'range' | '_', arm node)
        self.paths = {}  # first char -> [Path]
        self.complex_arms = {}
        for a in m["arms"]:
            firsts = []
            for alt in pat_alternatives(a["pat"]):
                ch = _char_of_pat(alt)
                if ch is not None:
                    firsts.append(ch)
                elif alt.get("k") == "prange":
                    firsts.append(("range", src(alt)))
                elif alt.get("k") in ("pident", "pwild"):
                    firsts.append(("default", src(alt)))
                else:
                    firsts.append(("other", src(alt)))
            self.arms.append((firsts, a))
            for f in firsts:
                if isinstance(f, str):
                    ps = []
                    self._enum(a["body"], [f], None, ps)
                    self.paths[f] = ps
                else:
                    self.complex_arms[f[1]] = a
        # Display table and keyword table
        self.display = self._display_table(syn)
        self.keywords = self._keyword_table(syn)

    # ---- path enumeration ----
    def _enum(self, e, consumed, peeked, out):
        e = strip(e)
        k = e.get("k")
        if k == "block":
            # a block with statements before the tail: variable-length token (comment, number ..)
            if len(e["stmts"]) > 1 or (e["stmts"] and e["stmts"][0].get("k") != "expr"):
                out.append(Path(list(consumed), "complex", src(e)[:60]))
                return
            if not e["stmts"]:
                out.append(Path(list(consumed), "none", "{}"))
                return
            return self._enum(e["stmts"][0]["e"], consumed, peeked, out)
        if k == "call" and e["f"].get("k") == "path":
            f = e["f"]["p"]
            if f == "create" and len(e["args"]) == 2:
                out.append(Path(list(consumed), src(strip(e["args"][1])), "create"))
                return
            if f == "next_and_create" and len(e["args"]) == 3:
                out.append(Path(list(consumed) + [peeked if peeked is not None else "?"], src(strip(e["args"][2])), "next_and_create"))
                return
            if f == "Err":
                out.append(Path(list(consumed), "Err", "Err"))
                return
            if f == "Ok":
                out.append(Path(list(consumed), "none", src(e)[:40]))
                return
        if k == "match":
            scrut = src(strip(e["e"])).replace(" ", "")
            if scrut == "it.peek()":
                for a in e["arms"]:
                    alts = pat_alternatives(a["pat"])
                    for alt in alts:
                        ch = _char_of_pat(alt)
                        self._enum(a["body"], consumed, ch if ch is not None else None, out)
                return
            if scrut == "(it.next(),it.peek())":
                # consumes the previously peeked char, peeks a new one
                c2 = list(consumed) + [peeked if peeked is not None else "?"]
                for a in e["arms"]:
                    for alt in pat_alternatives(a["pat"]):
                        ch = None
                        if alt.get("k") == "ptuple" and len(alt["elems"]) == 2:
                            ch = _char_of_pat(alt["elems"][1])
                        self._enum(a["body"], c2, ch, out)
                return
            if scrut == "it.next()":
                for a in e["arms"]:
                    for alt in pat_alternatives(a["pat"]):
                        ch = _char_of_pat(alt)
                        self._enum(a["body"], list(consumed) + [ch if ch is not None else "?"], None, out)
                return
        out.append(Path(list(consumed), "complex", src(e)[:60]))

    # ---- tables ----
    def _display_table(self, syn):
        f = syn.one_fn("fmt", mod="parse::lex::token", impl_of="Token", trait="Display")
        m = None
        for n in walk(f["body"]):
            if n.get("k") == "match":
                m = n
                break
        if m is None:
            raise AnchorError("Display for Token is no longer a match")
        table = {}
        for a in m["arms"]:
            tmpl = None
            args = []
            for n in walk(a["body"]):
                if n.get("k") == "macro" and n.get("name", "").endswith("format_args") and "args" in n and n["args"] and n["args"][0].get("k") == "lit":
                    tmpl = n["args"][0]["v"]
                    args = [src(strip(x)) for x in n["args"][1:]]
            for alt in pat_alternatives(a["pat"]):
                if alt.get("k") in ("ppath", "ptstruct", "pstruct"):
                    binds = [p["name"] for p in walk(alt) if p.get("k") == "pident"]
                    table[alt["p"]] = {"template": tmpl, "args": args, "binds": binds}
        return table

    def _keyword_table(self, syn):
        """word -> token as as_op_or_id maps it.  The function is folded (rules/smalleval.py) over every string literal that occurs as a
        pattern in it or in the private helpers it calls, plus one word that is none of them - so the table may be written as one match, as a
        lookup helper returning an Option, as a constant table that is searched .."""
        from .smalleval import SmallEval, NoEval
        from .common import local_helpers
        f = syn.one_fn("as_op_or_id", mod="parse::lex::tokenize")
        fns = [f] + local_helpers(syn, f)
        words = set()
        for g in fns:
            for n in walk(g["body"]):
                if n.get("k") == "plit" and n["e"].get("t") == "str":
                    words.add(n["e"]["v"])
                if n.get("k") == "lit" and n.get("t") == "str":
                    words.add(n["v"])
        if len(words) < 20:
            raise AnchorError(f"as_op_or_id: only {len(words)} word literals found")
        local = {g["name"]: g for g in syn.fns if g["mod"] == f["mod"] and g.get("impl_of") is None and g.get("body")}
        ev = SmallEval(local_fns=local)
        ev.const_nodes = {k_: c_["e"] for k_, c_ in syn.consts.items() if c_.get("e", {}).get("k") != "lit"}

        def tok(v):
            if isinstance(v, str):
                return v
            if isinstance(v, tuple) and v and v[0] == "call":
                return v[1]
            if isinstance(v, tuple) and v and v[0] == "variant":
                return v[1] + "(" + ",".join("string" if isinstance(x, tuple) and x and x[0] == "text" else str(x) for x in (v[2] or [])) + ")"
            return str(v)
        ev.funcs["Token::Id"] = lambda x: ("variant", "Token::Id", [x])
        table = {}
        try:
            for w in sorted(words):
                r = ev.call(f, [("text", w)])
                t_ = tok(r)
                if not t_.startswith("Token::Id"):
                    table[w] = t_
            d = ev.call(f, [("text", "zzz_not_a_keyword")])
            self.keyword_default = "Token::Id(string)" if tok(d).startswith("Token::Id") and isinstance(d, tuple) and d[2] and d[2][0] == ("text", "zzz_not_a_keyword") else tok(d)
        except NoEval as ex:
            raise AnchorError(f"as_op_or_id left the analysable fragment ({ex})")
        return table

    def spelling(self, token):
        d = self.display.get(token)
        if d is None or d["template"] is None:
            return None
        t = d["template"]
        if d["args"]:
            return None
        return t.replace("{{", "{").replace("}}", "}")


def state_step_folds(syn):
    """State::space and State::newline folded (rules/smalleval.py) over a symbolic lexer state, once with and once without a token on
    the current line and for two indentation counts. -> ({(fn, token_this_line, line_indent): state after the call}, [uncovered branches]).
    Raises NoEval when a function leaves the modelled fragment."""
    import copy
    from .smalleval import SmallEval
    sp = syn.one_fn("space", impl_of="State")
    nl = syn.one_fn("newline", impl_of="State")
    meths = {f["name"]: f for f in syn.fns if f["mod"] == "common::position" and f.get("impl_of") and f.get("body") and not f.get("impl_trait") and
             f["sig"]["inputs"] and f["sig"]["inputs"][0].get("pat", {}).get("name") == "self"}
    local = {f["name"]: f for f in syn.fns if f["mod"] == sp["mod"] and f.get("body") and (f.get("impl_of") is None or
             ((f.get("impl_of") or "").strip() == "State" and not f.get("impl_trait") and f["sig"]["inputs"] and f["sig"]["inputs"][0].get("pat", {}).get("name") != "self"))}
    mk = {"CaretPos::new": lambda l_, p_: {"line": l_, "pos": p_}, "Lex::new": lambda a_, b_: ("lex", copy.deepcopy(a_), b_),
          "i32::from": lambda b: int(b), "usize::from": lambda b: int(b)}
    ev = SmallEval(funcs=mk, local_fns=local)
    ev.local_methods = dict(meths)
    out = {}
    for fn in (sp, nl):
        for flag in (False, True):
            for li in (1, 5):
                st = {"__struct__": "State", "pos": {"line": 3, "pos": 7}, "newlines": ("list", []), "token_this_line": flag, "line_indent": li, "cur_indent": 1}
                ev.call(fn, [st])
                out[(fn["name"], flag, li)] = st
    return out, ev.uncovered(only={"space", "newline"})
