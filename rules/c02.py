"""C02 - every emitted file is syntactically valid Python 3.

That every *literal* the lexer accepts is a Python literal is not decided (ND; it is not true: `007`, raw newlines in strings).
Decided is the part that lives in the shape of the printer and of the desugaring:

R-C02-1  (template instantiation against a grammar oracle) the printer's templates - re-extracted from `to_py` and its layout
         helpers on every run (rules/printer.py) - are instantiated on every combination of child shapes that matters for syntax:
         each optional part present/absent, each list empty/one/two long, each body a block / a single statement / a nested
         compound statement / an empty block, at nesting depths 0, 1 and 2. Every instance must be accepted by the Python grammar
         (CPython's own parser, `ast.parse`, is the oracle; nothing of mamba is executed - only the template model is evaluated).
         Instances that are rejected must fall under a reviewed *template precondition* (R-C02-3).
R-C02-2  (syntax) the layout helpers have the shape the model assumes: `indent(n)` = IND_SPACES*n spaces, `newline_delimited` puts
         each item on its own line at `indent(ind)`, `comma_delimited` joins with `, `; every body hole goes through
         `newline_if_body(child, ind)`; nothing else in `to_py` produces a newline inside a statement.
R-C02-3  (construction-site guards) each template precondition that Python's grammar imposes and the template does not establish
         itself is established where the node is built: non-empty `except` / `cases` / `import` lists, FunArg not both vararg and
         default, ENum exponent non-empty; bodies: every construction site of `Core::Block` in generate::convert yields a
         non-empty list (mirror of a parsed block - whose emptiness the printer now handles -, literal, guarded, or last-replaced).
R-C02-4  (classification) the desugaring wrappers only wrap expressions: every Core variant that `append_ret` / `append_assign`
         neither descends into nor skips is printed by a template that is a Python *expression* (oracle: `ast.parse(mode="eval")`).
R-C02-5  (syntax) delimiters agree between lexer and printer: the quote that ends a string in the lexer is the quote the Str/FStr
         templates print; the doc-string delimiter of the lexer is the one the DocStr template prints.
R-C02-6  (dominance, shared with R-C13-1/2) only a fully successful pipeline writes, with create+truncate (no stale tail of a longer
         older file is left behind the new text).
R-C02-7  (syntax) literals, as far as the shape of the code shows: the lexer's string loop ends on the closing quote or with an error;
         integer digit strings are printed without leading zeros; string text is printed on one line.
R-C02-8  (table) no hard keyword of Python is available as a Mamba name.
R-C01-2  (reused) nothing is silently turned into Core::Empty in statement position.
R-C10-*  (reused, without the grouping-only chain rows) an operand that Python's grammar does not allow bare in a hole is parenthesised.
"""
import ast as pyast
import itertools
import re
from collections import Counter
from .common import walk, src, strip, AnchorError, pat_alternatives, tail_expr, idents_in
from . import printer, chain

STATEMENT_LISTS = {("Match", "cases"): "case", ("TryExcept", "except"): "except", ("Block", "statements"): "stmt", ("FunDef", "arg"): "arg",
                   ("FunDefOp", "arg"): "arg", ("AnonFun", "args"): "lambda-arg", ("FunDef", "dec"): "dec"}
PRECONDITIONS = {

    # feature tag -> (what Python requires, where it is established)
    "TryExcept.except=[]": "a try needs at least one except clause",
    "Match.cases=[]": "a match needs at least one case",
    "Import.import=[]": "an import needs at least one name",
    "FunArg.vararg&default": "a *parameter cannot have a default",
    "Import.alias-longer": "`import a as x, y`: an alias list applies to the whole comma list only when it is not longer than the names",
}


class Unsupported(Exception):
    pass


def N(v, **f):
    d = {"v": v}
    d.update(f)
    return d


X = N("Id", lit="x")
Y = N("Id", lit="y")
PASS = N("Pass")


class Renderer:
    """evaluates the extracted template model on a small concrete Core tree"""

    def __init__(self, pm, facts):
        self.pm = pm
        self.ind_spaces = pm.consts.get("IND_SPACES")
        if self.ind_spaces is None:
            raise AnchorError("IND_SPACES constant not found")
        syn = facts.syn
        # `newline_if_body` is not modelled: it is folded from its source (rules/smalleval.py) with `to_py` handed back to this renderer
        f = syn.one_fn("newline_if_body", mod="generate::ast")
        self.nib_fn = f
        from .smalleval import SmallEval as _SE
        local_ = {x["name"]: x for x in syn.fns if x["mod"] == f["mod"] and x.get("impl_of") is None and x.get("body") and x["name"] != "to_py"}
        self._se = _SE(local_fns=local_, consts={"IND_SPACES": self.ind_spaces},
                       funcs={"to_py": lambda c_, i_: ("text", self.render(c_["__node__"] if isinstance(c_, dict) and "__node__" in c_ else self._unsupported("to_py on a part of the body"), i_))})

    @staticmethod
    def _unsupported(why):
        raise Unsupported(why)

    def _to_se(self, node):
        if isinstance(node, list):
            return ("list", [self._to_se(x) for x in node])
        if isinstance(node, dict) and "v" in node:
            out = {"__struct__": node["v"], "__node__": node}
            for k_, v_ in node.items():
                if k_ != "v":
                    out[k_] = self._to_se(v_)
            return out
        if isinstance(node, str):
            return ("text", node)
        return node

    # ---- helpers modelled from their definitions (shape-checked by R-C02-2) ----
    def indent(self, n):
        if n < 0:
            raise Unsupported("negative indentation")
        return " " * (self.ind_spaces * n)

    def newline_delimited(self, items, ind):
        return "".join(self.indent(ind) + self.render(i, ind) + "\n" for i in items)

    def comma_delimited(self, items, ind):
        s = "".join(self.render(i, ind) + ", " for i in items)
        if len(s) > 2:
            s = s[:len(s) - 2] + s[len(s) - 1:]
        return s.rstrip()

    def newline_if_body(self, child, ind):
        from .smalleval import NoEval as _NE
        try:
            r = self._se.call(self.nib_fn, [self._to_se(child), ind])
        except _NE as ex:
            raise Unsupported(f"newline_if_body: {ex}")
        if isinstance(r, tuple) and len(r) == 2 and r[0] == "text":
            return r[1]
        raise Unsupported("newline_if_body does not yield text")

    # ---- evaluation ----
    def _ind(self, expr, ind):
        e = (expr or "ind").replace(" ", "").strip("()")
        if e == "ind":
            return ind
        m = re.fullmatch(r"ind([+-])(\d+)", e)
        if m:
            return ind + int(m.group(2)) * (1 if m.group(1) == "+" else -1)
        raise Unsupported(f"indent expression `{expr}`")

    def _test(self, test, node, env, fields=None):
        """-> (bool, new bindings)"""
        t = test.replace(" ", "")
        while t.startswith("(") and t.endswith(")"):
            t = t[1:-1]
        neg = False
        if t.startswith("!"):
            neg, t = True, t[1:]
        m = re.fullmatch(r"(\w+)\.is_empty\(\)", t)
        if m:
            v = self._val(m.group(1), node, env, fields)
            r = len(v) == 0
            return (r != neg), {}
        m = re.fullmatch(r"letSome\((\w+)\)=&?(\w+)", t)
        if m:
            v = self._val(m.group(2), node, env, fields)
            return (v is not None), ({m.group(1): v} if v is not None else {})
        m = re.fullmatch(r"\*?(\w+)", t)
        if m:
            v = self._val(m.group(1), node, env, fields)
            if isinstance(v, bool):
                return (v != neg), {}
        raise Unsupported(f"test `{test}`")

    def _val(self, name, node, env, fields=None):
        if name in env:
            return env[name]
        if fields and name in fields:
            name = fields[name]
        if name in node:
            return node[name]
        raise Unsupported(f"value `{name}` of {node['v']}")

    def _child(self, info, node, env):
        s = (info.get("src") or "").replace(" ", "")
        base = re.split(r"[.(]", s.lstrip("&*"))[0]
        if base in env:
            return env[base]
        if info.get("field") and info["field"] in node:
            return node[info["field"]]
        if base in node:
            return node[base]
        raise Unsupported(f"child `{info}` of {node['v']}")

    def _pieces(self, pieces, node, ind, env):
        out = ""
        for p in pieces:
            if p[0] == "lit":
                out += p[1]
                continue
            kind, info = p[1], p[2]
            if kind in ("operand", "protect", "bare"):
                c = self._child(info, node, env)
                if c is None:
                    raise Unsupported(f"absent child printed: {info}")
                out += self.render(c, self._ind(info.get("ind"), ind))
            elif kind == "lexeme":
                v = node.get(info["field"])
                out += str(v)
            elif kind == "comma":
                out += self.comma_delimited(self._child(info, node, env), self._ind(info.get("ind"), ind))
            elif kind == "nl":
                items = self._child(info, node, env)
                out += self.newline_delimited(items, self._ind(info.get("ind"), ind))
            elif kind == "body":
                out += self.newline_if_body(self._child(info, node, env), self._ind(info.get("ind"), ind))
            elif kind == "indent":
                out += self.indent(self._ind(info.get("ind"), ind))
            elif kind == "cond":
                r, binds = self._test(info["test"], node, env)
                e2 = dict(env)
                e2.update(binds)
                out += self._pieces(info["then"] if r else info["else"], node, ind, e2)
            elif kind == "join":
                inner = info.get("inner")
                if inner is None:
                    raise Unsupported("join without inner template")
                # which list is iterated: the field the inner holes name
                flds = [h[2].get("field") for h in inner if h[0] == "hole" and h[2].get("field")]
                if not flds:
                    raise Unsupported("join over unknown list")
                items = node[flds[0]]
                parts = []
                for it in items:
                    e2 = dict(env)
                    n2 = dict(node)
                    if isinstance(it, tuple):
                        names = [h[2].get("src") for h in inner if h[0] == "hole"]
                        for nm, val in zip(names, it):
                            e2[nm] = val
                    else:
                        n2[flds[0]] = it
                        for h in inner:
                            if h[0] == "hole" and h[2].get("src"):
                                e2[h[2]["src"]] = it
                    parts.append(self._pieces(inner, n2, ind, e2))
                out += info["sep"].join(parts)
            elif kind == "delegate":
                d = dict(node)
                d["v"] = info["variant"]
                d.setdefault("dec", [])
                d["id"] = str(node.get("op", "__add__"))
                out += self.render(d, ind)
            else:
                raise Unsupported(f"piece kind {kind}: {info.get('src', '')[:60]}")
        return out

    def render(self, node, ind):
        if isinstance(node, str):
            return node
        arms = self.pm.arms_of(node["v"])
        for a in arms:
            if a.guard is not None:
                if not self._test(src(a.guard), node, {}, a.fields)[0]:
                    continue
            return self._pieces(a.pieces, node, ind, {})
        raise Unsupported(f"no arm for {node['v']}")


# ------------------------------------------------------------------------------------------------------------------------
def bodies():
    """body shapes: (tag, node)"""
    inner_if = N("If", cond=X, then=N("Block", statements=[PASS]))
    return [
        ("block2", N("Block", statements=[PASS, X])),
        ("single", PASS),
        ("nested", N("Block", statements=[inner_if, X])),
        ("single-compound", N("If", cond=X, then=PASS)),
        ("empty", N("Block", statements=[])),
    ]


def field_options(variant, fname, fty, body_fields):
    """[(tag, value)] for one field"""
    t = fty.replace(" ", "")
    key = (variant, fname)
    if fname in body_fields:
        return [(f"{fname}={tag}", b) for tag, b in bodies()]
    if t == "Box<Core>":
        if key in (("Comprehension", "col"), ("DictComprehension", "col")):
            return [("", N("In", left=X, right=Y))]   # builders always build `item in collection` here (R-C10-2 reviews the sites)
        return [("", X)]
    if t == "Option<Box<Core>>":
        some = N("VarDef", var=X, ty=None, expr=None) if key == ("TryExcept", "setup") else X
        return [(f"{fname}=None", None), (f"{fname}=Some", some)]
    if t == "Vec<Core>":
        kind = STATEMENT_LISTS.get(key, "expr")
        if kind == "case":
            c = N("Case", expr=X, body=N("Block", statements=[PASS]))
            one, two = [c], [c, N("Case", expr=N("UnderScore"), body=PASS)]
        elif kind == "except":
            e1 = N("ExceptId", id=X, **{"class": Y}, body=N("Block", statements=[PASS]))
            e2 = N("Except", **{"class": Y}, body=PASS)
            one, two = [e1], [e1, e2]
        elif kind == "stmt":
            one, two = [PASS], [PASS, X]
        elif kind in ("arg", "lambda-arg"):
            a1 = N("FunArg", vararg=False, var=X, ty=None, default=None)
            a2 = N("FunArg", vararg=False, var=Y, ty=(Y if kind == "arg" else None), default=X)
            one, two = [a1], [a1, a2]
        else:
            one, two = [X], [X, Y]
        return [(f"{fname}=[]", []), (f"{fname}=[1]", one), (f"{fname}=[2]", two)]
    if t == "Vec<(Core,Core)>":
        return [(f"{fname}=[]", []), (f"{fname}=[1]", [(X, Y)]), (f"{fname}=[2]", [(X, Y), (Y, X)])]
    if t == "Vec<String>":
        return [(f"{fname}=[]", []), (f"{fname}=[1]", ["d"])]
    if t == "String":
        return [("", {"Int": "1", "Float": "1.5", "ENum": "1"}.get(variant, "n") if fname not in ("exp",) else "2")]
    if t == "bool":
        return [(f"{fname}=false", False), (f"{fname}=true", True)]
    if t == "CoreOp":
        return [("", "=")]
    if t == "CoreFunOp":
        return [("", "__add__")]
    raise Unsupported(f"field type {fty} of {variant}.{fname}")


def instances(pm, variant):
    v = pm.core[variant]
    arms = pm.arms_of(variant)
    body_fields = set()
    for a in arms:
        for h in a.holes():
            if h[1] == "body" and h[2].get("field"):
                body_fields.add(h[2]["field"])
    if variant == "FunDefOp":
        body_fields.add("body")
    opts = []
    for fname, fty in v.get("fields", []):
        opts.append([(fname, tag, val) for tag, val in field_options(variant, fname, fty, body_fields)])
    for combo in itertools.product(*opts):
        node = {"v": variant}
        tags = []
        for fname, tag, val in combo:
            node[fname] = val
            if tag:
                tags.append(f"{variant}.{tag}")
        yield node, tags


EXPRESSION_CONTEXT = {
    # variants that only occur inside another construct: how to embed them so that the result is a module
    "FunArg": lambda s: f"def f({s}): pass", "Case": None, "Except": None, "ExceptId": None, "KeyValue": lambda s: "{" + s + "}",
    "TupleLiteral": lambda s: f"x = {s}" if s else None, "Comprehension": lambda s: f"[{s}]", "ExpressionType": lambda s: f"def f({s}): pass",
    "Type": lambda s: f"x: {s} = 1", "Empty": lambda s: "pass", "Block": lambda s: s if s.strip() else "pass",
}


def run(chk, facts):
    chk.rule("R-C02-1", "every printer template, instantiated on every syntactically relevant child shape at depths 0-2, is accepted by the Python grammar or falls under a reviewed precondition")
    chk.rule("R-C02-2", "layout helpers have the modelled shape; bodies go through newline_if_body")
    chk.rule("R-C02-3", "template preconditions are established at every construction site")
    chk.rule("R-C02-4", "append_ret / append_assign wrap only variants whose template is a Python expression")
    chk.rule("R-C02-5", "string and doc-string delimiters agree between lexer and printer")
    chk.rule("R-C02-6", "only a fully successful pipeline writes, with create+truncate")
    try:
        pm = printer.PrinterModel(facts)
        rd = Renderer(pm, facts)
    except AnchorError as e:
        chk.anchor_fail("R-C02-1", e)
        return
    _helpers(chk, facts, pm, rd)
    failing = _instantiate(chk, facts, pm, rd)
    _preconditions(chk, facts, pm, failing)
    _wrappers(chk, facts, pm, rd)
    _delimiters(chk, facts, pm)
    _write(chk, facts)
    _literals(chk, facts)
    _keywords(chk, facts)
    from .c01 import _drops
    _drops(chk, facts)
    # operands that need parentheses to stay one operand (a conditional expression as a comprehension condition, a lambda as an
    # operand ..) are syntax, not only grouping: reuse the hole/precedence triples of R-C10-1. The chain-level rows of that rule
    # concern grouping only (the unparenthesised text is still valid Python) and are left to C10/C01.
    from . import c10
    n0 = len(chk.obligations)
    c10.run(chk, facts)
    chk.obligations = chk.obligations[:n0] + [o for o in chk.obligations[n0:] if not o["key"].startswith("R-C10-1|chain-level")]
    chk.assume("that every literal lexeme the lexer accepts is a Python literal is decided only for the three shapes of R-C02-7; escape sequences inside strings, "
               "and quotes inside interpolations are not decided")
    chk.notes.append("C02: template model evaluated on small trees (CPython's parser is the grammar oracle; mamba is not run); construction-site guards; wrapper classification.")


# ------------------------------------------------------------------------------------------------------------------------
def _parse_ok(text, mode="exec"):
    try:
        pyast.parse(text, mode=mode)
        return True, None
    except SyntaxError as e:
        return False, f"{e.msg} (line {e.lineno})"
    except Exception as e:   # ValueError on null bytes etc.
        return False, str(e)


def _wrap_depth(node, depth):
    """put a statement node at nesting depth `depth` (inside `if x:` blocks)"""
    for _ in range(depth):
        node = N("If", cond=X, then=N("Block", statements=[node, PASS]))
    return node


def _instantiate(chk, facts, pm, rd):
    loc = facts.loc_of(pm.fn)
    n_inst = 0
    n_var = 0
    failing = Counter()
    unsupported = []
    for variant in pm.core:
        if variant in ("Case", "Except", "ExceptId"):
            continue   # instantiated inside Match / TryExcept
        n_var += 1
        bad = None
        n_here = 0
        try:
            for node, tags in instances(pm, variant):
                for depth in (0, 1, 2):
                    ctx = EXPRESSION_CONTEXT.get(variant, False)
                    if ctx is False or depth > 0 and variant in ("Block", "Empty"):
                        if variant in ("Block", "Empty") and depth > 0:
                            continue
                        top = N("Block", statements=[_wrap_depth(node, depth)])
                        text = rd.render(top, 0)
                    else:
                        if depth > 0:
                            continue
                        s = rd.render(node, 0)
                        text = ctx(s) if ctx else None
                        if text is None:
                            continue
                    n_inst += 1
                    n_here += 1
                    ok, why = _parse_ok(text)
                    if ok:
                        continue
                    pre = [t for t in tags if t in PRECONDITIONS]
                    if variant == "FunArg" and node["vararg"] and node["default"] is not None:
                        pre.append("FunArg.vararg&default")
                    if variant == "Import" and len(node["alias"]) > len(node["import"]) and node["import"]:
                        pre.append("Import.alias-longer")
                    if pre:
                        for t in pre:
                            failing[t] += 1
                    elif bad is None:
                        bad = (tags, depth, text, why)
        except Unsupported as e:
            unsupported.append((variant, str(e)))
            chk.ob("R-C02-1", f"template:{variant}", False, f"Core::{variant}: the template left the analysable fragment ({e}); no verdict on its syntax", loc)
            continue
        if bad:
            tags, depth, text, why = bad
            chk.ob("R-C02-1", f"template:{variant}", False,
                   f"Core::{variant} with {tags or 'any children'} at depth {depth} prints text the Python grammar rejects ({why}): {text[:160]!r}", loc, detail={"text": text})
        else:
            chk.ob("R-C02-1", f"template:{variant}", True, f"Core::{variant}: {n_here} instance(s) parse")
    chk.counts["R-C02-1:instances"] += n_inst
    chk.floor("R-C02-1", n_var, 75, "Core variants instantiated")
    chk.floor("R-C02-1", n_inst, 700, "template instances parsed")
    chk.sample({"rule": "R-C02-1", "instances": n_inst, "variants": n_var, "precondition_failures": dict(failing)})
    return failing


# ------------------------------------------------------------------------------------------------------------------------
def _helpers(chk, facts, pm, rd):
    syn = facts.syn
    try:
        f = syn.one_fn("indent", mod="generate::ast")
        s = src(f["body"]).replace(" ", "")
        ok = s in ('{"".repeat((IND_SPACES*amount))}', '{"".repeat(IND_SPACES*amount)}') or re.fullmatch(r'\{"\s?"\.repeat\(\(?IND_SPACES\*amount\)?\)\}', s) is not None
        lit = [n for n in walk(f["body"]) if n.get("k") == "lit" and n.get("t") == "str"]
        ok = ok and len(lit) == 1 and lit[0]["v"] == " "
        chk.ob("R-C02-2", "indent", ok, f"indent(n) = n * {rd.ind_spaces} spaces" if ok else "indent() is no longer `\" \".repeat(IND_SPACES * amount)`", facts.loc_of(f))
        from .common import inline_lets
        f = syn.one_fn("newline_delimited", mod="generate::ast")
        fa = [n for n in walk(inline_lets(f["body"])) if n.get("k") == "macro" and n.get("name", "").endswith("format_args") and n.get("args")]   # closure or for loop alike
        from .common import format_sequence
        ok = len(fa) == 1 and format_sequence(fa[0]) == ["indent(ind)", "to_py(item,ind)", "\n"]
        chk.ob("R-C02-2", "newline_delimited", ok, "newline_delimited: every item on its own line at indent(ind), printed at ind" if ok else
               "newline_delimited no longer prints `indent(ind) + to_py(item, ind) + newline` per item: statements of a block are misaligned", facts.loc_of(f))
        f = syn.one_fn("comma_delimited", mod="generate::ast")
        fa = [n for n in walk(inline_lets(f["body"])) if n.get("k") == "macro" and n.get("name", "").endswith("format_args") and n.get("args")]
        s = src(f["body"]).replace(" ", "")
        ok = len(fa) == 1 and format_sequence(fa[0]) == ["to_py(item,ind)", ", "] and ("if(s.len()>2){s.remove((s.len()-2));}" in s or "if(2<s.len()){s.remove((s.len()-2));}" in s) and s.endswith("String::from(s.trim_end())}")
        chk.ob("R-C02-2", "comma_delimited", ok, "comma_delimited: items joined by `, `, trailing comma removed" if ok else "comma_delimited changed shape", facts.loc_of(f))
        # newline_if_body, folded over an empty block, a block and a single statement at two depths with `to_py` as a marker: a newline, then
        # the body one level deeper (a block prints its own indentation; an empty body is `pass`)
        from .smalleval import SmallEval as _SE2, NoEval as _NE2
        local2 = {x["name"]: x for x in syn.fns if x["mod"] == rd.nib_fn["mod"] and x.get("impl_of") is None and x.get("body") and x["name"] != "to_py"}
        ev2 = _SE2(local_fns=local2, consts={"IND_SPACES": rd.ind_spaces}, funcs={"to_py": lambda c_, i_: ("text", f"<{c_.get('__struct__') if isinstance(c_, dict) else '?'}@{i_}>")})
        ok = True
        try:
            for ind_ in (0, 2):
                pad = " " * (rd.ind_spaces * (ind_ + 1))
                want_ = {"empty": f"\n{pad}pass", "block": f"\n<Block@{ind_ + 1}>", "leaf": f"\n{pad}<Id@{ind_ + 1}>"}
                got_ = {"empty": ev2.call(rd.nib_fn, [{"__struct__": "Block", "statements": ("list", [])}, ind_]),
                        "block": ev2.call(rd.nib_fn, [{"__struct__": "Block", "statements": ("list", [("sym", "s")])}, ind_]),
                        "leaf": ev2.call(rd.nib_fn, [{"__struct__": "Id", "lit": "x"}, ind_])}
                ok = ok and all(got_[k_] == ("text", want_[k_]) for k_ in want_)
            ok = ok and not ev2.uncovered(only={"newline_if_body"})
        except _NE2:
            ok = False
        chk.ob("R-C02-2", "newline_if_body", ok, "newline_if_body: a newline, then the body one level deeper" if ok else
               "newline_if_body no longer starts a new line and prints the body at ind + 1", facts.loc_of(rd.nib_fn))
        # every field that holds a statement body is printed through a body hole
        n = 0
        for a in pm.arms:
            for v in a.variants:
                if v in ("FunDef", "ClassDef", "If", "IfElse", "While", "For", "With", "WithAs", "Case", "Except", "ExceptId", "TryExcept"):
                    body_fields = {"FunDef": ["body"], "ClassDef": ["body"], "If": ["then"], "IfElse": ["then", "el"], "While": ["body"], "For": ["body"],
                                   "With": ["expr"], "WithAs": ["expr"], "Case": ["body"], "Except": ["body"], "ExceptId": ["body"], "TryExcept": ["attempt"]}[v]
                    kinds = {h[2].get("field"): h[1] for h in a.holes() if h[2].get("field")}
                    for bf in body_fields:
                        n += 1
                        okb = kinds.get(bf) == "body"
                        chk.ob("R-C02-2", f"body-hole:{v}.{bf}", okb, f"{v}.{bf} is printed by newline_if_body" if okb else
                               f"{v}.{bf} is printed by `{kinds.get(bf)}` instead of newline_if_body: a block body would start on the header line", facts.loc_of(pm.fn))
        chk.floor("R-C02-2", n, 13, "statement body fields")
    except AnchorError as e:
        chk.anchor_fail("R-C02-2", e)


# ------------------------------------------------------------------------------------------------------------------------
def _struct_sites(syn, variant, mods=("generate::convert",)):
    """(fn, struct node, ancestors) for every construction `Core::<variant> { .. }` (expressions, not patterns)"""
    out = []
    for f in syn.fns:
        if not any(f["mod"].startswith(m) for m in mods) or "test" in f["mod"] or not f.get("body"):
            continue
        stack = [(f["body"], [])]
        while stack:
            n, anc = stack.pop()
            if isinstance(n, dict):
                if n.get("k") == "struct" and n["p"] == "Core::" + variant:
                    out.append((f, n, anc))
                for val in n.values():
                    if isinstance(val, (dict, list)):
                        stack.append((val, anc + [n]))
            elif isinstance(n, list):
                for val in n:
                    if isinstance(val, (dict, list)):
                        stack.append((val, anc))
    return out


def _vec_literal_len(e):
    """number of elements of a `vec![..]` literal (macro, or its expansion), else None"""
    e = strip(e)
    if e.get("k") == "macro" and e.get("name") == "vec":
        return len(e.get("args") or [])
    if e.get("k") == "call" and e["f"].get("k") == "path":
        p = e["f"]["p"]
        if p.endswith("Vec::new") and not e["args"]:
            return 0
        if p.endswith("box_assume_init_into_vec_unsafe") or p.endswith("into_vec"):
            arrs = [n for n in walk(e) if n.get("k") == "array"]
            if arrs:
                return len(arrs[0]["elems"])
    return None


def _nonempty_list_expr(e, f, anc):
    """why the list expression `e` (a field initialiser) cannot be empty, else None"""
    e = strip(e)
    n_lit = _vec_literal_len(e)
    if n_lit is not None:
        return "literal" if n_lit > 0 else None
    s = src(e).replace(" ", "")
    if e.get("k") == "try":
        e = strip(e["e"])
    if e.get("k") == "call" and src(e["f"]).split("::")[-1] == "convert_vec":
        return "mirror:" + src(strip(e["args"][0]))
    if e.get("k") == "path":
        name = e["p"]
        # (a) enclosing `if !name.is_empty()`
        for a in anc:
            if a.get("k") == "if" and src(strip(a["c"])).replace(" ", "") in (f"!{name}.is_empty()", f"(!{name}.is_empty())"):
                return "guarded:if !is_empty"
        # (a') the same, decided on the enumerated paths: on every path that builds the block the list is known to be non-empty
        #      (covers `if name.is_empty() { return .. }` before the construction)
        try:
            from .common import fn_paths
            found, all_guarded = False, True
            for p in fn_paths(f["body"]):
                roots = ([p.result] if p.result is not None else []) + list(p.events)
                hit = any(n.get("k") == "struct" and n["p"] == "Core::Block" and src(strip(dict(n["fields"]).get("statements", {}))) == name
                          for r in roots for n in walk(r))
                if hit:
                    found = True
                    if p.holds(f"{name}.is_empty()") is not False:
                        all_guarded = False
            if found and all_guarded:
                return "guarded:non-empty on every path"
        except AnchorError:
            pass
        # (b) local defined as `if x.is_empty() { vec![..] } else { x }`
        for n in walk(f["body"]):
            if n.get("k") == "local" and src(n["pat"]) == name and n.get("init") is not None:
                i = strip(n["init"])
                if i.get("k") == "if" and src(strip(i["c"])).replace(" ", "").endswith(".is_empty()"):
                    t = strip(tail_expr(i["then"]) or {})
                    if (_vec_literal_len(t) or 0) > 0:
                        return "guarded:empty->default"
        # (c) the last element of a non-empty input was replaced: inside `Some(last)` of `<name>.last()`
        for a in anc:
            if a.get("k") == "match" and src(strip(a["e"])).replace(" ", "").endswith(f"{name}.last()") or \
                    (a.get("k") == "match" and "statements.last()" in src(strip(a["e"])).replace(" ", "")) or \
                    (a.get("k") == "if" and isinstance(a.get("c"), dict) and a["c"].get("k") == "let" and src(a["c"]["pat"]).replace(" ", "").startswith("Some(") and
                     "statements.last()" in src(strip(a["c"]["e"])).replace(" ", "") and any(x is e for x in walk(a["then"]))):
                return "replace-last"
        # (e) a private helper that builds the block from (a copy of) its parameter: non-empty when it is at every call site - the call sits in
        #     the `Some(..)` arm of `<argument>.last()` (the helper replaces the last statement of a non-empty block)
        params = [i_.get("pat", {}).get("name") for i_ in f["sig"]["inputs"]]
        pname = name if name in params else None
        if pname is None:
            for n in walk(f["body"]):
                if n.get("k") == "local" and n.get("init") is not None and name in [p_["name"] for p_ in walk(n["pat"]) if p_.get("k") == "pident"]:
                    for m in walk(n["init"]):
                        if m.get("k") == "path" and m["p"] in params and m["p"] != name or (m.get("k") == "path" and m["p"] == name and name in params):
                            pname = m["p"]
        if pname is not None and f.get("vis", "") == "" and f.get("impl_of") is None and _SYN is not None:
            from .quant import _ancestors
            idx = params.index(pname)
            sites_ok, n_sites = True, 0
            for g in _SYN.fns:
                if not g.get("body") or g["mod"] != f["mod"]:
                    continue
                anc_g = None
                for c_ in walk(g["body"]):
                    if c_.get("k") == "call" and c_["f"].get("k") == "path" and c_["f"]["p"] == f["name"] and len(c_["args"]) == len(params):
                        n_sites += 1
                        if anc_g is None:
                            anc_g = _ancestors(g["body"])
                        arg = src(strip(c_["args"][idx])).replace(" ", "")
                        if not any((a_.get("k") == "match" and src(strip(a_["e"]), -30).replace(" ", "").endswith(f"{arg}.last()")) or
                                   (a_.get("k") == "if" and isinstance(a_.get("c"), dict) and a_["c"].get("k") == "let" and
                                    src(strip(a_["c"]["e"]), -30).replace(" ", "").endswith(f"{arg}.last()") and any(x is c_ for x in walk(a_["then"])))
                                   for a_ in anc_g.get(id(c_), [])):
                            sites_ok = False
            if n_sites and sites_ok:
                return "replace-last (at every call site of the helper)"
        # (d) a loop that pushed at least ... not recognised
    return None


_SYN = None


def _preconditions(chk, facts, pm, failing):
    global _SYN
    syn = facts.syn
    _SYN = syn
    # the set of preconditions the templates really have (measured by R-C02-1) must be the reviewed set
    for t in sorted(set(failing) | set(PRECONDITIONS)):
        if t not in failing:
            chk.ob("R-C02-3", f"precondition:{t}", True, f"{t}: the template no longer depends on it")
    # ---- bodies: Core::Block construction sites ----
    try:
        sites = _struct_sites(syn, "Block")
        n = 0
        for f, st, anc in sites:
            fields = dict(st["fields"])
            e = fields.get("statements")
            why = _nonempty_list_expr(e, f, anc) if e is not None else None
            n += 1
            key = f"block-site:{f['name']}:{why.split(':')[0] if why else 'unguarded'}"
            if why and why.startswith("mirror"):
                chk.ob("R-C02-3", key, True, f"{f['name']}: Block mirrors a parsed block ({why}); an empty one is printed as `pass` by newline_if_body (R-C02-1 body=empty)")
            elif why:
                chk.ob("R-C02-3", key, True, f"{f['name']}: Block statements cannot be empty ({why})")
            else:
                chk.ob("R-C02-3", key, False, f"{f['name']} builds a Core::Block from `{src(e)[:60]}` without establishing that it is non-empty", facts.loc_of(f))
        chk.floor("R-C02-3", n, 4, "Core::Block construction sites")
    except AnchorError as e:
        chk.anchor_fail("R-C02-3", e)
    # ---- TryExcept.except / Match.cases / Import.import non-empty; FunArg; ENum ----
    _list_precondition(chk, facts, "TryExcept", "except", "TryExcept.except=[]", failing)
    _list_precondition(chk, facts, "Match", "cases", "Match.cases=[]", failing)
    _list_precondition(chk, facts, "Import", "import", "Import.import=[]", failing)
    # FunArg: vararg and default
    try:
        sites = _struct_sites(syn, "FunArg")
        for f, st, anc in sites:
            fields = dict(st["fields"])
            va = src(strip(fields.get("vararg", {}))).replace(" ", "")
            de = src(strip(fields.get("default", {}))).replace(" ", "")
            safe = va == "false" or de == "None"
            # a rejecting rule in the checker or parser?
            key = f"funarg-site:{f['name']}"
            if safe:
                chk.ob("R-C02-3", key, True, f"{f['name']}: FunArg is built with vararg = {va}, default = {de}")
            else:
                guard = _vararg_default_rejected(facts)
                chk.ob("R-C02-3", key + ":vararg&default", guard, f"{f['name']}: vararg and default are copied from the source; the combination is rejected earlier" if guard else
                       f"{f['name']} copies `vararg` and `default` unguarded into Core::FunArg and no earlier stage rejects the combination: "
                       "`def f(vararg x: Int := 1)` is printed as `def f(*x = 1)`, which Python rejects", facts.loc_of(f))
    except AnchorError as e:
        chk.anchor_fail("R-C02-3", e)
    # ENum exponent
    try:
        t2c, fn = chain.nodety_to_core(facts)
        rows = [r for r in t2c if r["src"] == "ENum"]
        ok = False
        if len(rows) == 1 and rows[0]["dst"] == "ENum":
            st = chain._struct_of(rows[0]["arm"]["body"])
            e = strip(dict(st["fields"])["exp"])
            ok = e.get("k") == "if" and src(strip(e["c"])).replace(" ", "") == "exp.is_empty()" and '"0"' in src(e["then"])
        chk.ob("R-C02-3", "enum-exponent", ok, "ENum: an empty exponent is replaced by 0" if ok else "convert_node no longer replaces an empty E-number exponent: `(1 * 10 ** )` is printed", facts.loc_of(fn))
    except AnchorError as e:
        chk.anchor_fail("R-C02-3", e)


def _vararg_default_rejected(facts):
    """is `vararg` together with a default rejected by the parser or the checker?"""
    syn = facts.syn
    for f in syn.fns:
        if not (f["mod"].startswith("parse") or f["mod"].startswith("check")) or not f.get("body"):
            continue
        for n in walk(f["body"]):
            if n.get("k") == "if":
                c = src(strip(n["c"])).replace(" ", "")
                if "vararg" in c and ("default" in c) and "Err(" in src(n["then"]):
                    return True
    return False


def _list_precondition(chk, facts, variant, field, tag, failing):
    syn = facts.syn
    if tag not in failing:
        return
    try:
        sites = _struct_sites(syn, variant, mods=("generate::convert", "generate::convert::state"))
        n = 0
        for f, st, anc in sites:
            fields = dict(st["fields"])
            e = fields.get(field)
            if e is None:
                continue
            n += 1
            why = _nonempty_list_expr(e, f, anc)
            key = f"{variant}.{field}-site:{f['name']}"
            if why and not why.startswith("mirror"):
                chk.ob("R-C02-3", key, True, f"{f['name']}: {variant}.{field} cannot be empty ({why})")
                continue
            # a mirror of a source list: the parser must require one element
            ok, how = _parser_requires_one(facts, variant, field)
            chk.ob("R-C02-3", key, ok, f"{f['name']}: {variant}.{field} mirrors the source list, which the parser requires to be non-empty ({how})" if ok else
                   f"{f['name']} builds Core::{variant} with `{field}: {src(e)[:50]}`; nothing establishes that the list is non-empty ({PRECONDITIONS[tag]})", facts.loc_of(f))
        chk.floor("R-C02-3", n, 1, f"Core::{variant} construction sites")
    except AnchorError as e:
        chk.anchor_fail("R-C02-3", e)


def _parser_requires_one(facts, variant, field):
    syn = facts.syn
    if variant == "Import":
        f = syn.one_fn("parse_import", mod="parse::statement")
        s = src(f["body"]).replace(" ", "")
        # the names after `import` are parsed by parse_id at least once: `import` followed by nothing is a parse error
        ok = "it.eat(&Token::Import" in s and ("it.parse(&parse_id" in s or "parse_id" in s)
        return ok, "parse_import parses an identifier after `import`"
    if variant == "Match":
        f = syn.one_fn("parse_match_cases", mod="parse::control_flow_expr")
        s = src(f["body"]).replace(" ", "")
        ok = re.search(r"ifcases\.is_empty\(\)\{.*?returnErr\(", s) is not None
        return ok, "parse_match_cases rejects an empty list of cases"
    if variant == "TryExcept":
        f = syn.one_fn("parse_handle", mod="parse::expr_or_stmt") if syn.find_fn("parse_handle", mod="parse::expr_or_stmt") else None
        if f is None:
            return False, "parse_handle not found"
        s = src(f["body"]).replace(" ", "")
        ok = "parse_match_cases" in s and _parser_requires_one(facts, "Match", "cases")[0]
        return ok, "handle arms are parsed by parse_match_cases, which rejects an empty list"
    return False, "no rule"


# ------------------------------------------------------------------------------------------------------------------------
def _wrappers(chk, facts, pm, rd):
    syn = facts.syn
    try:
        from .c01 import walker_leaf_table
        loc = None
        # which variants each walker wraps (in `return ..` / `x = ..`) is read off a fold of the walkers over one node of every variant
        leaf_t = walker_leaf_table(syn)
        for name, kind_ in (("append_ret", "ret"), ("append_assign", "assign")):
            w = syn.one_fn(name, mod="generate::convert")
            loc = facts.loc_of(w)
            n = 0
            for v in pm.core:
                how = leaf_t.get(v, {}).get(kind_, "unknown variant")
                if how in ("skip", "recurse"):
                    continue
                if how != "wrap":
                    chk.ob("R-C02-4", f"{name}:{v}", False, f"{name} on Core::{v}: {how} - neither left alone, descended nor wrapped", loc)
                    continue
                # what the wrapper would wrap: is it an expression?
                n += 1
                try:
                    insts = list(instances(pm, v))
                    node = insts[len(insts) // 2][0] if insts else None
                    # prefer an instance with all optional parts present and non-empty lists
                    best = None
                    for nd, tags in insts:
                        if not any(t.endswith("=[]") or t.endswith("=None") or t.endswith("=empty") for t in tags):
                            best = nd
                            break
                    node = best or node
                    text = rd.render(node, 0)
                except Unsupported as e:
                    chk.ob("R-C02-4", f"{name}:{v}", False, f"{v}: template left the analysable fragment ({e})", loc)
                    continue
                is_expr = _parse_ok(text.strip() or "?", mode="eval")[0]
                unreachable = WRAP_UNREACHABLE.get(v)
                if is_expr:
                    chk.ob("R-C02-4", f"{name}:{v}", True, f"{name} wraps {v}: `{text[:40]}` is an expression")
                elif unreachable:
                    chk.ob("R-C02-4", f"{name}:{v}", True, f"{name} would wrap {v} (not an expression) - reviewed: {unreachable}")
                else:
                    kw = "return" if name == "append_ret" else "x ="
                    chk.ob("R-C02-4", f"{name}:{v}", False,
                           f"{name} wraps Core::{v}, whose template is a statement, not an expression: a function body (or `def x := ..` block) ending in it is printed as "
                           f"`{kw} {text.splitlines()[0][:40]}`, which Python rejects", loc)
            chk.floor("R-C02-4", n, 40, f"variants {name} wraps")
    except AnchorError as e:
        chk.anchor_fail("R-C02-4", e)


WRAP_UNREACHABLE = {
    "Block": None,
    "Case": "only inside Match, which the walkers descend through",
    "Except": "only inside TryExcept", "ExceptId": "only inside TryExcept",
    "FunArg": "only inside parameter lists", "KeyValue": "only inside dictionaries / match arms", "ExpressionType": "only inside parameter lists and annotations",
    "Comprehension": "only inside list/set brackets (the builder wraps it)", "TupleLiteral": "a bare tuple `a, b` is an expression list: valid after return / =",
    "Empty": "prints nothing: `return ` / `x = ` - see R-C01-2 (no statement becomes Empty)",
    "Type": "type position only", "Match": None, "IfElse": None, "TryExcept": None,
}


def _skip_closure(syn, fn_name, depth=0):
    """variants a skip_* predicate accepts (through `matches!` and calls of other predicates in the same module)"""
    f = syn.one_fn(fn_name, mod="generate::convert")
    out = set(re.findall(r"Core::(\w+)", src(f["body"])))
    if depth < 3:
        for n in walk(f["body"]):
            if n.get("k") == "call" and n["f"].get("k") == "path" and n["f"]["p"] != fn_name and syn.find_fn(n["f"]["p"], mod="generate::convert") \
                    and len(syn.find_fn(n["f"]["p"], mod="generate::convert")) == 1 and n["f"]["p"] in ("skip_return", "skip_assign", "is_statement"):
                out |= _skip_closure(syn, n["f"]["p"], depth + 1)
    return out


# ------------------------------------------------------------------------------------------------------------------------
def _delimiters(chk, facts, pm):
    syn = facts.syn
    try:
        tk = syn.one_fn("into_tokens", mod="parse::lex::tokenize")
        # the arm for '"': the string ends at the next unescaped '"'
        s = src(tk["body"]).replace(" ", "")
        str_arm = None
        for n in walk(tk["body"]):
            if n.get("k") == "match":
                for a in n["arms"]:
                    for alt in pat_alternatives(a["pat"]):
                        if alt.get("k") == "plit" and alt["e"].get("t") == "char" and alt["e"]["v"] == '"':
                            str_arm = a
                if str_arm:
                    break
        if str_arm is None:
            raise AnchorError("lexer arm for '\"' not found")
        arm_s = src(str_arm["body"])
        ok_lex = "Token::Str" in arm_s and "Token::DocStr" in arm_s
        for v, opening in (("Str", '"'), ("FStr", 'f"'), ("DocStr", '"""')):
            arms = pm.arms_of(v)
            t = arms[0].text() if len(arms) == 1 else ""
            ok = t.startswith(opening + "{") and t.endswith("}" + ('"""' if v == "DocStr" else '"'))
            chk.ob("R-C02-5", f"delimiter:{v}", ok and ok_lex, f"Core::{v} is printed between the delimiters the lexer consumed ({opening}..)" if ok and ok_lex else
                   f"Core::{v} is printed as `{t}`: not the delimiter the lexer used to find the end of the literal, so the lexeme can end the Python literal early", facts.loc_of(pm.fn))
    except AnchorError as e:
        chk.anchor_fail("R-C02-5", e)


def _write(chk, facts):
    syn = facts.syn
    try:
        ws = syn.one_fn("write_source", mod="io")
        chain_ = None
        for n in walk(ws["body"]):
            if n.get("k") == "mcall" and n["m"] == "open":
                chain_ = n
                break
        if chain_ is None:
            raise AnchorError("write_source: no .open(..) call")
        opts = {}
        cur = strip(chain_["recv"])
        while cur.get("k") == "mcall":
            opts[cur["m"]] = src(strip(cur["args"][0])) if cur["args"] else ""
            cur = strip(cur["recv"])
        ok = src(cur).replace(" ", "") == "OpenOptions::new()" and opts.get("write") == "true" and opts.get("create") == "true" and opts.get("truncate") == "true" and "append" not in opts
        chk.ob("R-C02-6", "open-options", ok, "the output file is opened write+create+truncate" if ok else
               f"write_source opens the file with {opts}: without truncate the tail of a longer older file stays behind the new text and the file is not the emitted program", facts.loc_of(ws))
        s = src(ws["body"]).replace(" ", "")
        ok = ".write(source.as_ref())" in s or ".write_all(source.as_ref())" in s or ".write_all(source.as_bytes())" in s
        chk.ob("R-C02-6", "writes-the-source", ok, "the bytes written are the emitted source, unmodified" if ok else "write_source no longer writes `source` as it is", facts.loc_of(ws))
    except AnchorError as e:
        chk.anchor_fail("R-C02-6", e)


# ------------------------------------------------------------------------------------------------------------------------
def _literals(chk, facts):
    """R-C02-7: the parts of the literal language that are visible in the shape of the code.
    (a) the string loop of the lexer ends on the closing quote or with an error - never silently at the end of the input;
        a `}` only closes an open `{` (otherwise the counter goes negative and the quote is never seen);
    (b) integer digit strings (Int, the integer mantissa and the exponent of an E-number) are printed without leading zeros;
    (c) the text of a string is printed on one line (line breaks escaped)."""
    syn = facts.syn
    chk.rule("R-C02-7", "literals: strings end at their quote or with an error; integers lose leading zeros; string text is printed on one line")
    try:
        tk = syn.one_fn("into_tokens", mod="parse::lex::tokenize")
        loc = facts.loc_of(tk)
        arm = None
        for n in walk(tk["body"]):
            if n.get("k") == "match":
                for a in n["arms"]:
                    if any(alt.get("k") == "plit" and alt["e"].get("t") == "char" and alt["e"]["v"] == '"' for alt in pat_alternatives(a["pat"])):
                        arm = a
                if arm:
                    break
        if arm is None or arm["body"].get("k") != "block":
            raise AnchorError("lexer arm for '\"' not found")
        stmts = arm["body"]["stmts"]
        loops = [(i, strip(s_.get("e", {}))) for i, s_ in enumerate(stmts) if s_.get("k") == "expr" and strip(s_.get("e", {})).get("k") == "for"]
        if len(loops) != 1:
            raise AnchorError(f"string arm: {len(loops)} top-level loops")
        li, loop = loops[0]
        # the break that ends the loop, and the flag set just before it
        flag = None
        for n in walk(loop["body"]):
            if n.get("k") == "if" and any(x.get("k") == "break" for x in walk(n["then"])):
                for st in n["then"]["stmts"]:
                    e = strip(st.get("e", {})) if st.get("k") == "expr" else {}
                    if e.get("k") == "assign" and src(strip(e["r"])) == "true":
                        flag = src(strip(e["l"]))
        after = stmts[li + 1:]
        ok = False
        if flag:
            for st in after:
                e = strip(st.get("e", {})) if st.get("k") == "expr" else {}
                if e.get("k") == "if" and src(strip(e["c"])).replace(" ", "").strip("()") == "!" + flag and any(x.get("k") == "return" and "Err(" in src(x) for x in walk(e["then"])):
                    ok = True
        chk.ob("R-C02-7", "string-loop:ends-on-quote-or-error", ok, "the string loop records that it saw the closing quote; otherwise the lexer returns an error" if ok else
               "the string loop of the lexer can end because the input ran out and the token is created all the same: an unterminated string (or an unclosed `{` in it) "
               "swallows the rest of the file and is printed as an unterminated Python string", loc)
        dec = [n for n in walk(loop["body"]) if n.get("k") == "if" and "'}'" in src(n["c"])]
        ok = any(re.search(r"build_cur_expr>0|0<build_cur_expr", src(n["c"]).replace(" ", "")) for n in dec)
        chk.ob("R-C02-7", "string-loop:brace-counter-non-negative", ok, "a `}` decrements the interpolation depth only when one is open" if ok else
               "a `}` without an open `{` drives the interpolation counter negative: the closing quote is no longer recognised (`\"}\"`)", loc)
    except AnchorError as e:
        chk.anchor_fail("R-C02-7", e)
    try:
        t2c, cn = chain.nodety_to_core(facts)
        loc = facts.loc_of(cn)

        def helper_with(pred):
            return {f["name"] for f in syn.fns if f["mod"].startswith("generate::convert") and f.get("body") and pred(src(f["body"]).replace(" ", ""))}
        zero = helper_with(lambda s: "trim_start_matches('0')" in s and '"0"' in s)
        line = helper_with(lambda s: "replace('\\n'" in s or 'replace("\\n"' in s)
        def calls_in_field(row, field):
            st = chain._struct_of(row["arm"]["body"])
            if st is None:
                return set()
            e = dict(st["fields"]).get(field)
            return {n["f"]["p"].split("::")[-1] for n in walk(e) if n.get("k") == "call" and n["f"].get("k") == "path"} if e is not None else set()
        for v, field in (("Int", "int"), ("ENum", "num"), ("ENum", "exp")):
            rows = [r for r in t2c if r["src"] == v]
            ok = len(rows) == 1 and bool(calls_in_field(rows[0], field) & zero)
            chk.ob("R-C02-7", f"leading-zeros:{v}.{field}", ok, f"{v}.{field}: the digits are printed without leading zeros" if ok else
                   f"convert_node copies the digits of {v}.{field} as they are: the lexer accepts `007`, Python rejects decimal integers with leading zeros", loc)
        rows = [r for r in t2c if r["src"] == "Str"]
        ok = len(rows) == 2 and all(calls_in_field(r, "string") & line for r in rows)
        chk.ob("R-C02-7", "string-text:one-line", ok, "Str / FStr: line breaks in the text are escaped" if ok else
               "convert_node copies the text of a string as it is: a string that spans lines in the source is printed as a quoted string with a raw line break, which Python rejects", loc)
    except AnchorError as e:
        chk.anchor_fail("R-C02-7", e)


# ------------------------------------------------------------------------------------------------------------------------
def rejected_words(facts):
    """words the identifier arm of the lexer refuses: `if <CONST>.contains(&word) { return Err(..) }` before the token is created"""
    syn = facts.syn
    tk = syn.one_fn("into_tokens", mod="parse::lex::tokenize")
    out = set()
    for n in walk(tk["body"]):
        if n.get("k") == "if" and any(x.get("k") == "return" and "Err(" in src(x) for x in walk(n["then"])):
            c = strip(n["c"])
            if c.get("k") == "mcall" and c["m"] == "contains" and strip(c["recv"]).get("k") == "path" and "id_or_operation" in src(c["args"][0]):
                const = syn.consts.get("parse::lex::tokenize::" + strip(c["recv"])["p"]) or syn.consts.get(strip(c["recv"])["p"])
                if const is not None and const["e"].get("k") == "array":
                    out |= {e["v"] for e in const["e"]["elems"] if e.get("k") == "lit"}
    return out, tk


def _keywords(chk, facts):
    """R-C02-8: a name is copied into the output; every hard keyword of Python must therefore be unavailable as a Mamba name:
    a keyword of the Mamba lexer (then it is syntax, printed by a template), one of None/True/False (printed as themselves),
    or refused by the lexer. Oracle: `keyword.kwlist` of the CPython running the check (soft keywords are valid names)."""
    import keyword
    from . import lexer
    chk.rule("R-C02-8", "every hard keyword of Python is a Mamba keyword, a literal name (None/True/False) or refused by the lexer as a name")
    try:
        lm = lexer.LexerModel(facts)
        rej, tk = rejected_words(facts)
    except AnchorError as e:
        chk.anchor_fail("R-C02-8", e)
        return
    loc = facts.loc_of(tk)
    for kw in keyword.kwlist:
        how = "a Mamba keyword" if kw in lm.keywords else "a literal name" if kw in ("None", "True", "False") else "refused by the lexer" if kw in rej else None
        chk.ob("R-C02-8", f"python-keyword:{kw}", how is not None, f"`{kw}` is {how}" if how else
               f"`{kw}` is a keyword of Python but an ordinary identifier for the lexer: `def {kw} := 1` is accepted and emitted as `{kw} = 1`, which Python rejects", loc)
    chk.floor("R-C02-8", len(keyword.kwlist), 33, "Python keywords")
