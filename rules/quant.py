"""A15 - quantifier integrity: a check that has to hold *for every element* must see every element.

`truncation_census` lists the iterator adapters that can silently drop elements (`zip` stops at the shorter side; `take`, `skip`,
`step_by`, `take_while`, `skip_while`, `nth`) in the checker and the generator. A `zip` is accepted mechanically when an enclosing
condition (an `if`, an `else if`, a match-arm guard) compares the lengths of its two sides for equality, or when both sides are
element-for-element images of the same collection (`xs.iter().map(..)` zipped with `xs.iter()`); every other site must be
in the reviewed table below with the reason why nothing that matters is dropped.
"""
import re
from .common import walk, src, strip, idents_in, syn_owner

ADAPTERS = ("zip", "take", "skip", "step_by", "take_while", "skip_while", "nth")
REVIEWED = {
    # (function, adapter) -> (count, reason)
    ("check::context::clss::Class::has_parent", "zip(element_of)"): (1, "the second side is built to the length of the first: `other.generics` under the guard "
                                                           "`self.name.generics.len() == other.generics.len()`, or `cycle().take(self.name.generics.len())` for a collection"),
    ("check::context::clss::Class::has_parent", "take(self.name.generics.len())"): (1, "`cycle().take(n)`: repeats the element type n times (lengthens, never drops)"),
    ("check::context::clss::Class::constructor", "skip(1)"): (1, "skips `self`, the first parameter of `__init__`, which a constructor call does not pass"),
}


def _ancestors(root):
    """id(node) -> list of ancestor nodes"""
    out = {}
    stack = [(root, [])]
    while stack:
        n, anc = stack.pop()
        if isinstance(n, dict):
            out[id(n)] = anc
            for v in n.values():
                if isinstance(v, (dict, list)):
                    stack.append((v, anc + [n]))
        elif isinstance(n, list):
            for v in n:
                if isinstance(v, (dict, list)):
                    stack.append((v, anc))
    return out


ONE_TO_ONE = ("iter", "into_iter", "iter_mut", "cloned", "copied", "clone", "map", "enumerate", "collect", "to_vec", "as_slice", "rev", "to_owned", "by_ref", "inspect")


def _same_length_source(e, body, depth=0, ty=""):
    """the collection `e` has one element per element of: peel adapters that keep the number of elements (`iter`, `cloned`, `map`,
    `enumerate`, `collect`, ..), the free function `enumerate(..)`, references; follow an immutable `let` of the function to its
    initialiser. -> source text, or None if something else is met"""
    e = strip(e)
    for _ in range(12):
        k = e.get("k")
        if k == "mcall" and e["m"] == "collect" and not re.match(r"(::)?<?\s*Vec\b", (e.get("tf") or "").replace(" ", "")) and not re.match(r"Vec\b", ty.replace(" ", "")):
            return None         # collected into something that may merge elements (a set, a map)
        if k == "mcall" and e["m"] in ONE_TO_ONE:
            e = strip(e["recv"])
        elif k == "call" and e["f"].get("k") == "path" and e["f"]["p"].split("::")[-1] == "enumerate" and len(e["args"]) == 1:
            e = strip(e["args"][0])
        elif k in ("ref", "paren"):
            e = strip(e["e"])
        else:
            break
    if e.get("k") == "path" and "::" not in e["p"] and depth < 3:
        def bare(p_):
            return p_["p"] if p_.get("k") == "ptype" else p_
        lets = [n for n in walk(body) if n.get("k") == "local" and bare(n["pat"]).get("k") == "pident" and bare(n["pat"])["name"] == e["p"]]
        if len(lets) == 1 and not bare(lets[0]["pat"]).get("mut") and lets[0].get("init") is not None:
            return _same_length_source(lets[0]["init"], body, depth + 1, lets[0]["pat"].get("ty", "") if lets[0]["pat"].get("k") == "ptype" else "")
        if lets:
            return None
    if e.get("k") in ("path", "field"):
        return src(e).replace(" ", "")
    return None


def _len_guard(cond_src, a_ids, b_ids):
    """does the condition contain `<..a..>.len() == <..b..>.len()`?"""
    for m in re.finditer(r"([\w.()&]+)\.len\(\)==([\w.()&]+)\.len\(\)", cond_src):
        l, r = set(re.findall(r"[A-Za-z_]\w*", m.group(1))), set(re.findall(r"[A-Za-z_]\w*", m.group(2)))
        if (l & a_ids and r & b_ids) or (l & b_ids and r & a_ids):
            return True
    return False


def truncation_census(chk, facts, rule, mods=("check",)):
    syn = facts.syn
    got = {}
    n = 0
    for f in syn.fns:
        if not f.get("body") or f.get("derived") or "test" in f["mod"] or not any(f["mod"].startswith(m) for m in mods):
            continue
        anc = None
        for node in walk(f["body"]):
            if node.get("k") != "mcall" or node["m"] not in ADAPTERS:
                continue
            n += 1
            key = (syn_owner(syn, f), node["m"] + "(" + ", ".join(src(strip(a)).replace(" ", "") for a in node["args"]) + ")")
            ok_auto = False
            if node["m"] == "zip" and node["args"]:
                if anc is None:
                    anc = _ancestors(f["body"])
                a_ids = idents_in(node["recv"]) - {"self"} | ({"self"} if src(node["recv"]).startswith("self") else set())
                a_ids |= set(re.findall(r"[A-Za-z_]\w*", src(node["recv"])))
                b_ids = set(re.findall(r"[A-Za-z_]\w*", src(node["args"][0])))
                noise = {"iter", "into_iter", "clone", "as_ref", "cloned", "len"}
                a_ids -= noise
                b_ids -= noise
                for a in anc.get(id(node), []):
                    conds = []
                    if a.get("k") == "if":
                        conds.append(a["c"])
                    if a.get("k") == "match":
                        for arm in a["arms"]:
                            if arm.get("guard") is not None and any(x is node for x in walk(arm["body"])):
                                conds.append(arm["guard"])
                    for c in conds:
                        # the equality has to hold whenever the branch is taken: in every alternative of a disjunction
                        from .common import disjuncts
                        ds = disjuncts(c)
                        if ds and all(_len_guard(d_, a_ids, b_ids) for d_ in ds):
                            ok_auto = True
            if node["m"] == "zip" and node["args"] and not ok_auto:
                sa, sb = _same_length_source(node["recv"], f["body"]), _same_length_source(node["args"][0], f["body"])
                if sa is not None and sa == sb:
                    chk.ob(rule, f"trunc:{f['qual']}|zip|same-source", True, f"{f['qual']}: `{src(node)[:60]}`: both sides have one element per element of `{sa}`")
                    continue
            if ok_auto:
                chk.ob(rule, f"trunc:{f['qual']}|{node['m']}|guarded", True, f"{f['qual']}: `{src(node)[:60]}` under an equal-length guard")
                continue
            got[key] = got.get(key, 0) + 1
    from .common import normalise_review
    reviewed = normalise_review(syn, REVIEWED)
    for key, cnt in sorted(got.items()):
        fn, ad = key
        rev = reviewed.get(key)
        f = next((x for x in syn.fns if x["qual"] == fn), None)
        ok = rev is not None and cnt <= rev[0]
        chk.ob(rule, f"trunc:{fn}|{ad}", ok, f"{fn}: .{ad} x{cnt} - reviewed: {rev[1]}" if ok else
               f"{fn}: `.{ad}` can drop elements ({cnt} site(s), {rev[0] if rev else 0} reviewed) and no enclosing condition compares the lengths: "
               "whatever is checked per element is not checked for the elements that are dropped", facts.loc_of(f) if f else None)
    chk.floor(rule, n, 4, "truncating adapters in the checker")
