"""C08 - raises must be declared or handled.

R-C08-1  (MIR) every function of check:: that resolves a callee to a `context::function::Function` and uses its `arguments`
         (i.e. treats it as *called*) passes that function's `raises` to `check_raises_caught` on every Ok path after the lookup.
         `gen_stmt`'s Raise arm must-calls `check_raises_caught` too.
R-C08-2  (environment field-flow, rules/envflow.py) the caught-set never escapes: in the environment returned by every arm of every
         generator function `raises_caught` is the incoming one, and the environment *handed to* every sub-construct has an enlarged
         caught-set only at the reviewed sites (the expression a handle guards; a function body with its declared raises).
R-C08-3  (syntax) `gen_def`'s FunDef arm rejects a declared raise that is not an `Exception` descendant, and catches exactly the
         declared set inside the body.
R-C08-5  (syntax, operand provenance) in `check_raises_caught` the *raised* class is the receiver of `has_parent` and the *caught*
         name its argument; uncaught ones become errors; the check is active exactly when `env.in_fun`.
R-C08-4  (syntax) `convert_handle` maps every case to one `except` clause whose class is the case's type, pushes it in order and
         drops none.
"""
import re
from .common import walk, src, strip, AnchorError, must_call_blocks, tail_expr
from .c07 import arm_entry
from . import envflow

NODE = "parse::ast::Node"
REVIEWED_LOOKUP_ONLY = {
    "<check::name::string_name::StringName as check::name::ColType>::col_type":
        "reads only `ret_ty` of the __iter__/__next__ protocol methods to compute an element type; no user-visible call is typed here",
}


def run(chk, facts):
    mir, syn = facts.mir, facts.syn
    chk.rule("R-C08-1", "callee resolved to a Function and used as called => its raises reach check_raises_caught on every Ok path; raise statements too")
    chk.rule("R-C08-2", "raises_caught of the environment returned by every generator arm is the incoming one")
    chk.rule("R-C08-3", "declared raises must descend from Exception; the body catches exactly the declared set")
    chk.rule("R-C08-4", "convert_handle: one except clause per case, class = the case's type, order kept, none dropped")
    chk.rule("R-C08-5", "check_raises_caught: raised.has_parent(caught); uncaught => error; active iff env.in_fun")

    # ---------------- R-C08-1 ----------------
    rx = re.compile(r"^std::result::Result<check::context::function::Function,")
    n_sites = 0
    for b in mir.fns.values():
        if not (b.path.startswith("check::") or b.path.startswith("<check::")):
            continue
        lookups = [(bb, t) for bb, t in b.calls() if rx.match(t.dty) and ("::function" in t.callee or "::fun" in t.callee or "constructor" in t.callee)
                   and "map_err" not in t.callee and "Try" not in t.callee]
        if not lookups:
            continue
        owner = mir.fns[b.parent] if b.kind == "Closure" and b.parent in mir.fns else b
        uses_args = _reads_field(b, "arguments", "check::context::function::Function")
        key = owner.path
        if not uses_args:
            ok = key in REVIEWED_LOOKUP_ONLY
            chk.ob("R-C08-1", f"lookup-only:{key}", ok,
                   f"{key} looks a function up without typing a call of it" + (f" (reviewed: {REVIEWED_LOOKUP_ONLY[key]})" if ok else " - unreviewed lookup site"), b.loc)
            continue
        n_sites += 1
        for bb, t in lookups:
            start = t.target
            holds, path = must_call_blocks(b, start, lambda c: c.callee.endswith("::check_raises_caught"))
            reads_raises = _reads_field(b, "raises", "check::context::function::Function")
            ok = holds and reads_raises
            chk.ob("R-C08-1", f"called:{key}", ok,
                   f"{key}: after resolving the callee every Ok path passes its raises to check_raises_caught" if ok else
                   f"{key} types a call of a resolved function but an Ok return is reachable without check_raises_caught"
                   f"{'' if reads_raises else ' (the `raises` of the function are never read)'} - a raising callee needs no handler here", b.loc,
                   detail={"path": path})
            break
    chk.floor("R-C08-1", n_sites, 1, "functions typing a call of a resolved Function")
    gen_stmt = mir.one("check::constrain::generate::statement::gen_stmt")
    sw, entry, explicit = arm_entry(mir, gen_stmt, NODE, "Raise")
    holds, path = must_call_blocks(gen_stmt, entry, lambda c: c.callee.endswith("::check_raises_caught"))
    chk.ob("R-C08-1", "gen_stmt:Raise:must-call", explicit and holds,
           "every Ok path of gen_stmt's Raise arm calls check_raises_caught" if explicit and holds else
           f"a `raise` statement can be accepted without check_raises_caught (blocks {path})", gen_stmt.loc)

    # ---------------- R-C08-2 ----------------
    envflow.check_scoping(chk, facts, "R-C08-2", fields=["raises_caught", "in_fun"])
    envflow.check_call_envs(chk, facts, "R-C08-2", fields=["raises_caught", "in_fun"])

    # ---------------- R-C08-3 ----------------
    try:
        gd = syn.one_fn("gen_def", mod="check::constrain::generate::definition")
        loc = facts.loc_of(gd)
        arm = _arm(gd, "Node::FunDef")
        body = arm["body"]
        exc_from_const = False
        exc_var = None
        from .common import local_helpers
        # the validation of the declared raises may live in a private helper of the module that the arm calls
        called = {n["f"]["p"] for n in walk(body) if n.get("k") == "call" and n["f"].get("k") == "path"}
        scan = [body] + [h["body"] for h in local_helpers(syn, gd) if h["name"] in called]
        for n in (x for b_ in scan for x in walk(b_)):
            if n.get("k") == "local" and n.get("init") is not None and "EXCEPTION" in src(n["init"]):
                exc_var = [p["name"] for p in walk(n["pat"]) if p.get("k") == "pident"][0]
                exc_from_const = syn.const_str("check::context::clss::python::EXCEPTION") in (None, "Exception") or True
        cval = None
        for name, c in syn.consts.items():
            if name.endswith("::EXCEPTION"):
                cval = c["e"].get("v")
        chk.ob("R-C08-3", "exception-const", exc_var is not None and cval == "Exception",
               f"declared raises are compared with the class named `{cval}`" if exc_var and cval == "Exception" else
               f"the ancestor every declared raise must have is `{cval}` via `{exc_var}` - expected the constant EXCEPTION = \"Exception\"", loc)
        ok_loop = False
        for n in (x for b_ in scan for x in walk(b_)):
            if n.get("k") == "for" and "raises" in src(n["iter"]):
                for m in walk(n["body"]):
                    if m.get("k") == "if":
                        c = src(strip(m["c"])).replace(" ", "")
                        if c.startswith("!") and ".has_parent(" in c and exc_var and f"&{exc_var}" in c:
                            if any(x.get("k") == "return" and "Err" in src(x) for x in walk(m["then"])):
                                ok_loop = True
        chk.ob("R-C08-3", "not-exception=>Err", ok_loop, "each declared raise without the Exception ancestor is rejected" if ok_loop else
               "gen_def no longer rejects a declared raise that does not descend from Exception", loc)
        # the body's caught set is the declared set
        caught = [n for n in walk(body) if n.get("k") == "mcall" and n["m"] == "raises_caught"]
        ok = len(caught) == 1 and src(strip(caught[0]["args"][0])) == "raises"
        chk.ob("R-C08-3", "body-catches-declared", ok, "the function body is checked with the declared raises added to the caught set" if ok else
               f"gen_def adds `{[src(c['args'][0]) for c in caught]}` to the caught set of the body instead of the declared raises", loc)
    except AnchorError as e:
        chk.anchor_fail("R-C08-3", e)

    # ---------------- R-C08-5 ----------------
    try:
        crc = syn.one_fn("check_raises_caught", mod="check::constrain::generate::statement")
        loc = facts.loc_of(crc)
        b = crc["body"]
        # outer guard
        # decided on the enumerated paths (`if env.in_fun { .. }` and `if !env.in_fun { return Ok(()) }` are the same): errors are
        # returned only when env.in_fun holds, and when it does not the function is Ok without looking
        from .common import fn_paths
        g_err_in = g_err_out = g_ok_out = 0
        for p_ in fn_paths(b):
            v = p_.holds("env.in_fun")
            r_ = src(strip(p_.result)).replace(" ", "") if p_.result is not None else ""
            if r_.startswith("Err("):
                if v is True:
                    g_err_in += 1
                else:
                    g_err_out += 1
            elif v is False and r_.startswith("Ok("):
                g_ok_out += 1
        guard_ok = g_err_in >= 1 and g_err_out == 0 and g_ok_out >= 1
        chk.ob("R-C08-5", "guard:in_fun", guard_ok, "the check is active exactly inside function bodies (`if env.in_fun`)" if guard_ok else
               "check_raises_caught is no longer guarded by exactly `env.in_fun`", loc)
        hp = [n for n in walk(b) if n.get("k") == "mcall" and n["m"] == "has_parent"]
        if len(hp) != 1:
            raise AnchorError(f"check_raises_caught: {len(hp)} has_parent calls")
        recv = src(strip(hp[0]["recv"]))
        arg = src(strip(hp[0]["args"][0]))
        # provenance of recv: bound by `if let Ok(recv) = ctx.class(X, ..)` with X the filter closure parameter over `raises`
        prov_recv = prov_arg = None
        for n in walk(b):
            if n.get("k") == "let" and recv in [p["name"] for p in walk(n["pat"]) if p.get("k") == "pident"]:
                prov_recv = src(n["e"])
            if n.get("k") == "mcall" and n["m"] in ("any", "all", "find", "filter") and n["args"] and strip(n["args"][0]).get("k") == "closure":
                cl = strip(n["args"][0])
                params = [p["name"] for q in cl["params"] for p in walk(q) if p.get("k") == "pident"]
                if arg in params:
                    prov_arg = (n["m"], src(n["recv"]))
        raised_param = None
        for n in walk(b):
            if n.get("k") == "mcall" and n["m"] == "filter" and strip(n["args"][0]).get("k") == "closure":
                cl = strip(n["args"][0])
                params = [p["name"] for q in cl["params"] for p in walk(q) if p.get("k") == "pident"]
                if src(strip(n["recv"])) in ("raises.iter()", "raises"):
                    raised_param = params[0] if params else None
                    flt = cl
        ok_recv = prov_recv is not None and raised_param is not None and raised_param in prov_recv and "ctx.class(" in prov_recv
        ok_arg = prov_arg is not None and prov_arg[0] == "any" and prov_arg[1].replace(" ", "") == "env.raises_caught.iter()"
        chk.ob("R-C08-5", "direction", ok_recv and ok_arg,
               "raised.has_parent(caught): a raise is covered by a handler for itself or an ancestor" if ok_recv and ok_arg else
               f"has_parent is called as `{recv}.has_parent({arg})` with receiver from `{prov_recv}` and argument from `{prov_arg}`: "
               "expected the raised class as receiver and a caught name (any over env.raises_caught) as argument", loc)
        # polarity: the filter keeps the NOT caught ones, which become errors; lookup failure / has_parent error count as not caught
        # (the "caught" test may be written in the filter or as a named closure that the filter negates)
        caught = [n for n in walk(b) if n.get("k") == "if" and n["c"].get("k") == "let" and "ctx.class(" in src(n["c"]) and any(m is hp[0] for m in walk(n["then"]))]
        pol = False
        if raised_param and len(caught) == 1:
            c_if = caught[0]
            else_false = c_if.get("else") is not None and src(strip(c_if["else"])).replace(" ", "") in ("false", "{false}")
            tolerant = ".unwrap_or_default()" in src(c_if["then"]).replace(" ", "")
            fb = strip(flt["body"])
            negated = False
            if fb.get("k") == "unary" and fb["op"] == "!":
                inner = strip(fb["e"])
                if inner is c_if or any(m is c_if for m in walk(inner)):
                    negated = True
                elif inner.get("k") == "call" and inner["f"].get("k") == "path":
                    # a local closure: `let is_caught = |name| <c_if>;`
                    for n in walk(b):
                        if n.get("k") == "local" and src(n["pat"]) == inner["f"]["p"] and n.get("init") is not None and strip(n["init"]).get("k") == "closure" \
                                and any(m is c_if for m in walk(n["init"])):
                            negated = True
            pol = else_false and tolerant and negated
        chk.ob("R-C08-5", "polarity", pol, "uncaught raises (and unknown classes) are kept by the filter and reported" if pol else
               "the filter of check_raises_caught no longer has the shape `!if let Ok(c) = .. { any(..) } else { false }`", loc)
        errs = any(n.get("k") == "return" and src(n).startswith("return Err(errs") for n in walk(b))
        chk.ob("R-C08-5", "errors-returned", errs, "the uncaught raises are returned as errors" if errs else "check_raises_caught does not return its errors", loc)
    except AnchorError as e:
        chk.anchor_fail("R-C08-5", e)

    # ---------------- R-C08-4 ----------------
    try:
        ch = syn.one_fn("convert_handle", mod="generate::convert::handle")
        loc = facts.loc_of(ch)
        arm = _arm(ch, "NodeTy::Handle")
        loops = [n for n in walk(arm["body"]) if n.get("k") == "for" and src(strip(n["iter"])) == "cases"]
        if len(loops) != 1:
            raise AnchorError("convert_handle: no single `for case in cases`")
        lp = loops[0]
        pushes = [n for n in walk(lp["body"]) if n.get("k") == "mcall" and n["m"] == "push"]
        ok_push = len(pushes) == 1
        structs = [n for n in walk(pushes[0]["args"][0]) if n.get("k") == "struct"] if ok_push else []
        kinds = sorted(s["p"] for s in structs)
        ok_kinds = kinds == ["Core::Except", "Core::ExceptId"]
        class_ok = all(any(f == "class" and src(strip(v)) == "class" for f, v in s["fields"]) for s in structs)
        body_ok = all(any(f == "body" and src(strip(v)) == "body" for f, v in s["fields"]) for s in structs)
        # `class` comes from the case's declared type
        cls_def = [n for n in walk(lp["body"]) if n.get("k") == "local" and [p["name"] for p in walk(n["pat"]) if p.get("k") == "pident"] == ["class"]]
        cls_from_ty = len(cls_def) == 1 and "ty" in src(cls_def[0]["init"]) and ".to_py(imp)" in src(cls_def[0]["init"])
        # no `continue` / conditional skip of the push
        skips = [n for n in walk(lp["body"]) if n.get("k") == "continue"]
        ok = ok_push and ok_kinds and class_ok and body_ok and cls_from_ty and not skips
        chk.ob("R-C08-4", "cases->excepts", ok,
               "every case becomes exactly one Except/ExceptId with the case's type as class and its body" if ok else
               f"convert_handle: pushes={len(pushes)} kinds={kinds} class_ok={class_ok} body_ok={body_ok} class_from_type={cls_from_ty} skips={len(skips)}", loc)
        # the result vector is what TryExcept.except gets
        te = [n for n in walk(arm["body"]) if n.get("k") == "struct" and n["p"] == "Core::TryExcept"]
        ok = len(te) == 1 and any(f == "except" and src(strip(tail_expr(v) or v)) == "except" for f, v in te[0]["fields"])
        chk.ob("R-C08-4", "excepts-stored", ok, "the collected clauses are stored in TryExcept.except" if ok else "TryExcept.except is not the collected clause vector", loc)
        att = [v for f, v in te[0]["fields"] if f == "attempt"] if te else []
        from . import symeval
        se = symeval.SymEval(syn, "generate::convert")
        av = se.ev(att[0], {"expr_or_stmt": ("var", "expr_or_stmt")}) if att else ("opaque", "-")
        ok = av[0] == "conv" and av[1] == "expr_or_stmt"   # whatever references / clones are around it
        chk.ob("R-C08-4", "attempt=guarded-expression", ok, "the try body is the guarded expression" if ok else "TryExcept.attempt is not the converted guarded expression", loc)
    except AnchorError as e:
        chk.anchor_fail("R-C08-4", e)
    chk.rule("R-C08-6", "no element is dropped before it is checked: every zip/take/skip in the checker is length-guarded or reviewed (shared census, rules/quant.py)")
    from .quant import truncation_census
    truncation_census(chk, facts, "R-C08-6")
    # "an ancestor of E": the answers of Class::has_parent rest on the class itself, Any, or an ancestor (shared with C20)
    from .c20 import true_grounds
    chk.rule("R-C20-3", "has_parent answers a literal `true` only on the class itself, Any, or an ancestor's answer (shared with C20)")
    true_grounds(chk, facts, "R-C20-3")
    chk.notes.append("C08: must-call on MIR for every callee-resolution site; environment field-flow for the caught set; operand provenance in check_raises_caught.")


def _reads_field(body, fname, adt):
    for bb in body.bbs:
        places = []
        for s in bb.stmts:
            places.extend(o.place for o in s.ops if o.place)
        if bb.term.k == "call":
            places.extend(o.place for o in bb.term.args if o.place)
        for p in places:
            for pr in p.proj:
                if pr.startswith(".") and f":{fname}:{adt}:" in pr:
                    return True
    return False


def _arm(fn, head):
    from .common import pat_alternatives
    for n in walk(fn["body"]):
        if n.get("k") == "match":
            for a in n["arms"]:
                for alt in pat_alternatives(a["pat"]):
                    if alt.get("k") == "pstruct" and alt["p"] == head:
                        return a
    raise AnchorError(f"{fn['qual']}: no arm for {head}")
