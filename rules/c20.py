"""C20 - assignability is a sound order.

R-C20-1  (decision table + exhaustive small-model check) nullable layer: the formula extracted from `TrueName::is_superset_of`
         (same extraction as R-C06-1) is evaluated as a relation on the finite universe
             {a, b, c} x {plain, nullable}  +  None
         for *every* reflexive-transitive class order on {a, b, c} (29 preorders): the relation must be reflexive and transitive,
         T and None must be assignable to T?, T? must not be assignable to T. A counter-example to transitivity involves only three
         types, so this is complete for the layer.
R-C20-2  (syntax) union layer: `Name::is_superset_of` has the for-all / exists shape - for each member of `other` some member of
         `self` accepts it, `return Ok(false)` as soon as one member is not covered (unless `other` is interchangeable) - and the
         result is `true` otherwise; it iterates `other.names` (outer) and `self.names` (inner), not pairs.
R-C20-3  (syntax) class layer: the first test of `has_parent` is `self.name == other || other is Any` (reflexivity and top); after
         that only the parents are searched (a class is assignable to its ancestors, not to unrelated classes).
R-C20-4  (syntax) order-free representation: a union is a `HashSet` of members; forming a union is set union (commutative,
         idempotent); equality and hash of the name types are consistent (R-C12-3).
R-C20-5  (syntax) the boolean accumulators in the functions that decide assignability (check::name, check::context::clss) are
         monotone: a flag initialised `true` is only ever and-ed (all generic arguments must be accepted, not the last one), a flag
         initialised `false` only or-ed.
"""
import itertools
import re
from .common import walk, src, strip, AnchorError
from .c06 import nullable_table, ATOMS


def preorders(n):
    """all reflexive-transitive relations on range(n) as sets of pairs"""
    pairs = [(i, j) for i in range(n) for j in range(n) if i != j]
    out = []
    for bits in itertools.product([False, True], repeat=len(pairs)):
        rel = {(i, i) for i in range(n)} | {p for p, b in zip(pairs, bits) if b}
        ok = all((i, k) in rel for (i, j) in rel for (j2, k) in rel if j == j2)
        if ok:
            out.append(frozenset(rel))
    return out


def run(chk, facts):
    syn = facts.syn
    chk.rule("R-C20-1", "the nullable relation extracted from the source is reflexive and transitive over every class order on three classes; T, None -> T?; T? -/-> T")
    chk.rule("R-C20-2", "Name::is_superset_of: every member of other is accepted by some member of self")
    chk.rule("R-C20-3", "has_parent: self == other or Any first, then the parents")
    chk.rule("R-C20-4", "unions are hash sets; union is set union")
    chk.rule("R-C20-5", "for-all / exists accumulators of the assignability functions are monotone (`&=` on true, `|=` on false)")

    # ---------------- R-C20-1 ----------------
    try:
        fn, ev, atoms, names = nullable_table(facts)
        loc = facts.loc_of(fn)
        # universe: class index 0..2 with nullable flag, plus None (class index 3, only related to itself)
        types = [(c, nl) for c in range(3) for nl in (False, True)] + [(3, False)]

        def rel(order, s, o):
            (sc, sn), (oc, on) = s, o
            v = {"SE": False, "OE": False, "SN": sn, "ON": on, "ONULL": oc == 3, "V": (sc, oc) in order or sc == oc, "E": sc == oc}
            return ev({a: v[ATOMS[a]] for a in atoms})
        pos_ = preorders(3)
        n_checks = 0
        bad = None
        for order in pos_:
            order = set(order) | {(3, 3)}
            for t in types:
                n_checks += 1
                if not rel(order, t, t):
                    bad = bad or ("reflexivity", t, t, t, order)
            for x, y, z in itertools.product(types, repeat=3):
                n_checks += 1
                # rel(x, y): x accepts y. transitivity: x accepts y and y accepts z => x accepts z
                if rel(order, x, y) and rel(order, y, z) and not rel(order, x, z):
                    bad = bad or ("transitivity", x, y, z, order)
            for c in range(3):
                n_checks += 3
                if not rel(order, (c, True), (c, False)):
                    bad = bad or ("T? must accept T", (c, True), (c, False), None, order)
                if not rel(order, (c, True), (3, False)):
                    bad = bad or ("T? must accept None", (c, True), (3, False), None, order)
                if rel(order, (c, False), (c, True)):
                    bad = bad or ("T must not accept T?", (c, False), (c, True), None, order)
                if rel(order, (c, False), (3, False)):
                    bad = bad or ("T must not accept None", (c, False), (3, False), None, order)
        def show(t):
            if t is None:
                return ""
            return ("None" if t[0] == 3 else "abc"[t[0]]) + ("?" if t[1] else "")
        if bad:
            kind, x, y, z, order = bad
            rels = sorted(f"{'abc'[i]}>={'abc'[j]}" for (i, j) in order if i != j and i < 3 and j < 3)
            chk.ob("R-C20-1", "relation", False,
                   f"the assignability relation extracted from TrueName::is_superset_of violates {kind}: "
                   + (f"{show(x)} accepts {show(y)}, {show(y)} accepts {show(z)}, but {show(x)} does not accept {show(z)}" if kind == "transitivity" else f"{show(x)} vs {show(y)}")
                   + f" under the class order {rels or 'no inheritance'}", loc)
        else:
            chk.ob("R-C20-1", "relation", True, f"reflexive, transitive and nullable-correct on {len(types)} types x {len(pos_)} class orders ({n_checks} evaluations)", loc)
        chk.counts["R-C20-1"] += n_checks
        chk.sample({"rule": "R-C20-1", "universe": [show(t) for t in types], "class_orders": len(pos_), "evaluations": n_checks})
    except AnchorError as e:
        chk.anchor_fail("R-C20-1", e)

    # ---------------- R-C20-2 ----------------
    try:
        cands = [f for f in syn.find_fn("is_superset_of", mod="check::name", impl_of="Name")]
        if len(cands) != 1:
            raise AnchorError(f"{len(cands)} Name::is_superset_of")
        fn = cands[0]
        loc = facts.loc_of(fn)
        loops = [n for n in walk(fn["body"]) if n.get("k") == "for"]
        if len(loops) != 1:
            raise AnchorError(f"Name::is_superset_of has {len(loops)} loops")
        lp = loops[0]
        outer_ok = src(strip(lp["iter"])).replace(" ", "") == "other.names" and src(lp["pat"]) == "name"
        body = src(lp["body"]).replace(" ", "")
        inner_ok = "self.names.iter().map(is_superset).collect" in body and "letis_superset=|s_name|s_name.is_superset_of(name,ctx,pos)" in body
        # The three decisions, compared as boolean functions (truth tables over I = other.is_interchangeable, C = "some member of self
        # accepts this member", ACC = the accumulator) - not as text: `xs.all(|b| !*b)` is not C, `if I { ACC } else { true }` is
        # `!I || ACC`, intermediates may be named.
        from .common import inline_lets, bool_formula, equivalent, tail_expr as _tail
        lb = inline_lets(lp["body"], typed=True)
        I_ATOM = "other.is_interchangeable"

        def canon(t):
            t = t.replace(".clone()", "")
            while t.startswith("(") and t.endswith(")"):
                t = t[1:-1]
            m = re.fullmatch(r"(.*)\.iter\(\)\.all\(\|(\w+)\|\(?!\*\2\)?\)", t)
            if m:
                return "C", True
            m = re.fullmatch(r"(.*)\.iter\(\)\.any\(\|(\w+)\|\(?\*\2\)?\)", t)
            if m:
                return "C", False
            if t == I_ATOM:
                return "I", False
            return t, False
        early = False
        for i in [n for n in walk(lb) if n.get("k") == "if"]:
            then_s = src(i["then"]).replace(" ", "")
            if not then_s.startswith("{returnOk(false)"):
                continue
            f_, at = bool_formula(i["c"], canon)
            if set(at) <= {"I", "C"}:
                okq, _ = equivalent(f_, at, lambda v: (not v.get("I", False)) and (not v.get("C", False)))
                early = early or okq
        acc_ok, acc_name = False, None
        for n in walk(lb):
            if n.get("k") == "binary" and n["op"] == "|=":
                f_, at = bool_formula(n["r"], canon)
                if set(at) == {"C"} and equivalent(f_, at, lambda v: v["C"])[0]:
                    acc_ok, acc_name = True, src(strip(n["l"])).replace(" ", "")
        tail_ok = False
        te = _tail(fn["body"])
        te = strip(te) if te else None
        if te is not None and te.get("k") == "call" and src(te["f"]) == "Ok" and te["args"] and acc_name:
            def canon2(t):
                t2, neg = canon(t)
                if t2.replace("(", "").replace(")", "") == acc_name:
                    return "ACC", neg
                return t2, neg
            f_, at = bool_formula(te["args"][0], canon2)
            if set(at) <= {"I", "ACC"}:
                tail_ok = equivalent(f_, at, lambda v: (not v.get("I", False)) or v.get("ACC", False))[0]
        # no other way out: every `return` of the function is one of the two reviewed rejections (the emptiness guard before the loop,
        # the uncovered member inside it). A shortcut such as "fewer members than other => false" is sound for plain sets, not for
        # unions ordered by subtyping, where one member of self can cover several of other.
        from .c11 import parents_map as _pm2
        pmap = _pm2(fn["body"])
        extra_exit = None
        for rn in [n for n in walk(fn["body"]) if n.get("k") == "return"]:
            cur, cond = rn, None
            while True:
                par, key = pmap.get(id(cur), (None, None))
                if par is None:
                    break
                if par.get("k") == "if" and key == "then":
                    cond = par["c"]
                    break
                if par.get("k") == "closure":
                    break
                cur = par
            if cond is None:
                extra_exit = extra_exit or "an unconditional return"
                continue
            cs_ = src(strip(cond)).replace(" ", "")
            if cs_ in ("(!self.is_empty()&&other.is_empty())", "!self.is_empty()&&other.is_empty()"):
                continue
            f_, at = bool_formula(inline_lets({"k": "block", "stmts": lp["body"]["stmts"] + [{"k": "expr", "e": cond, "semi": False}]}, typed=True)["stmts"][-1]["e"], canon) \
                if any(x is rn for x in walk(lp["body"])) else (None, None)
            if f_ is not None and set(at) <= {"I", "C"} and equivalent(f_, at, lambda v: (not v.get("I", False)) and (not v.get("C", False)))[0]:
                continue
            extra_exit = extra_exit or f"`if {cs_[:70]} {{ {src(rn)[:30]} }}`"
        ok = outer_ok and inner_ok and early and tail_ok and acc_ok and extra_exit is None
        chk.ob("R-C20-2", "forall-exists", ok,
               "for every member of other some member of self accepts it; the first uncovered member rejects" if ok else
               f"Name::is_superset_of lost its for-all/exists shape (outer loop {outer_ok}, inner any {inner_ok}, early reject {early}, accumulator {acc_ok}, result {tail_ok}, other exit: {extra_exit}): "
               "a union can be accepted although one of its members is not", loc)
        first = strip(fn["body"]["stmts"][0]["e"]) if fn["body"]["stmts"][0].get("k") == "expr" else None
        ok = first is not None and first.get("k") == "if" and src(strip(first["c"])).replace(" ", "") == "(!self.is_empty()&&other.is_empty())" and "Ok(false)" in src(first["then"])
        chk.ob("R-C20-2", "empty-not-accepted", ok, "the empty type is not accepted by a non-empty one" if ok else "the emptiness guard of Name::is_superset_of changed", loc)
    except AnchorError as e:
        chk.anchor_fail("R-C20-2", e)

    # ---------------- R-C20-3 ----------------
    try:
        hp = [f for f in syn.find_fn("has_parent", mod="check::context::clss", impl_of="Class") if "StringName" in (f.get("impl_trait") or "")]
        if len(hp) != 1:
            raise AnchorError(f"{len(hp)} has_parent(&StringName)")
        fn = hp[0]
        loc = facts.loc_of(fn)
        first = strip(fn["body"]["stmts"][0]["e"])
        c = src(strip(first["c"])).replace(" ", "") if first.get("k") == "if" else ""
        from .common import cond_atoms
        ok = first.get("k") == "if" and cond_atoms(first["c"], "||") == {("==", frozenset({"self.name", "other"})), ("==", frozenset({"other.name.as_str()", "ANY"}))} \
            and "returnOk(true)" in src(first["then"]).replace(" ", "")
        chk.ob("R-C20-3", "reflexive-and-Any", ok, "a class is assignable to itself and to Any" if ok else f"the first test of has_parent is `{c[:100]}`", loc)
        tail = src(strip(fn["body"]["stmts"][-1]["e"])).replace(" ", "")
        ok = tail.startswith("Ok(self.parents.iter().map(|p|ctx.class(p,pos)?.has_parent(other,ctx,pos))") and tail.endswith(".iter().any(|b|*b))")
        chk.ob("R-C20-3", "ancestors-only", ok, "otherwise the answer is: some parent has the ancestor" if ok else "the ancestor search of has_parent changed shape", loc)
    except AnchorError as e:
        chk.anchor_fail("R-C20-3", e)
    true_grounds(chk, facts, "R-C20-3")

    # ---------------- R-C20-4 ----------------
    st = syn.structs.get("check::name::Name")
    ok = st is not None and any(n == "names" and t.replace(" ", "") == "HashSet<TrueName>" for n, t in st["fields"])
    chk.ob("R-C20-4", "Name.names:HashSet", ok, "the members of a union are a HashSet<TrueName> (no order, no duplicates)" if ok else "Name.names is no longer a HashSet<TrueName>")
    # Name::union is the set union of the members (None next to other members makes them nullable): the fold of R-C06-3 over small unions
    # states exactly that, with its branch-coverage obligation - shared, not restated on the text of the function
    from . import c06 as _c06u
    from .common import borrow as _borrow_u
    kept_u = _borrow_u(chk, facts, _c06u, ("R-C06-3|union",), {"R-C06-3": "Name::union folded over small unions: the set union of the members, None absorbed into nullability (shared with C06)"})
    chk.ob("R-C20-4", "union=set-union", len(kept_u) >= 2 and all(o_["ok"] for o_ in kept_u), "Name::union is the set union of the members (R-C06-3 union fold)" if kept_u and all(o_["ok"] for o_ in kept_u) else
           "Name::union is no longer the set union of both member sets (see the R-C06-3 union obligations)")
    accumulators(chk, facts, "R-C20-5")
    chk.rule("R-C20-6", "no element is dropped before it is compared: every zip/take/skip in the checker is length-guarded or reviewed (shared census)")
    from .quant import truncation_census
    truncation_census(chk, facts, "R-C20-6")
    # ---------------- R-C20-7 ----------------
    # Name::union absorbs a None member into `T?`, as_direct drops the nullable flag, as_nullable adds it: wherever one of them is applied, the
    # assignability relation is computed on a *changed* name.  Their call sites (MIR, resolved callees, attributed to the owning function) are the
    # reviewed ones below; a new site - e.g. a type parameter bound to the union of a tuple's elements during class lookup - is reported.
    chk.rule("R-C20-7", "operations that merge or drop nullability (Name::union, as_direct, as_nullable) occur only at the reviewed sites")
    import re as _re
    from .common import owner_root
    mir = facts.mir
    NULLOPS = _re.compile(r"(check::name::Name as check::name::Union<.*>>::union$|as check::name::Nullable>::as_nullable$|check::name::Name::as_direct$)")
    REVIEWED_NULL = {
        ("<check::context::clss::Class as check::context::clss::HasParent<&check::name::Name>>::has_parent", "as_direct"): (1, "ancestry is decided per class; the nullable flag is compared by Name::is_superset_of before any class is looked at (R-C06-1)"),
        ("<check::name::Name as check::name::ColType>::col_type", "union"): (1, "the element type of a union of collections is the union of their element types: a None element stays visible as `?`"),
        ("<check::name::Name as check::name::Nullable>::as_nullable", "as_nullable"): (1, "as_nullable of a union is member-wise"),
        ("<check::name::Name as std::convert::From<&std::collections::HashSet<check::name::Name>>>::from", "union"): (1, "the definition of a union built from a set of names"),
        ("<check::name::string_name::StringName as check::name::ColType>::col_type", "union"): (1, "iterating a tuple yields any of its elements: their union, a None element stays visible as `?`"),
        ("<check::name::string_name::StringName as check::name::Substitute>::substitute", "as_direct"): (1, "a type variable is replaced by the class(es) bound to it; the flags of the place it stands in are kept by TrueName::substitute"),
        ("<check::name::string_name::StringName as generate::name::ToPy>::to_py", "union"): (1, "rendering of `Union[..]` (after the check)"),
        ("check::constrain::generate::collection::gen_coll", "union"): (3, "the element type of a collection literal is the union of the types of its elements"),
        ("check::constrain::unify::finished::Finished::push_ty", "union"): (1, "a position that was given two types has their union"),
        ("check::name::match_name", "union"): (1, "destructuring a union of tuples: per position the union of the alternatives"),
        ("check::name::true_name::generic::<impl std::convert::TryFrom<&parse::ast::AST> for check::name::true_name::TrueName>::try_from", "as_nullable"): (1, "`T?` written in the source"),
    }
    got_n = {}
    locs_n = {}
    for b_ in mir.fns.values():
        if "::tests::" in b_.path or not b_.file.startswith("src/"):
            continue
        for bb_, t_ in b_.calls():
            if NULLOPS.search(t_.callee):
                k_ = (owner_root(mir, facts.syn, b_.path), t_.callee.split("::")[-1])
                got_n[k_] = got_n.get(k_, 0) + 1
                locs_n.setdefault(k_, f"{b_.file}:{t_.line}")
    for k_, cnt in sorted(got_n.items()):
        rev = REVIEWED_NULL.get(k_)
        ok = rev is not None and cnt <= rev[0]
        chk.ob("R-C20-7", f"nullop:{k_[0]}|{k_[1]}", ok, f"{k_[0]}: {k_[1]} x{cnt} - reviewed: {rev[1]}" if ok else
               f"{k_[0]} applies `{k_[1]}` to a type name ({cnt} site(s), {rev[0] if rev else 0} reviewed): the union absorbs a None member into `T?` and as_direct drops the flag again, "
               "so what is compared afterwards is not the type that was written - None (or an unrelated class) can become assignable", locs_n[k_])
    chk.floor("R-C20-7", len(got_n), 8, "functions that merge or drop nullability")
    # the relation as the checker applies it: unify_type accepts exactly on is_superset_of (or Any as the *whole* type) - shared with C05 / C06
    from . import c05, c06
    from .common import borrow
    borrow(chk, facts, c06, ("R-C06-2|unify_type",), {"R-C06-2": "unify_type accepts a pair of types exactly when the left is a superset of the right, or one of them is Any as a whole (shared with C06)"})
    borrow(chk, facts, c05, ("R-C05-4|",), {"R-C05-4": "unify_type asks the relation in the direction parent >= child (shared with C05)"})
    chk.assume("transitivity through the parent graph and generics, the tuple special case and associativity of union around None are not decided (ND)")
    chk.notes.append("C20: the relation extracted from the source is model-checked on a finite universe by evaluating the extracted formula (the code is not run).")


def true_grounds(chk, facts, rule):
    """every path on which one of the three `has_parent` implementations of Class answers a literal `true` rests on the receiver itself
    (`self.name` compared with what is asked), on the wildcard Any, or on the answer of an ancestor - never on the asked name alone
    (`if name == Exception { return Ok(true) }` makes every class an exception).  Shared by C20, C08 and C04."""
    from .common import fn_paths
    syn = facts.syn
    n = 0
    for fn in syn.fns:
        if fn["name"] != "has_parent" or fn["mod"] != "check::context::clss" or not fn.get("body") or "HasParent" not in (fn.get("impl_trait") or ""):
            continue
        which = (fn.get("impl_trait") or "").replace(" ", "")
        for p_ in fn_paths(fn["body"]):
            r_ = src(strip(p_.result), -30).replace(" ", "") if p_.result is not None else ""
            if r_ != "Ok(true)":
                continue
            n += 1
            pos_ = [c for c, pol in p_.conds if pol]
            grounded = any(("self.name" in c or "self." in c and "name" in c) or "any()" in c.lower() or "ANY" in c or "has_parent(" in c for c in pos_)
            chk.ob(rule, f"true-grounds:{which}|{n}", grounded,
                   f"{which}: `true` because {pos_[-1][:70] if pos_ else '-'}" if grounded else
                   f"{which}::has_parent answers `true` on a path whose conditions ({[c[:60] for c in pos_] or 'none'}) look neither at the class itself, nor at Any, nor at an ancestor's "
                   "answer: a class becomes assignable to (or an instance of) something it does not descend from", facts.loc_of(fn))
    chk.floor(rule, n, 2, "paths of has_parent that answer a literal true")


def accumulators(chk, facts, rule):
    from .common import accumulator_census
    rows = accumulator_census(facts.syn, ("check::name", "check::context::clss"))
    for r in rows:
        kind = "for-all" if r["init"] else "exists"
        key = f"accumulator:{r['fn']['qual']}.{r['name']}"
        chk.ob(rule, key, r["monotone"], f"{r['fn']['qual']}: `{r['name']}` is a {kind} accumulator ({', '.join(op for op, _ in r['updates'])})" if r["monotone"] else
               f"{r['fn']['qual']}: `{r['name']}` starts as {str(r['init']).lower()} but is overwritten in the loop ({r['updates']}): the result depends on the last element only, "
               "so a type whose earlier generic argument / member is not accepted is accepted all the same", facts.loc_of(r["fn"]))
    chk.floor(rule, len(rows), 1, "boolean accumulators in the assignability functions")
