"""C04 - accepted programs do not go wrong (no TypeError / AttributeError / NameError at run time).

Soundness of unification itself is not decided (ND). What is decided are the structural necessary conditions: the checker looks
at every piece of code, constrains every operator by the method Python will really call, rejects every unresolved name, and the
signatures it believes about built-ins are true of CPython.

R-C04-1  (syntax, traversal census A8) every child of an AST node taken apart in check::constrain::generate is handed to a visitor
         (a function that reaches `generate`), or the whole node is, or the arm rejects - except the reviewed rows of
         tables/c04_traversal.json (type positions, `None` cases, declarations). An unvisited child is code whose names and
         types are never checked.
R-C04-2  (constraint census, shared with R-C05-2) the set of constraint sites equals the reviewed table.
R-C04-3  (syntax) dispatch: `generate` has no wildcard; every variant it routes to a handler has an explicit arm there (or the
         handler's wildcard rejects); the pass-through variants are the reviewed ones.
R-C04-4  (chain + table) operators are typed by the method Python calls: for every `gen_magic(M, ast, recv, arg)` arm the
         variant's printed Python operator (Node -> NodeTy -> Core -> printer template) is the operator whose protocol method is M
         in Python's data model, with the same receiver; literals are typed by the class of the literal Python evaluates
         (`gen_primitive`); every operand of every other operator arm is constrained or the arm is a reviewed exception.
R-C04-5  (MIR, Ok-path) name resolution is strict: an identifier that is not None/True/False, not being defined or deleted and
         not in the environment is an error; the five lookups (class, function, field, Class::field, Class::fun) return an error
         on every path on which the search found nothing; field/function access looks up every member of a union.
R-C04-7  (field-flow + syntax, shared with R-C09-3) no AttributeError from a field read before the constructor assigned it.
R-C04-8  (syntax, shared with R-C20-5) the boolean accumulators of the functions that decide assignability are monotone.
R-C04-6  (tables) the bundled stubs are true of CPython 3.10 (tables/python_stub_oracle.json, extracted once with
         tools/gen_py_oracle.py): every stubbed method exists on the real class, every argument class a stub accepts is one for
         which the real operator does not raise TypeError, and the declared result class covers every real result class.
"""
import glob
import os
import re
from collections import Counter
from .common import is_node_scrutinee, ast_params, walk, src, strip, AnchorError, load_table, pat_alternatives, tail_expr, idents_in, must_call_blocks
from . import traverse, chain, printer
from .c05 import census_check

GEN = "check::constrain::generate"
PASS_THROUGH = {
    "Import": "binds names; no expression inside",
    "Generic": "generic parameter declaration (type position)",
    "Parent": "parent declaration inside a class header; its arguments are finding D27",
    "DocStr": "documentation literal",
    "Underscore": "placeholder pattern",
}
# Python data model: operator -> (protocol method, which operand is the receiver)
PY_OPERATOR_METHOD = {
    "+": ("__add__", "left"), "-": ("__sub__", "left"), "*": ("__mul__", "left"), "/": ("__truediv__", "left"), "//": ("__floordiv__", "left"),
    "%": ("__mod__", "left"), "**": ("__pow__", "left"), "<": ("__lt__", "left"), "<=": ("__le__", "left"), ">": ("__gt__", "left"),
    ">=": ("__ge__", "left"), "==": ("__eq__", "left"), "!=": ("__ne__", "left"), "in": ("__contains__", "right"), "[]": ("__getitem__", "left"),
}
# class of the value Python builds for a literal of this variant (None: decided by the guard, see ENum)
PY_LITERAL_CLASS = {"Int": "Int", "Real": "Float", "Str": "Str", "Range": "Range", "Slice": "Slice"}
# operator arms that do not go through gen_magic: which constraint each operand must get. `truthy`: Constraint::truthy(operand);
# `any`: only required to be an expression (Python defines the operator for every object: `is`, or the result is not used
# as a number); None: reviewed as unconstrained
OTHER_OPERATORS = {
    "Not": {"expr": "truthy"}, "And": {"left": "truthy", "right": "truthy"}, "Or": {"left": "truthy", "right": "truthy"},
    "Is": {"left": None, "right": None}, "IsN": {"left": None, "right": None},
    "IsA": {"left": None, "right": "class"}, "IsNA": {"left": None, "right": "class"},
    "Sqrt": {"expr": "access:sqrt"},
    "AddU": {"expr": "numeric"}, "SubU": {"expr": "numeric"},
    "BOneCmpl": {"expr": "weak"}, "BAnd": {"left": "weak", "right": "weak"}, "BOr": {"left": "weak", "right": "weak"}, "BXOr": {"left": "weak", "right": "weak"},
    "BLShift": {"left": "weak", "right": "int"}, "BRShift": {"left": "weak", "right": "int"},
}


def run(chk, facts):
    syn = facts.syn
    chk.rule("R-C04-1", "every AST child taken apart by the constraint generator is visited, delegated, rejected or a reviewed row")
    chk.rule("R-C04-2", "constraint census equals the reviewed table")
    chk.rule("R-C04-3", "generate dispatches every variant to a handler arm; pass-through variants are the reviewed ones")
    chk.rule("R-C04-4", "operators are typed by the protocol method of the Python operator they are printed as; literals by their Python class")
    chk.rule("R-C04-5", "unresolved names are errors: match_id, the five lookups, union-wide access")
    chk.rule("R-C04-7", "fields are definitely assigned before use: unassigned join, `self.f` refused while unassigned, constructor must assign every non-nullable field (shared with R-C09-3)")
    chk.rule("R-C04-6", "bundled stubs agree with CPython 3.10: existence, accepted argument classes, result classes")

    _traversal(chk, facts)
    census_check(chk, facts, "R-C04-2")
    _dispatch(chk, facts)
    _operators(chk, facts)
    _names(chk, facts)
    _stubs(chk, facts)
    from .c09 import field_init
    field_init(chk, facts, "R-C04-7")
    chk.rule("R-C04-8", "the comparator: for-all / exists accumulators of the assignability functions are monotone (shared with R-C20-5); direction of unify_type (R-C05-4)")
    from .c20 import accumulators
    accumulators(chk, facts, "R-C04-8")
    chk.rule("R-C04-9", "no element is dropped before it is compared: every zip/take/skip in the checker is length-guarded or reviewed (shared census)")
    from .quant import truncation_census
    truncation_census(chk, facts, "R-C04-9")
    # ---------------- R-C04-10 ----------------
    # "We use sets to type check all possible execution paths": a constraint generated inside a branch has to reach every open set that
    # describes a path through that branch.  ConstrBuilder keeps one set per alternative and never merges sets again (invariant
    # inv:ConstrBuilder.constraints-never-shrinks); so once two sets are open (after the first if / match), a later branch point must still
    # add the constraints of its first branch to *all* of them.  Read off add_constr_map: which sets receive a constraint while `joined` is
    # false (i.e. between branch_point() and reset_branches())?
    chk.rule("R-C04-10", "constraints generated inside a branch reach every open constraint set (path) that runs through the branch")
    try:
        acm = syn.one_fn("add_constr_map", impl_of="ConstrBuilder")
        bp = syn.one_fn("branch_point", impl_of="ConstrBuilder")
        ifs = [n for n in walk(acm["body"]) if n.get("k") == "if" and src(strip(n["c"]), -30).replace(" ", "").strip("()") in ("self.joined", "!self.joined") and n.get("else") is not None]
        if len(ifs) != 1:
            raise AnchorError(f"add_constr_map: {len(ifs)} branches on self.joined")
        neg = src(strip(ifs[0]["c"]), -30).replace(" ", "").strip("()").startswith("!")
        not_joined = ifs[0]["then"] if neg else ifs[0]["else"]
        loops = [n for n in walk(not_joined) if n.get("k") in ("for", "while") or (n.get("k") == "mcall" and n["m"] in ("for_each", "iter_mut"))]
        single = [n for n in walk(not_joined) if n.get("k") == "index" and "self.constraints" in src(n["e"], -30)]
        unjoins = "self.joined=false" in src(bp["body"], -30).replace(" ", "")
        only_last = bool(single) and not loops and unjoins
        chk.ob("R-C04-10", "branch-constraints-reach-all-open-sets", not only_last,
               "constraints added between a branch point and the join reach every open set" if not only_last else
               "after branch_point() (joined = false) add_constr_map pushes a constraint to the last set only, and sets are never merged: once an earlier if / match has "
               "left two sets open, the first branch of a later one is checked against the last alternative of the earlier one only - some combinations of branches are never type checked",
               facts.loc_of(acm))
    except AnchorError as e:
        chk.anchor_fail("R-C04-10", e)
    from .c20 import true_grounds
    chk.rule("R-C20-3", "has_parent answers a literal `true` only on the class itself, Any, or an ancestor's answer (shared with C20)")
    true_grounds(chk, facts, "R-C20-3")
    # no crossed hand-over of same-named parameters in check:: (shared with C05)
    from . import c05 as _c05b
    from .common import borrow as _borrow
    _borrow(chk, facts, _c05b, ("R-C05-8|",), {"R-C05-8": "no call in check:: hands two parameters of its function crosswise to a callee whose parameters carry the same names (shared with C05)"})
    # the unifier accepts a pair of types only through the assignability relation (shared with C05 / C06)
    from . import c05 as _c05, c06 as _c06
    from .common import borrow
    borrow(chk, facts, _c06, ("R-C06-2|unify_type",), {"R-C06-2": "unify_type accepts a pair of types exactly when the left is a superset of the right, or one of them is Any as a whole (shared with C06)"})
    borrow(chk, facts, _c05, ("R-C05-4|",), {"R-C05-4": "unify_type asks the relation in the direction parent >= child (shared with C05)"})
    chk.assume("soundness of unification (substitution, `Any` accepts everything by design, generics) is not decided (ND); "
               "value-dependent errors (index out of range, division by zero) are outside the property")
    chk.notes.append("C04: traversal census, constraint census, dispatch, operator->protocol-method chain, strict lookups on MIR, stubs vs CPython table.")


# ------------------------------------------------------------------------------------------------------------------------
def _traversal(chk, facts):
    try:
        rows, vis = traverse.census(facts.syn)
    except AnchorError as e:
        chk.anchor_fail("R-C04-1", e)
        return
    table = load_table("c04_traversal.json")
    want = {(r["fn"], r["variant"], r["child"], r["status"]): r for r in table["rows"]}
    got = Counter((r["fn"], r["variant"], r["child"], r["status"]) for r in rows)
    n_vis = 0
    for k, n in sorted(got.items()):
        fn, variant, child, status = k
        key = f"{fn}|{variant}|{child}|{status}"
        if status in ("visited", "delegated"):
            n_vis += n
            chk.ob("R-C04-1", key, True, f"{fn}: {variant}.{child} is {status}")
            continue
        w = want.get(k)
        f = next((x for x in facts.syn.fns if x["name"] == fn and x["mod"].startswith(GEN)), None)
        loc = facts.loc_of(f) if f else None
        if w is None:
            chk.ob("R-C04-1", key, False,
                   f"{fn}: the `{variant}` arm does not hand `{child}` to any visitor ({'not bound by the pattern' if status == 'unbound' else 'bound but unused'}): "
                   f"names and types inside that child are never checked, so a program with an undefined name or a wrong type there is accepted", loc)
        elif n > w["count"]:
            chk.ob("R-C04-1", key, False, f"{fn}: {n} `{variant}` arms leave `{child}` unvisited, {w['count']} reviewed ({w['reason']})", loc)
        elif w["reason"].startswith("FINDING"):
            chk.ob("R-C04-1", key, False, f"{fn}: `{variant}.{child}` is never visited ({w['reason']})", loc)
        else:
            chk.ob("R-C04-1", key, True, f"{fn}: {variant}.{child} unvisited - reviewed: {w['reason']}")
    chk.floor("R-C04-1", n_vis, 270, "visited or delegated AST children")
    chk.floor("R-C04-1", len(vis), 20, "visitor functions")
    chk.sample({"rule": "R-C04-1", "visitors": sorted(vis), "rows": len(rows), "by_status": dict(Counter(r["status"] for r in rows))})


# ------------------------------------------------------------------------------------------------------------------------
def _handler_arms(fn):
    """variants with an explicit arm in the handler's top match on `&ast.node`, and whether its wildcard rejects"""
    ms = [n for n in walk(fn["body"]) if n.get("k") == "match" and is_node_scrutinee(n["e"])]
    if not ms:
        raise AnchorError(f"{fn['name']}: no match on &ast.node")
    m = ms[0]
    explicit, wild = set(), None
    for a in m["arms"]:
        for alt in pat_alternatives(a["pat"]):
            if alt.get("k") in ("pstruct", "ppath", "ptstruct"):
                explicit.add(alt["p"].split("::")[-1])
            elif alt.get("k") in ("pwild", "pident"):
                t = tail_expr(a["body"]) if a["body"].get("k") == "block" else a["body"]
                wild = "reject" if t is not None and src(t).startswith("Err(") else "accept"
    return explicit, wild


def _dispatch(chk, facts):
    syn = facts.syn
    try:
        g = syn.one_fn("generate", mod=GEN)
        variants = syn.enum_variants(traverse.NODE)
        ms = [n for n in walk(g["body"]) if n.get("k") == "match" and is_node_scrutinee(n["e"])]
        if len(ms) != 1:
            raise AnchorError(f"generate: {len(ms)} matches on &ast.node")
        routed = {}
        wild = False
        for a in ms[0]["arms"]:
            t = tail_expr(a["body"]) if a["body"].get("k") == "block" else a["body"]
            callee = None
            if t is not None and t.get("k") == "call" and t["f"].get("k") == "path":
                callee = t["f"]["p"].split("::")[-1]
                passes_ast = any(src(strip(x)) in ast_params(g) for x in t["args"])
            for alt in pat_alternatives(a["pat"]):
                if alt.get("k") in ("pwild", "pident") and not alt.get("name", "_")[:1].isupper():
                    wild = True
                    continue
                v = alt["p"].split("::")[-1] if alt.get("p") else alt.get("name")
                if v not in variants:
                    continue
                if callee in ("Ok",):
                    routed[v] = None
                elif callee == "gen_vec":
                    routed[v] = "gen_vec"
                elif callee and passes_ast:
                    routed[v] = callee
                else:
                    routed[v] = "?" + src(t)[:40]
        loc = facts.loc_of(g)
        chk.ob("R-C04-3", "generate:no-wildcard", not wild, "generate matches every Node variant explicitly" if not wild else
               "generate has a wildcard arm: a new or re-routed variant is silently accepted without constraints", loc)
        missing = sorted(set(variants) - set(routed))
        chk.ob("R-C04-3", "generate:all-variants", not missing, f"all {len(variants)} Node variants are routed" if not missing else f"variants not routed by generate: {missing}", loc)
        handlers = {}
        for v, h in sorted(routed.items()):
            if h is None:
                ok = v in PASS_THROUGH
                chk.ob("R-C04-3", f"pass-through:{v}", ok, f"{v} is accepted without constraints - reviewed: {PASS_THROUGH.get(v)}" if ok else
                       f"generate accepts `{v}` without looking at it (`Ok(env.clone())`): everything inside is unchecked", loc)
                continue
            if h == "gen_vec":
                chk.ob("R-C04-3", f"route:{v}", True, f"{v} -> gen_vec over its statements")
                continue
            if h.startswith("?"):
                chk.ob("R-C04-3", f"route:{v}", False, f"generate handles `{v}` by `{h[1:]}`: not a handler call on the node", loc)
                continue
            if h not in handlers:
                hf = [f for f in syn.find_fn(h) if f["mod"].startswith(GEN)]
                if len(hf) != 1:
                    raise AnchorError(f"handler {h}: {len(hf)} definitions")
                handlers[h] = _handler_arms(hf[0])
            explicit, hw = handlers[h]
            ok = v in explicit or hw == "reject"
            chk.ob("R-C04-3", f"route:{v}", ok, f"{v} -> {h}" + ("" if v in explicit else " (no arm: rejected by the wildcard)") if ok else
                   f"generate routes `{v}` to {h}, which has no arm for it and whose wildcard accepts: the node is never constrained", loc)
        for v in PASS_THROUGH:
            if routed.get(v, "x") is not None:
                chk.ob("R-C04-3", f"pass-through:{v}", True, f"{v} is no longer passed through (now routed to {routed.get(v)})")
        chk.floor("R-C04-3", len(routed), 80, "routed Node variants")
    except AnchorError as e:
        chk.anchor_fail("R-C04-3", e)


# ------------------------------------------------------------------------------------------------------------------------
def _const(syn, name):
    for q in ("check::context::function::python::" + name, "check::context::function::" + name, "check::context::clss::" + name):
        c = syn.consts.get(q)
        if c is not None and c["e"].get("k") == "lit":
            return c["e"]["v"]
    return None


def _py_operator(pm, core_variant):
    """the Python operator a Core variant is printed as, and its operand fields in print order"""
    arms = pm.arms_of(core_variant)
    if len(arms) != 1:
        return None, None
    a = arms[0]
    holes = [h[2].get("field") for h in a.holes()]
    t = a.text()
    m = re.fullmatch(r"\{\w+\} (\S+) \{\w+\}", t)
    if m and len(holes) == 2:
        return m.group(1), holes
    m = re.fullmatch(r"\{\w+\}\[\{\w+\}\]", t)
    if m and len(holes) == 2:
        return "[]", holes
    return "text:" + t, holes


def _operators(chk, facts):
    syn = facts.syn
    try:
        pm = printer.PrinterModel(facts)
        n2t, _ = chain.node_to_nodety(facts)
        t2c, _ = chain.nodety_to_core(facts)
        go = syn.one_fn("gen_op", mod=GEN + "::operation")
        gc = syn.one_fn("gen_call", mod=GEN + "::call")
        loc = facts.loc_of(go)
        n_magic = 0
        seen_other = set()
        for fn in (go, gc):
            ms = [n for n in walk(fn["body"]) if n.get("k") == "match" and is_node_scrutinee(n["e"])]
            if not ms:
                raise AnchorError(f"{fn['name']}: no match on &ast.node")
            for a in ms[0]["arms"]:
                body = a["body"]
                t = tail_expr(body) if body.get("k") == "block" else body
                alts = [alt for alt in pat_alternatives(a["pat"]) if alt.get("k") in ("pstruct", "ppath", "ptstruct")]
                magic = t if t is not None and t.get("k") == "call" and t["f"].get("k") == "path" and t["f"]["p"].split("::")[-1] == "gen_magic" else None
                for alt in alts:
                    v = alt["p"].split("::")[-1]
                    bound = {}
                    if alt.get("k") == "pstruct":
                        for fname, fp in alt["fields"]:
                            for m in walk(fp):
                                if m.get("k") == "pident":
                                    bound[m["name"]] = fname
                    if magic is not None:
                        n_magic += 1
                        args = magic["args"]
                        a0 = strip(args[0])
                        for _ in range(3):   # `let method = MUL;` in the arm
                            if a0.get("k") == "path" and "::" not in a0["p"]:
                                ls = [n for n in walk(body) if n.get("k") == "local" and n.get("init") is not None and src(n["pat"]) == a0["p"]]
                                if len(ls) == 1:
                                    a0 = strip(ls[0]["init"])
                                    continue
                            break
                        cname = src(a0).split("::")[-1]
                        method = _const(syn, cname)
                        recv = bound.get(src(strip(args[2])))
                        arg = bound.get(src(strip(args[3])))
                        tv = chain.unique_target(n2t, v)
                        cv = chain.unique_target(t2c, tv) if tv else None
                        op, holes = _py_operator(pm, cv) if cv else (None, None)
                        want = PY_OPERATOR_METHOD.get(op)
                        key = f"magic:{v}"
                        if want is None:
                            chk.ob("R-C04-4", key, False, f"{v}: typed through `{method}` but printed as `{op}` (Core::{cv}): no Python operator protocol known for that", facts.loc_of(fn))
                            continue
                        wmethod, wside = want
                        # receiver must be the operand printed on the receiver side of the Python operator
                        recv_field_printed = holes[0] if wside == "left" else holes[1]
                        arg_field_printed = holes[1] if wside == "left" else holes[0]
                        ok = method == wmethod and recv == recv_field_printed and arg == arg_field_printed
                        chk.ob("R-C04-4", key, ok,
                               f"{v} is printed as `{op}` and typed by `{recv}.{method}({arg})`" if ok else
                               f"{v} is printed as Python `{op}` (Python calls `{recv_field_printed}.{wmethod}({arg_field_printed})`) but the checker types it by `{recv}.{method}({arg})`: "
                               f"operands the checker accepts can raise TypeError at run time", facts.loc_of(fn))
                    elif v in PY_LITERAL_CLASS or v == "ENum":
                        _literal(chk, facts, syn, fn, a, v, bound)
                    elif v in OTHER_OPERATORS and fn is go:
                        seen_other.add(v)
                        _other_operator(chk, facts, fn, a, v, bound)
        chk.floor("R-C04-4", n_magic, 15, "operator arms typed through gen_magic")
        missing = sorted(set(OTHER_OPERATORS) - seen_other)
        chk.ob("R-C04-4", "other-operators-present", not missing, "every reviewed non-magic operator has its arm in gen_op" if not missing else f"gen_op has no arm for {missing}", loc)
        # gen_magic itself, by what it builds (whether through the helper `access(..)`, inline, or via named intermediates):
        # both operands are visited, and the node is constrained by  Access { entity: left, name: Function { name: fun, args: [left, right] } }
        gm = syn.one_fn("gen_magic", mod=GEN + "::operation")
        from . import symeval
        se = symeval.SymEval(syn, GEN)
        # the parameters by position, whatever they are called: (fun, ast, left, right, env, ctx, constr)
        pn_gm = [i_.get("pat", {}).get("name") for i_ in gm["sig"]["inputs"]]
        canon_gm = ("fun", "ast", "left", "right", "env", "ctx", "constr")
        if len(pn_gm) != len(canon_gm) or None in pn_gm:
            raise AnchorError("gen_magic: parameter list changed")
        env0 = {a_: ("var", c_) for a_, c_ in zip(pn_gm, canon_gm)}
        left_n, right_n = pn_gm[2], pn_gm[3]
        adds = [n for n in walk(gm["body"]) if n.get("k") == "mcall" and n["m"] == "add" and len(n["args"]) == 4]
        visits = [n for n in walk(gm["body"]) if n.get("k") == "call" and n["f"].get("k") == "path" and n["f"]["p"].split("::")[-1] in ("gen_vec", "generate", "bin_op")]
        vis_ids = set()
        for v_ in visits:
            vis_ids |= idents_in(v_)
        ok_vis = {left_n, right_n} <= vis_ids
        ok_acc = False
        shown = "-"
        if len(adds) == 1:
            # evaluate inside the function's own let-environment
            envb = dict(env0)
            for st_ in gm["body"]["stmts"]:
                if st_.get("k") == "local" and st_.get("init") is not None and st_["pat"].get("k") == "pident":
                    envb[st_["pat"]["name"]] = se.ev(st_["init"], envb)
            par = se.ev(adds[0]["args"][1], envb)
            chv = se.ev(adds[0]["args"][2], envb)
            shown = symeval.show(chv)[:160]
            FROM = lambda x: ("call", "Expected::from", [("var", x)])
            def expected_new(v_):
                return v_[2][1] if v_[0] == "call" and v_[1] == "Expected::new" and len(v_[2]) == 2 else None
            acc = expected_new(chv)
            if par == FROM("ast") and acc and acc[0] == "core" and acc[1].endswith("Access") and acc[2].get("entity") == FROM("left"):
                fnv = expected_new(acc[2].get("name", ("?",)))
                if fnv and fnv[0] == "core" and fnv[1].endswith("Function") and fnv[2].get("args") == ("list", [FROM("left"), FROM("right")]):
                    nm = fnv[2].get("name")
                    ok_acc = nm in (("call", "StringName::from", [("var", "fun")]), ("var", "fun")) or (nm and "fun" in repr(nm))
        chk.ob("R-C04-4", "gen_magic:shape", ok_vis and ok_acc, "gen_magic visits both operands and constrains the node by Access(left).Function(fun, [left, right])" if ok_vis and ok_acc else
               f"gen_magic no longer constrains the node by `left.fun(left, right)` (visits both operands: {ok_vis}; child of the constraint: {shown})", facts.loc_of(gm))
    except AnchorError as e:
        chk.anchor_fail("R-C04-4", e)


def _literal(chk, facts, syn, fn, arm, v, bound):
    """gen_primitive(ast, CLASS, ..) in the arm: CLASS must be the class of the Python literal"""
    calls = [n for n in walk(arm["body"]) if n.get("k") == "call" and n["f"].get("k") == "path" and n["f"]["p"].split("::")[-1] == "gen_primitive"]
    loc = facts.loc_of(fn)
    if len(calls) != 1:
        chk.ob("R-C04-4", f"literal:{v}", False, f"{v}: {len(calls)} gen_primitive calls in the arm (the literal is not given its class)", loc)
        return
    a1 = strip(calls[0]["args"][1])
    if v == "ENum":
        # (num * 10 ** exp): an int iff the mantissa has no fraction
        s = src(arm["body"]).replace(" ", "")
        m = re.search(r"if\(*(.*?)\)*\{FLOAT\}else\{INT\}", s)
        tests = set(re.sub(r"[()]", "", m.group(1)).split("||")) if m else set()
        # does the lexer let an exponent be negative?  (`'-' if e_num ..` arm of the number loop)
        tk = syn.one_fn("into_tokens", mod="parse::lex::tokenize")
        neg_exp = any(a.get("guard") and "e_num" in src(a["guard"]) and any(alt.get("k") == "plit" and alt["e"].get("v") == "-" for alt in pat_alternatives(a["pat"]))
                      for n in walk(tk["body"]) if n.get("k") == "match" for a in n["arms"])
        want = {"num.contains'.'"} | ({"exp.starts_with'-'"} if neg_exp else set())
        ok = m is not None and want <= tests and tests <= {"num.contains'.'", "exp.starts_with'-'"}
        chk.ob("R-C04-4", "literal:ENum", ok, "ENum is a Float when its mantissa has a fraction" + (" or its exponent is negative" if neg_exp else "") + ", else an Int (printed as `(num * 10 ** exp)`)" if ok else
               f"ENum is typed FLOAT under `{sorted(tests)}` but `(num * 10 ** exp)` is a Python float exactly when {sorted(want)}: e.g. `1.5E3` / `1E-3` must not be typed Int", loc)
        return
    cname = src(a1).split("::")[-1]
    val = _const(syn, cname)
    ok = val == PY_LITERAL_CLASS[v]
    chk.ob("R-C04-4", f"literal:{v}", ok, f"{v} literal is typed {val}" if ok else f"{v} literal is typed `{val}`; Python builds a {PY_LITERAL_CLASS[v]}", loc)


def _other_operator(chk, facts, fn, arm, v, bound):
    loc = facts.loc_of(fn)
    body = arm["body"]
    s = src(body).replace(" ", "")
    for field, need in OTHER_OPERATORS[v].items():
        names = [n for n, f in bound.items() if f == field]
        key = f"operand:{v}.{field}"
        if not names:
            chk.ob("R-C04-4", key, False, f"{v}: operand `{field}` is not bound by the arm", loc)
            continue
        nm = names[0]
        truthy = f"Constraint::truthy(" in s and re.search(r"Constraint::truthy\([^)]*Expected::from\(" + nm + r"\)", s) is not None
        constrained = "constr.add(" in s and ("Expected::from(" + nm + ")") in s
        access = re.search(r"entity:Box::(new|from)\(Expected::from\(" + nm + r"\)\)", s) is not None
        klass = re.search(r"ctx\.class\(", s) is not None and "TrueName::try_from(" + nm + ")" in s
        if need == "truthy":
            ok, what = truthy, "must be truthy (Constraint::truthy)"
        elif need == "class":
            ok, what = klass, "must name a class of the context"
        elif need == "access:sqrt":
            ok, what = access and "StringName::from(SQRT)" in s, "must define sqrt (Access constraint)"
        elif need == "int":
            ok, what = constrained and "Name::from(INT)" in s, "must be an Int"
        elif need == "weak":
            ok, what = constrained, "must be an expression (weak: constrained against Any only)"
        elif need == "numeric":
            ok, what = (constrained or access), "must define the unary operator"
        else:
            ok, what = True, "unconstrained by design (defined for every object)"
        if ok:
            chk.ob("R-C04-4", key, True, f"{v}.{field} {what}")
        else:
            chk.ob("R-C04-4", key, False, f"{v}: operand `{field}` {what} but the arm adds no such constraint: any operand type is accepted", loc)


# ------------------------------------------------------------------------------------------------------------------------
LOOKUPS = [
    ("LookupClass<&check::name::string_name::StringName, check::context::clss::Class> for check::context::Context>::class", "Context::class(&StringName)"),
    ("LookupFunction<&check::name::string_name::StringName, check::context::function::Function> for check::context::Context>::function", "Context::function"),
    ("LookupField<&str, check::context::field::Field> for check::context::Context>::field", "Context::field"),
    ("GetField<check::context::field::Field>>::field", "Class::field"),
    ("GetFun<check::context::function::Function>>::fun", "Class::fun"),
]


def _names(chk, facts):
    syn, mir = facts.syn, facts.mir
    # (a) match_id
    try:
        from .c09 import match_id_paths
        match_id_paths(chk, facts, "R-C04-5")
        # the Id arm of gen_expr goes to match_id; its other arm (`_ => Ok(env.clone())`) is reached only for non-Id nodes
        ge = syn.one_fn("gen_expr", mod=GEN + "::expression")
        ok = False
        for n in walk(ge["body"]):
            if n.get("k") == "match":
                for a in n["arms"]:
                    if any(alt.get("p", "").split("::")[-1] == "Id" for alt in pat_alternatives(a["pat"])) and not a.get("guard"):
                        t = tail_expr(a["body"]) if a["body"].get("k") == "block" else a["body"]
                        ok = t is not None and t.get("k") == "call" and src(t["f"]) == "match_id" and src(strip(t["args"][0])) in ast_params(ge)
                break
        chk.ob("R-C04-5", "gen_expr:Id->match_id", ok, "gen_expr sends identifiers to match_id" if ok else "gen_expr no longer sends `Node::Id` to match_id", facts.loc_of(ge))
    except AnchorError as e:
        chk.anchor_fail("R-C04-5", e)
    # (b) function call: print | variable in env | ctx.function(..)?
    try:
        gc = syn.one_fn("gen_call", mod=GEN + "::call")
        arm = None
        for n in walk(gc["body"]):
            if n.get("k") == "match":
                for a in n["arms"]:
                    if any(alt.get("p", "").endswith("FunctionCall") for alt in pat_alternatives(a["pat"])):
                        arm = a
                        break
            if arm:
                break
        if arm is None:
            raise AnchorError("gen_call: FunctionCall arm not found")
        s = src(arm["body"]).replace(" ", "")
        ifs = [n for n in walk(arm["body"]) if n.get("k") == "if" and "function::PRINT" in src(n["c"])]
        ok = False
        if len(ifs) == 1:
            n = ifs[0]
            el = n.get("else")
            if el is not None and el.get("k") == "block" and len(el["stmts"]) == 1:
                el = strip(el["stmts"][0].get("e", {}))
            ok = el is not None and el.get("k") == "if" and "env.get_var(&f_name.name" in src(el["c"]).replace(" ", "") and el.get("else") is not None \
                and "ctx.function(&f_name,ast.pos)?" in src(el["else"]).replace(" ", "")
        chk.ob("R-C04-5", "call:resolution", ok, "a called name is print, a variable of the environment, or must be a function/class of the context (`ctx.function(..)?`)" if ok else
               "the FunctionCall arm of gen_call no longer falls back to `ctx.function(&f_name, ..)?`: a call of an undefined function is accepted", facts.loc_of(gc))
    except AnchorError as e:
        chk.anchor_fail("R-C04-5", e)
    # (c) the five lookups on MIR: every path on which no `find` succeeded ends in an error
    for suffix, label in LOOKUPS:
        bs = [b for b in mir.fns.values() if b.path.endswith(suffix)]
        if len(bs) != 1:
            chk.anchor_fail("R-C04-5", f"lookup {label}: {len(bs)} MIR bodies")
            continue
        b = bs[0]
        finds = [(bb, t) for bb, t in b.calls() if t.callee.split("::")[-1] == "find" and "Iterator" in t.callee]
        some_targets = set()
        for bb, t in finds:
            L = t.dst.local
            holders = {L}
            for bb2 in b.bbs:
                if bb2.cleanup:
                    continue
                for st in bb2.stmts:
                    if st.rv == "Discriminant" and st.ops and st.ops[0].place is not None and st.ops[0].place.local in holders and bb2.term.k == "switch":
                        for val, tgt in bb2.term.targets:
                            if val == 1:
                                some_targets.add(tgt)
        if finds and not some_targets:
            # `.. .find(..).cloned().ok_or_else(|| error)` returned as it is: nothing found is an error by what `ok_or(_else)` does
            holders = {t.dst.local for _, t in finds}
            via_ok_or = False
            for _ in range(4):
                for bb2, t2 in b.calls():
                    if t2.args and t2.args[0].place is not None and t2.args[0].place.local in holders and not t2.args[0].place.proj:
                        if re.search(r"Option::<&?(mut )?T>::(cloned|copied|as_ref|map|inspect)$", t2.callee):
                            holders.add(t2.dst.local)
                        elif re.search(r"Option::<T>::(ok_or_else|ok_or)$", t2.callee) and t2.dst.local == 0 and not t2.dst.proj:
                            via_ok_or = True
            if via_ok_or:
                chk.ob("R-C04-5", f"lookup:{label}", True, f"{label}: the result of the search is returned through `ok_or(_else)`: nothing found is an error ({len(finds)} find call(s))", f"{b.file}:{b.line}")
                continue
        if not finds or not some_targets:
            chk.ob("R-C04-5", f"lookup:{label}", False, f"{label}: no `find` whose result is tested (the rule no longer sees the lookup)", f"{b.file}:{b.line}")
            continue
        holds, path = must_call_blocks(b, 0, lambda t: False, extra_block=some_targets)
        chk.ob("R-C04-5", f"lookup:{label}", holds, f"{label}: when the search finds nothing every path returns an error ({len(finds)} find call(s))" if holds else
               f"{label}: there is a path that returns Ok although the search found nothing (blocks {path}): an undefined class/function/field is accepted",
               f"{b.file}:{b.line}")
    # (d) access constraints look up every member of the union
    for name, need in (("field_access", ("LookupClass", "GetField")), ("function_access", ("LookupClass", "GetFun", "unify_fun_arg"))):
        bs = [b for b in mir.fns.values() if b.path == "check::constrain::unify::function::" + name]
        if len(bs) != 1:
            chk.anchor_fail("R-C04-5", f"{name}: {len(bs)} MIR bodies")
            continue
        b = bs[0]
        loops = b.natural_loops()
        if len(loops) != 1:
            chk.anchor_fail("R-C04-5", f"{name}: {len(loops)} loops (expected the one over entity_name.names)")
            continue
        header, blocks = loops[0]
        # body entry: the Some target of the switch on the iterator's next()
        entry = None
        for i in sorted(blocks):
            bb = b.bbs[i]
            if bb.term.k == "switch":
                for st in bb.stmts:
                    if st.rv == "Discriminant":
                        for val, tgt in bb.term.targets:
                            if val == 1 and tgt in blocks:
                                entry = tgt
                if entry is not None:
                    break
        if entry is None:
            chk.anchor_fail("R-C04-5", f"{name}: loop body entry not found")
            continue
        errs = b.error_exit_blocks()
        for nd in need:
            targets = {bb.idx for bb, t in b.calls() if nd in t.callee and bb.idx in blocks}
            # is the header reachable from the entry inside the loop avoiding the target calls?
            seen, stack, bad = {entry}, [entry], False
            while stack:
                x = stack.pop()
                if x in targets or x in errs:
                    continue
                for sx in b.succs(x):
                    if sx == header:
                        bad = True
                    if sx in blocks and sx not in seen and not b.bbs[sx].cleanup:
                        seen.add(sx)
                        stack.append(sx)
            ok = bool(targets) and not bad
            chk.ob("R-C04-5", f"{name}:each-member:{nd}", ok, f"{name}: every member of the receiver's union goes through {nd}" if ok else
                   f"{name}: a member of the receiver's union can skip {nd}: the attribute is not looked up on every possible class of the receiver", f"{b.file}:{b.line}")
        # empty union is an error
        s = syn.one_fn(name, mod="check::constrain::unify::function")
        from .common import error_guards
        ok = "entity_name.is_empty()" in error_guards(syn, s)
        chk.ob("R-C04-5", f"{name}:empty-receiver", ok, f"{name}: a receiver without a type is an error" if ok else f"{name}: the empty-receiver guard is gone (an access on nothing is vacuously accepted)", facts.loc_of(s))


# ------------------------------------------------------------------------------------------------------------------------
INTERNAL_METHODS = {"sqrt": "`sqrt` is a keyword: it can only be written as the prefix operator, which is printed as math.sqrt(x); never a method call"}
# per-symbol reviewed exceptions to "exists in CPython"
PROTOCOL_MARKERS = {
    ("list", "__bool__"): "truthiness marker read by Constraint::truthy; Python's truth test works on every object (len), only a literal `l.__bool__()` call would fail",
    ("set", "__bool__"): "truthiness marker read by Constraint::truthy; Python's truth test works on every object (len), only a literal `s.__bool__()` call would fail",
}
TYPE_VARS = {"T", "R", "A", "B"}


def scan_stubs(repo):
    """the stubs are Python-like, not Python (`in` as a parameter name, `class None`): scanned line by line.
    -> {class: {"parents": [..], "methods": {name: (params [(name, [types] or None)], ret)}, "fields": {name: type}}}"""
    out = {}
    files = sorted(glob.glob(os.path.join(repo, "src/check/resource/*/*.py")))
    for p in files:
        cur = None
        for line in open(p):
            if line.lstrip().startswith("#"):
                continue
            m = re.match(r"class (\w+)(?:\((.*)\))?:", line)
            if m:
                parents = [x.strip() for x in _split_top(m.group(2) or "")]
                cur = out.setdefault(m.group(1), {"parents": [re.sub(r"\[.*", "", x) for x in parents if not x.startswith("Generic")], "methods": {}, "fields": {}, "file": os.path.relpath(p, repo)})
                continue
            m = re.match(r"\s+def (\w+)\((.*)\)\s*(?:->\s*(.+?))?\s*:\s*(pass|return .*)?\s*$", line)
            if m and cur is not None:
                params = []
                for prm in _split_top(m.group(2)):
                    prm = prm.strip()
                    if not prm or prm == "self":
                        continue
                    mm = re.match(r"(\w+)\s*(?::\s*([^=]+?))?\s*(?:=\s*(.+))?$", prm)
                    if not mm:
                        params.append((prm, None, False))
                        continue
                    ann = mm.group(2)
                    tys = None
                    if ann:
                        u = re.match(r"Union\[(.*)\]$", ann.strip())
                        tys = [x.strip() for x in _split_top(u.group(1))] if u else [ann.strip()]
                    params.append((mm.group(1), tys, mm.group(3) is not None))
                cur["methods"][m.group(1)] = (params, m.group(3).strip() if m.group(3) else None)
                continue
            m = re.match(r"\s+(\w+)\s*:\s*(\w+)", line)
            if m and cur is not None:
                cur["fields"][m.group(1)] = m.group(2)
    return out, files


def _split_top(s):
    out, depth, cur = [], 0, ""
    for ch in s:
        if ch == "[":
            depth += 1
        elif ch == "]":
            depth -= 1
        if ch == "," and depth == 0:
            out.append(cur)
            cur = ""
        else:
            cur += ch
    if cur.strip():
        out.append(cur)
    return out


def _stubs(chk, facts):
    from .common import REPO
    repo = os.environ.get("MAMBA_REPO", REPO)
    oracle = load_table("python_stub_oracle.json")["classes"]
    stubs, files = scan_stubs(repo)
    if len(files) < 10:
        chk.anchor_fail("R-C04-6", f"only {len(files)} stub files under src/check/resource")
        return

    def ancestors(c):
        seen, todo = set(), [c]
        while todo:
            x = todo.pop()
            if x in seen:
                continue
            seen.add(x)
            todo.extend(stubs.get(x, {}).get("parents", []))
        return seen

    def covers(declared, real):
        """does the declared stub class cover a value of the real class (same, or real is a stub subclass of declared)"""
        declared = re.sub(r"\[.*", "", declared)
        return declared == real or declared in ancestors(real) or declared in TYPE_VARS and real == "int"

    n_methods = 0
    for cname, c in sorted(stubs.items()):
        oc = oracle.get(cname)
        loc = c["file"]
        if oc is None:
            chk.ob("R-C04-6", f"class:{cname}", True, f"{cname}: no CPython counterpart in the table (abstract or typing-only): not compared")
            continue
        for fname in sorted(c["fields"]):
            ok = fname in oc["attributes"]
            chk.ob("R-C04-6", f"attr:{cname}.{fname}", ok, f"{cname}.{fname} exists" if ok else f"stub field {cname}.{fname} is not an attribute of the real class: reading it raises AttributeError", loc)
        for mname, (params, ret) in sorted(c["methods"].items()):
            n_methods += 1
            if mname in INTERNAL_METHODS:
                chk.ob("R-C04-6", f"attr:{cname}.{mname}", True, f"{cname}.{mname}: {INTERNAL_METHODS[mname]}")
                continue
            if (cname, mname) in PROTOCOL_MARKERS:
                chk.ob("R-C04-6", f"attr:{cname}.{mname}", True, f"{cname}.{mname}: {PROTOCOL_MARKERS[(cname, mname)]}")
                continue
            # an operator protocol method "exists" when the operator works on the class (reflected / fallback protocols count)
            ok = mname in oc["attributes"] or bool(oc["binary"].get(mname)) or bool(oc["unary"].get(mname))
            chk.ob("R-C04-6", f"attr:{cname}.{mname}", ok, f"{cname}.{mname} exists in CPython" if ok else
                   f"stub method {cname}.{mname} is not an attribute of Python's {cname}: a call the checker accepts raises AttributeError", loc)
            if not ok:
                continue
            if mname in oc["binary"] and len(params) >= 1 and params[0][1] is not None:
                acc = oc["binary"][mname]
                for t in params[0][1]:
                    t0 = re.sub(r"\[.*", "", t)
                    if t0 in TYPE_VARS:
                        continue
                    if t0 not in oracle or t0 not in ("int", "float", "complex", "bool", "str", "slice", "list", "set", "Tuple", "dict", "None", "range"):
                        continue
                    ok = t0 in acc
                    chk.ob("R-C04-6", f"arg:{cname}.{mname}:{t0}", ok, f"{cname}.{mname} accepts {t0} in CPython" if ok else
                           f"the stub lets {cname}.{mname} take a {t0}; in CPython that operation raises TypeError", loc)
                    if ok and ret is not None and mname != "__init__":
                        bad = [r for r in acc[t0] if not covers(ret, r)]
                        chk.ob("R-C04-6", f"ret:{cname}.{mname}:{t0}", not bad, f"{cname}.{mname}({t0}) -> {ret} covers {acc[t0]}" if not bad else
                               f"the stub declares {cname}.{mname}({t0}) -> {ret}, CPython can return {bad}: the result is used at the wrong type", loc)
            elif mname in oc["unary"] and not params and ret is not None:
                if re.sub(r"\[.*", "", ret) not in stubs:
                    chk.ob("R-C04-6", f"ret:{cname}.{mname}", True, f"{cname}.{mname} -> {ret}: no such stub class, every use is rejected (conservative)")
                    continue
                bad = [r for r in oc["unary"][mname] if not covers(ret, r)]
                chk.ob("R-C04-6", f"ret:{cname}.{mname}", not bad, f"{cname}.{mname}() -> {ret} covers {oc['unary'][mname]}" if not bad else
                       f"the stub declares {cname}.{mname}() -> {ret}, CPython returns {bad}", loc)
    chk.floor("R-C04-6", n_methods, 90, "stub methods compared")
