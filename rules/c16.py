"""C16 - emitted modules are self-contained: generator-used names are imported once, at the top.

R-C16-1  (syntax, construction-site pairing A13) for every support name N (math; Optional, Union, Tuple, Callable, Any, NewType from
         typing; ABC, abstractmethod from abc) every place in generate:: that puts N into the output (a string literal or constant
         equal to N used for anything but the import call itself, including the printer's own `math.sqrt(`) is covered, in the same
         function, by an `add_import` / `add_from_import` of N from the right module that precedes it and runs whenever it runs
         (its enclosing conditions also enclose the use).
R-C16-2  (syntax) placement and uniqueness: `gen_arguments` prepends `imports()` - unfiltered - to the module's statements on both
         branches and returns the bare node only when no import was collected; `add_import` tests `contains` before pushing;
         `add_from_import` keeps one entry per module (a map keyed by the module) and tests `contains` before adding a name.
R-C16-4  (tables) every name the generator substitutes for a Mamba type name (`concrete_to_python`) is a Python builtin, or is
         covered by R-C16-1, or cannot occur because the context has no class of that name.
"""
import glob
import os
import re
from .common import walk, src, strip, AnchorError, load_table, REPO, pat_alternatives, tail_expr
from .c11 import parents_map

SUPPORT = {"math": None, "Optional": "typing", "Union": "typing", "Tuple": "typing", "Callable": "typing", "Any": "typing", "NewType": "typing", "Collection": "typing",
           "ABC": "abc", "abstractmethod": "abc"}


def _const_values(syn):
    vals = {}
    for name, c in syn.consts.items():
        e = c["e"]
        if e.get("k") == "lit" and e.get("t") == "str":
            vals[name] = e["v"]
    return vals


def _resolve(syn_consts, fn, e):
    """string value of a literal or constant path expression, else None"""
    e = strip(e)
    if e.get("k") == "lit" and e.get("t") == "str":
        return e["v"]
    if e.get("k") == "call" and e["f"].get("k") == "path" and e["f"]["p"] in ("String::from",) and len(e["args"]) == 1:
        return _resolve(syn_consts, fn, e["args"][0])
    if e.get("k") == "path":
        p = e["p"]
        last = p.split("::")[-1]
        # generate:: uses the python-side constants (check::context::clss::python::X) unless qualified with clss::
        cands = []
        if p.startswith("clss::"):
            cands = ["check::context::clss::" + p.split("clss::", 1)[1]]
        else:
            cands = ["check::context::clss::python::" + last, "check::context::function::python::" + last, last]
        for c in cands:
            if c in syn_consts:
                return syn_consts[c]
    return None


def run(chk, facts):
    syn = facts.syn
    chk.rule("R-C16-1", "every use of a support name is covered by a preceding import call of that name from the right module in the same function")
    chk.rule("R-C16-2", "imports are prepended unfiltered on both branches of gen_arguments; add_import / add_from_import de-duplicate")
    chk.rule("R-C16-4", "range of concrete_to_python is within Python builtins, covered support names, or names without a class in the context")
    consts = _const_values(syn)
    gen_fns = [f for f in syn.fns if f["mod"].startswith("generate") and f.get("body") and not f.get("derived") and f["mod"] != "generate::convert::state"]

    # ---------------- R-C16-1 ----------------
    n_use = 0
    n_imp = 0
    for fn in gen_fns:
        pm = None
        order = {id(n): i for i, n in enumerate(walk(fn["body"]))}
        imports = []   # (name, module, node)
        uses = []      # (name, node)
        import_arg_ids = set()
        for n in walk(fn["body"]):
            if n.get("k") == "mcall" and n["m"] in ("add_import", "add_from_import"):
                if n["m"] == "add_import" and len(n["args"]) == 1:
                    nm = _resolve(consts, fn, n["args"][0])
                    imports.append((nm, None, n))
                elif n["m"] == "add_from_import" and len(n["args"]) == 2:
                    imports.append((_resolve(consts, fn, n["args"][1]), _resolve(consts, fn, n["args"][0]), n))
                for a in n["args"]:
                    for x in walk(a):
                        import_arg_ids.add(id(x))
        for n in walk(fn["body"]):
            if id(n) in import_arg_ids:
                continue
            val = None
            if n.get("k") == "lit" and n.get("t") == "str":
                val = n["v"]
                # the printer's template text `math.sqrt(`
                if fn["name"] == "to_py" and val.startswith("math."):
                    val = "math"
            elif n.get("k") == "path" and "::" in n["p"] or (n.get("k") == "path" and n["p"].isupper()):
                val = _resolve(consts, fn, n)
            if val in SUPPORT:
                uses.append((val, n))
        if not imports and not uses:
            continue
        pm = parents_map(fn["body"])
        n_imp += len(imports)
        for nm, mod, node in imports:
            ok = nm in SUPPORT and SUPPORT[nm] == mod
            chk.ob("R-C16-1", f"import:{fn['qual']}|{mod}.{nm}", ok,
                   f"{fn['qual']} registers `{'from ' + mod + ' ' if mod else ''}import {nm}`" + ("" if ok else " - not a support name from its module (a wrong module makes the import fail at load time)"), facts.loc_of(fn))
        for val, node in uses:
            # comparisons (`other == clss::ANY`, match patterns) do not emit the name
            par, key = pm.get(id(node), (None, None))
            if par is not None and par.get("k") == "binary" and par["op"] in ("==", "!="):
                continue
            n_use += 1
            cover = None
            for nm, mod, inode in imports:
                if nm != val:
                    continue
                if order.get(id(inode), 1 << 30) < order.get(id(node), -1) and _conds(pm, inode) <= _conds(pm, node):
                    cover = inode
                    break
            if fn["name"] == "to_py" and val == "math":
                # printer side of Sqrt: paired with the construction site in convert_node
                cover = _sqrt_construction_covered(syn, consts)
                chk.ob("R-C16-1", "use:printer|math.sqrt", bool(cover), "the printer's `math.sqrt(` is paired with add_import(\"math\") where Core::Sqrt is built" if cover else
                       "Core::Sqrt is printed as `math.sqrt(..)` but the place that builds it does not register `import math` first", facts.loc_of(fn))
                continue
            chk.ob("R-C16-1", f"use:{fn['qual']}|{val}|{_ordinal(uses, node, val)}", cover is not None,
                   f"{fn['qual']}: `{val}` is emitted after registering its import" if cover is not None else
                   f"{fn['qual']} emits the name `{val}` but no import of it is registered before, on every path that reaches this place, in this function: "
                   "the module can use an unbound name", facts.loc_of(fn))
    chk.floor("R-C16-1", n_use, 6, "uses of support names in generate::")
    chk.floor("R-C16-1", n_imp, 6, "import registrations in generate::")

    # ---------------- R-C16-2 ----------------
    try:
        ga = syn.one_fn("gen_arguments", mod="generate")
        loc = facts.loc_of(ga)
        # Decided on the enumerated paths and on what happens to the list `imports()` returns - not on the shape of the match:
        #  (1) a bare node (no block built) is returned only on paths where the collected imports are known to be empty;
        #  (2) the list returned by imports() is used as it is: it is the *front* of the module's statements (receiver of `chain`, or
        #      the vector that is extended), and nothing that can drop, reorder or cut elements is applied to it.
        from .common import fn_paths, unwrap_ok
        from .c11 import parents_map as _pm
        paths = fn_paths(ga["body"])
        bare_unguarded = 0
        n_block = n_bare = 0
        for p_ in paths:
            if p_.result is None:
                continue
            r_ = unwrap_ok(p_.result)
            has_block = any(n.get("k") == "struct" and n["p"] == "Core::Block" for n in walk(r_)) or \
                any(n.get("k") == "struct" and n["p"] == "Core::Block" for ev in p_.events for n in walk(ev))
            if has_block:
                n_block += 1
                continue
            if src(strip(r_)).startswith("Err("):
                continue
            n_bare += 1
            emp = [pol if not c.startswith("!") else (not pol) for c, pol in p_.conds if re.fullmatch(r"!?\(?\w*import\w*\.is_empty\(\)\)?", c)]
            if not (emp and emp[-1]):
                bare_unguarded += 1
        ok23 = n_block >= 1 and bare_unguarded == 0
        imp_calls = [n for n in walk(ga["body"]) if n.get("k") == "mcall" and n["m"] == "imports" and not n["args"]]
        pm_ = _pm(ga["body"])
        BAD = {"filter", "filter_map", "retain", "take", "skip", "truncate", "dedup", "dedup_by_key", "sort", "sort_by", "sort_by_key", "sorted", "rev", "pop", "remove",
               "drain", "split_off", "take_while", "skip_while", "step_by", "unique", "swap_remove", "clear"}
        misuse = []
        for ic in imp_calls:
            # methods applied on the value (up the receiver chain)
            cur = ic
            while True:
                par, key = pm_.get(id(cur), (None, None))
                if par is None:
                    break
                if par.get("k") == "mcall" and key == "recv":
                    if par["m"] in BAD:
                        misuse.append(par["m"])
                    cur = par
                    continue
                if par.get("k") == "mcall" and key == "args":
                    # handed to a method as an argument: the imports land wherever that method puts them - behind what the receiver already
                    # holds (chain, extend, append) or at a computed place (splice, insert, extend_from_slice ..) - unless the receiver is a
                    # vector that was just created empty
                    recv_ = strip(par["recv"])
                    fresh = False
                    if recv_.get("k") == "path":
                        inits_ = [n for n in walk(ga["body"]) if n.get("k") == "local" and n.get("init") is not None and [x["name"] for x in walk(n["pat"]) if x.get("k") == "pident"] == [recv_["p"]]]
                        earlier = [n for n in walk(ga["body"]) if n.get("k") == "mcall" and src(strip(n["recv"])) == recv_["p"] and n is not par and n.get("ln", 0) < par.get("ln", 0)]
                        fresh = len(inits_) == 1 and src(strip(inits_[0]["init"]), -30).replace(" ", "") in ("Vec::new()", "::alloc::vec::Vec::new()", "vec![]") and not earlier
                    if not (fresh and par["m"] in ("extend", "append")):
                        misuse.append(f"imports() is an argument of .{par['m']}(..): it no longer comes first")
                if par.get("k") == "local":
                    # bound to a local: what is applied to that local later?
                    nm = [x["name"] for x in walk(par["pat"]) if x.get("k") == "pident"]
                    for n in walk(ga["body"]):
                        if n.get("k") == "mcall" and src(strip(n["recv"])) in nm and n["m"] in BAD:
                            misuse.append(n["m"])
                        if n.get("k") == "mcall" and n["m"] in ("chain", "extend", "append") and n["args"] and src(strip(n["args"][0])) in nm:
                            misuse.append(f"the imports are the argument of {n['m']}: they no longer come first")
                break
        # .. and imports() itself returns everything that was registered: nothing in it (or in a private helper it calls) drops or re-orders
        try:
            imf = syn.one_fn("imports", impl_of="Imports")
            from .common import local_helpers as _lh
            for f_ in [imf] + _lh(syn, imf):
                for n in walk(f_["body"]):
                    if n.get("k") == "mcall" and n["m"] in BAD:
                        misuse.append(f"Imports::imports applies .{n['m']}(..) to the registered imports")
        except AnchorError as e_:
            misuse.append(str(e_))
        ok1 = len(imp_calls) >= 1 and not misuse
        chk.ob("R-C16-2", "gen_arguments:block", ok1, "the module's statements start with imports(), unfiltered" if ok1 else
               f"gen_arguments no longer puts the unfiltered imports() in front of the module's statements ({misuse[:2] or 'imports() is not used'}): "
               "a filtered or re-ordered import list can drop a needed import", loc)
        chk.ob("R-C16-2", "gen_arguments:single-node", ok23, "a node is returned without a block only when no import was collected" if ok23 else
               f"gen_arguments can return a node without the imports that were collected for it ({bare_unguarded} bare path(s) without an emptiness test, {n_block} block path(s))", loc)
        # both registration functions are folded over a sequence of registrations (rules/smalleval.py), whatever their shape: every
        # module and every name is registered once, under its own module
        from .smalleval import SmallEval, NoEval
        ai = syn.one_fn("add_import", impl_of="Imports")
        af = syn.one_fn("add_from_import", impl_of="Imports")
        local = {f_["name"]: f_ for f_ in syn.fns if f_["mod"] == af["mod"] and f_.get("impl_of") is None and f_.get("body")}

        def names_of(imp_node):
            lst = imp_node.get("import") if isinstance(imp_node, dict) else None
            return [x.get("lit") if isinstance(x, dict) else x for x in (lst[1] if isinstance(lst, tuple) and lst[0] == "list" else [])]
        ok_ai, why_ai = False, ""
        ok, why_af = False, ""
        try:
            ev_i = SmallEval(local_fns=local)
            st_ = {"__struct__": "Imports", "imports": ("list", []), "from_imports": ("map", {})}
            for mod_ in ("math", "math", "os", "math"):
                ev_i.call(ai, [st_, mod_])
            mods = [names_of(x) for x in st_["imports"][1]]
            ok_ai = sorted(m_[0] for m_ in mods if m_) == ["math", "os"] and len(mods) == 2
            why_ai = f"after math, math, os, math the list holds {mods}"
        except NoEval as ex:
            why_ai = f"could not be evaluated ({ex})"
        chk.ob("R-C16-2", "add_import:dedup", ok_ai, "add_import registers a module once" if ok_ai else f"add_import no longer registers each module exactly once: {why_ai}", facts.loc_of(ai))
        try:
            ev_f = SmallEval(local_fns=local)
            st_ = {"__struct__": "Imports", "imports": ("list", []), "from_imports": ("map", {})}
            for mod_, nm_ in (("typing", "Union"), ("typing", "Optional"), ("abc", "ABC"), ("typing", "Union"), ("typing", "Any"), ("abc", "ABC")):
                ev_f.call(af, [st_, mod_, nm_])
            got = {k_: sorted(names_of(v_)) for k_, v_ in st_["from_imports"][1].items()}
            froms = {k_: (v_.get("from")[1].get("lit") if isinstance(v_.get("from"), tuple) and isinstance(v_["from"][1], dict) else v_.get("from")) for k_, v_ in st_["from_imports"][1].items()}
            ok = got == {"typing": ["Any", "Optional", "Union"], "abc": ["ABC"]} and froms == {"typing": "typing", "abc": "abc"}
            why_af = f"after typing.Union, typing.Optional, abc.ABC, typing.Union, typing.Any, abc.ABC the table holds {got} (modules {froms})"
        except NoEval as ex:
            why_af = f"could not be evaluated ({ex})"
        s = ""
        try:
            # a case that exists only to reach the defensive arm of the sort key (an imported item that is not a plain identifier)
            st2_ = {"__struct__": "Imports", "imports": ("list", []), "from_imports": ("map", {"m": {"__struct__": "Import", "from": ("Some", {"__struct__": "Id", "lit": "m"}),
                    "import": ("list", [{"__struct__": "Type", "lit": "X", "generics": ("list", [])}]), "alias": ("list", [])}})}
            try:
                ev_f.call(af, [st2_, "m", "Y"])
            except NoEval:
                pass
            unc_r = ev_i.uncovered() + ev_f.uncovered()
        except NameError:
            unc_r = ["the registration functions were not folded"]
        chk.ob("R-C16-2", "registration:fold-covers-every-branch", not unc_r, "the registration sequences reach every branch of add_import / add_from_import" if not unc_r else
               f"the registration sequences do not reach {len(unc_r)} branch(es), e.g. {unc_r[0]}: what is registered there is not decided", facts.loc_of(af))
        chk.ob("R-C16-2", "add_from_import:dedup", ok, "add_from_import keeps one entry per module and adds a name only when it is new" if ok else
               f"add_from_import no longer keeps one entry per module with each name once: {why_af}", facts.loc_of(af))
        st = syn.structs.get("generate::convert::state::Imports")
        ok = st is not None and any(n == "from_imports" and t.replace(" ", "").startswith("BTreeMap<String,") for n, t in st["fields"])
        chk.ob("R-C16-2", "from_imports:ordered-map", ok, "from-imports are kept in a BTreeMap keyed by module (one line per module, deterministic order)" if ok else "Imports.from_imports is no longer a BTreeMap keyed by the module")
    except AnchorError as e:
        chk.anchor_fail("R-C16-2", e)

    # ---------------- R-C16-4 ----------------
    try:
        ctp = syn.one_fn("concrete_to_python", mod="check::context::clss")
        loc = facts.loc_of(ctp)
        builtins = set(load_table("python_builtins.json")["names"])
        stubs = _stub_classes()
        m = strip(tail_expr(ctp["body"]))
        if m.get("k") != "match":
            raise AnchorError("concrete_to_python is no longer a match table")
        # type names that StringName::to_py renders by an arm of its own never reach the table as a *type*
        dedicated = set()
        try:
            tp = [f for f in syn.find_fn("to_py", mod="generate::name", impl_of="StringName")]
            if len(tp) == 1:
                mm = [n for n in walk(tp[0]["body"]) if n.get("k") == "match"]
                for a2 in (mm[0]["arms"] if mm else []):
                    for alt2 in pat_alternatives(a2["pat"]):
                        if alt2.get("k") in ("ppath", "pident") and "::" in src(alt2):
                            v = consts.get("check::context::clss::" + src(alt2).split("::")[-1])
                            if v:
                                dedicated.add(v)
        except AnchorError:
            pass
        rows = 0
        for a in m["arms"]:
            for alt in pat_alternatives(a["pat"]):
                if alt.get("k") not in ("ppath", "pident") or not src(alt).isupper():
                    continue
                mname = consts.get("check::context::clss::" + src(alt)) or consts.get(src(alt))
                body = strip(a["body"])
                pyname = None
                if body.get("k") == "call" and body["args"]:
                    arg = strip(body["args"][0])
                    if arg.get("k") == "path":
                        pyname = consts.get("check::context::clss::" + arg["p"]) or consts.get("check::context::clss::python::" + arg["p"].split("::")[-1])
                    elif arg.get("k") == "lit":
                        pyname = arg["v"]
                rows += 1
                if pyname is None:
                    chk.ob("R-C16-4", f"row:{src(alt)}", False, f"concrete_to_python row {src(alt)}: cannot resolve the Python name", loc)
                    continue
                if pyname in builtins or pyname in ("None",):
                    ok, why = True, "a Python builtin"
                elif pyname in SUPPORT:
                    ok, why = True, "a support name whose import is registered where it is rendered (R-C16-1)"
                elif mname in dedicated:
                    ok, why = True, "as a type it is rendered by its own arm of StringName::to_py (import pairing: R-C16-1); the table row only renames identifiers consistently"
                elif pyname not in stubs and mname not in stubs:
                    ok, why = True, "no class of this name exists in the context, so it cannot be rendered as a type"
                else:
                    ok, why = False, "neither a builtin nor imported, but the context defines a class of this name: annotations can mention it"
                chk.ob("R-C16-4", f"row:{mname}->{pyname}", ok, f"`{mname}` is emitted as `{pyname}`: {why}", loc)
        chk.floor("R-C16-4", rows, 15, "rows of concrete_to_python")
    except AnchorError as e:
        chk.anchor_fail("R-C16-4", e)
    chk.notes.append("C16: pairing of every support-name use with a covering import call; prepend/dedup structure; name table against Python's builtins.")


def _conds(pm, node):
    """ids of the conditional constructs (if-branches, match arms, closures) that enclose a node"""
    out = set()
    cur = node
    while True:
        par, key = pm.get(id(cur), (None, None))
        if par is None:
            return frozenset(out)
        if par.get("k") == "if" and key in ("then", "else"):
            out.add((id(par), key))
        elif par.get("k") is None and "pat" in par and "body" in par and key == "body":
            out.add((id(par), "arm"))
        elif par.get("k") == "closure":
            out.add((id(par), "closure"))
        cur = par


def _ordinal(uses, node, val):
    i = 0
    for v, n in uses:
        if n is node:
            return i
        if v == val:
            i += 1
    return i


def _sqrt_construction_covered(syn, consts):
    for fn in syn.fns:
        if not fn["mod"].startswith("generate::convert") or not fn.get("body"):
            continue
        for n in walk(fn["body"]):
            if n.get("k") == "struct" and n["p"] == "Core::Sqrt":
                pm = parents_map(fn["body"])
                order = {id(x): i for i, x in enumerate(walk(fn["body"]))}
                for m in walk(fn["body"]):
                    if m.get("k") == "mcall" and m["m"] == "add_import" and m["args"] and _resolve(consts, fn, m["args"][0]) == "math":
                        if order[id(m)] < order[id(n)] and _conds(pm, m) <= _conds(pm, n):
                            return True
                return False
    return False


def _stub_classes():
    out = set()
    for fpath in glob.glob(os.path.join(REPO, "src/check/resource/**/*.py"), recursive=True):
        for line in open(fpath, encoding="utf-8", errors="replace"):
            m = re.match(r"^class\s+([A-Za-z_][A-Za-z0-9_]*)", line)
            if m:
                out.add(m.group(1))
    return out
