"""C09 - definite assignment.

R-C09-1  (environment field-flow) scope-closing constructs (if/else, match and handle arms, for, while, function and lambda bodies,
         class bodies, with, comprehensions, calls, assignments) return the incoming `vars`/`var_mapping`; every other returning arm
         of a generator function is a reviewed definition carrier. A new arm is analysed automatically and must be one or the other.
R-C09-2  (syntax) identifier lookup: `generate` sends `Node::Id` to `match_id`, whose decision chain ends in
         Err("Undefined variable") unless the name is None/True/False, the environment is in definition/destructuring mode,
         or `get_var` finds it.
R-C09-3  (field-flow + syntax) constructor fields: unassigned-after-branch = unassigned-before & (unassigned after some branch);
         loops / single-branch ifs / lambdas do not assign; `self.f` is refused while `f` is unassigned; a constructor that ends with
         unassigned non-nullable fields is an error.
"""
from .common import walk, src, strip, AnchorError, tail_expr
from . import envflow
from .c08 import _arm


def run(chk, facts):
    syn = facts.syn
    chk.rule("R-C09-1", "scope-closing constructs return the incoming vars/var_mapping; other returning arms are reviewed definition carriers")
    chk.rule("R-C09-2", "Node::Id -> match_id; its chain ends in Err(Undefined variable) unless literal name / def mode / destruct mode / get_var found")
    chk.rule("R-C09-3", "unassigned join formula; self.f refused while unassigned; constructor must end with nothing unassigned")
    envflow.check_vars(chk, facts, "R-C09-1")
    envflow.check_scoping(chk, facts, "R-C09-1", fields=["is_def_mode", "is_destruct_mode", "in_fun", "class", "in_loop", "is_expr"])
    envflow.check_call_envs(chk, facts, "R-C09-1", fields=["is_def_mode", "is_destruct_mode", "class", "in_loop", "is_expr"])

    # ---------------- R-C09-2 ----------------
    try:
        mid = syn.one_fn("match_id", mod="check::constrain::generate::expression")
        loc = facts.loc_of(mid)
        arm = _arm(mid, "Node::Id")
        chain = strip(tail_expr(arm["body"]) if arm["body"].get("k") == "block" else arm["body"])
        conds = []
        cur = chain
        final = None
        while cur is not None and cur.get("k") == "if":
            conds.append((src(strip(cur["c"])).replace(" ", ""), cur["then"]))
            nxt = cur.get("else")
            nxt = strip(nxt) if nxt else None
            if nxt is not None and nxt.get("k") != "if":
                final = nxt
                break
            cur = nxt
        if final is None:
            raise AnchorError("match_id: the Id arm is no longer an if/else-if chain with a final else")
        fs = src(final)
        ok_final = fs.startswith("Err(") and "Undefined variable" in fs
        chk.ob("R-C09-2", "final-else=Err(Undefined)", ok_final, "a name that no rule accepts is reported as `Undefined variable`" if ok_final else
               f"the final else of match_id's identifier chain is `{fs[:80]}` instead of Err(Undefined variable)", loc)
        allowed = 0
        for c, then in conds:
            kind = None
            if "lit.as_str()==" in c and all(x in ('"None"', '"True"', '"False"') for x in _strs(c)):
                kind = "literal name"
            elif c == "env.is_def_mode":
                kind = "definition mode"
            elif c == "env.is_destruct_mode":
                kind = "destructuring mode"
            elif c.startswith("env.get_var(lit,") and c.endswith(".is_some()"):
                kind = "found in the environment"
            chk.ob("R-C09-2", f"branch:{c[:50]}", kind is not None, f"match_id accepts an identifier when `{c[:60]}` ({kind})" if kind else
                   f"match_id accepts an identifier under the unreviewed condition `{c[:80]}`", loc)
            allowed += 1
        chk.floor("R-C09-2", allowed, 5, "branches of match_id's identifier chain")
        # dispatch: generate[Id] -> gen_expr -> match_id
        ge = syn.one_fn("gen_expr", mod="check::constrain::generate::expression")
        a = _arm(ge, "Node::Id")
        ok = "match_id(" in src(a["body"])
        chk.ob("R-C09-2", "gen_expr:Id->match_id", ok, "gen_expr sends Node::Id to match_id" if ok else "gen_expr no longer sends Node::Id to match_id", facts.loc_of(ge))
        gen = syn.one_fn("generate", mod="check::constrain::generate")
        ok = False
        for n in walk(gen["body"]):
            if n.get("k") == "match":
                for arm_ in n["arms"]:
                    if "Id {" in src(arm_["pat"]) and src(strip(arm_["body"])).startswith("gen_expr("):
                        ok = True
        chk.ob("R-C09-2", "generate:Id->gen_expr", ok, "generate sends Node::Id to gen_expr" if ok else "generate no longer sends Node::Id to gen_expr", facts.loc_of(gen))
    except AnchorError as e:
        chk.anchor_fail("R-C09-2", e)

    field_init(chk, facts, "R-C09-3")
    chk.rule("R-C09-4", "no element is dropped before it is checked: every zip/take/skip in the checker is length-guarded or reviewed (shared census, rules/quant.py)")
    from .quant import truncation_census
    truncation_census(chk, facts, "R-C09-4")
    chk.notes.append("C09: abstract interpretation of every generator function over the Environment record (assume/guarantee on the recursive entry).")


def field_init(chk, facts, rule):
    """definite assignment of constructor fields (shared by R-C09-3 and R-C04-7)"""
    syn = facts.syn
    # ---------------- R-C09-3 ----------------
    envflow.check_unassigned_join(chk, facts, rule)
    envflow.check_unassigned_closed(chk, facts, rule)
    try:
        gc_ = syn.one_fn("gen_call", mod="check::constrain::generate::call")
        arm_ = _arm(gc_, "Node::Reassign")
        folds = [n for n in walk(arm_["body"]) if n.get("k") == "mcall" and n["m"] == "fold" and "assigned_to" in src(n)]
        ok = False
        if len(folds) == 1:
            chain = []
            cur = strip(folds[0]["recv"])
            while cur.get("k") == "mcall":
                chain.append(cur)
                cur = strip(cur["recv"])
            names = [c["m"] for c in reversed(chain)]
            sel = [c for c in chain if c["m"] == "flat_map"]
            bodies = [src(strip(strip(c["args"][0])["body"])).replace(" ", "") for c in sel if strip(c["args"][0]).get("k") == "closure"]
            ok = names == ["all_calls", "iter", "flat_map", "flat_map"] and src(cur) == "identifier" and \
                "call.without_obj(arg::SELF,left.pos)" in bodies and \
                any(b.startswith("matchidenti_call{IdentiCall::Iden(var)=>Some(var)") and b.endswith("_=>None}") for b in bodies)
        chk.ob(rule, "assignment-marks-direct-self-field-only", ok,
               "an assignment marks a field as assigned only when the target is `self.<field>` itself" if ok else
               "the set of fields an assignment marks as assigned is no longer `self.<field>` only: `self.a.b := e` (which *reads* a) can mark `a` as assigned", facts.loc_of(gc_))
    except AnchorError as e:
        chk.anchor_fail(rule, e)
    try:
        pc = syn.one_fn("property_call", mod="check::constrain::generate::call")
        loc = facts.loc_of(pc)
        ok = False
        for n in walk(pc["body"]):
            if n.get("k") == "if":
                c = src(strip(n["c"])).replace(" ", "")
                if "env.unassigned.contains(lit)" in c and "arg::SELF" in c and "&&" in c and "||" not in c and not c.startswith("!"):
                    if any(m.get("k") == "return" and "Err" in src(m) for m in walk(n["then"])):
                        ok = True
        chk.ob(rule, "property_call:self.f-unassigned=>Err", ok, "`self.f` is refused while `f` is in the unassigned set" if ok else
               "property_call no longer refuses `self.f` for an unassigned field", loc)
        gd = syn.one_fn("gen_def", mod="check::constrain::generate::definition")
        arm = _arm(gd, "Node::FunDef")
        ok = False
        for n in walk(arm["body"]):
            if n.get("k") == "local" and n.get("init") is not None and "body_env.unassigned" in src(n["init"]).replace(" ", ""):
                nm = [p["name"] for p in walk(n["pat"]) if p.get("k") == "pident"]
                for m in walk(arm["body"]):
                    if m.get("k") == "if" and src(strip(m["c"])).replace(" ", "") == f"!{nm[0]}.is_empty()":
                        if any(x.get("k") == "return" and "Err" in src(x) for x in walk(m["then"])):
                            ok = True
        chk.ob(rule, "init:unassigned-at-end=>Err", ok, "a constructor whose body leaves a non-nullable field unassigned is rejected" if ok else
               "gen_def no longer rejects a constructor that leaves non-nullable fields unassigned", facts.loc_of(gd))
        # the body_env whose unassigned is inspected is the one generate(body, ..) returned
        res, fns, summ = envflow.data_fields(facts)
    except AnchorError as e:
        chk.anchor_fail(rule, e)


def _strs(c):
    import re
    return re.findall(r'"[^"]*"', c)
