"""C09 - definite assignment.

R-C09-1  (environment field-flow) scope-closing constructs (if/else, match and handle arms, for, while, function and lambda bodies,
         class bodies, with, comprehensions, calls, assignments) return the incoming `vars`/`var_mapping`; every other returning arm
         of a generator function is a reviewed definition carrier. A new arm is analysed automatically and must be one or the other.
R-C09-2  (syntax) identifier lookup: `generate` sends `Node::Id` to `match_id`, whose decision chain ends in
         Err("Undefined variable") unless the name is None/True/False, the environment is in definition/destructuring mode,
         or `get_var` finds it.
R-C09-3  (field-flow + syntax) constructor fields: unassigned-after-branch = unassigned-before & (unassigned after some branch);
         loops / single-branch ifs / lambdas do not assign; `self.f` is refused while `f` is unassigned; a constructor that ends with
         unassigned non-nullable fields is an error.
"""
import re
from .common import idents_in, walk, src, strip, AnchorError, tail_expr
from . import envflow
from .c08 import _arm


def run(chk, facts):
    syn = facts.syn
    chk.rule("R-C09-1", "scope-closing constructs return the incoming vars/var_mapping; other returning arms are reviewed definition carriers")
    chk.rule("R-C09-2", "Node::Id -> match_id; its chain ends in Err(Undefined variable) unless literal name / def mode / destruct mode / get_var found")
    chk.rule("R-C09-3", "unassigned join formula; self.f refused while unassigned; constructor must end with nothing unassigned")
    envflow.check_vars(chk, facts, "R-C09-1")
    envflow.check_scoping(chk, facts, "R-C09-1", fields=["is_def_mode", "is_destruct_mode", "in_fun", "class", "in_loop", "is_expr"])
    envflow.check_call_envs(chk, facts, "R-C09-1", fields=["is_def_mode", "is_destruct_mode", "class", "in_loop", "is_expr"])

    # ---------------- R-C09-2 ----------------
    try:
        mid = syn.one_fn("match_id", mod="check::constrain::generate::expression")
        loc = facts.loc_of(mid)
        match_id_paths(chk, facts, "R-C09-2")
        # dispatch: generate[Id] -> gen_expr -> match_id
        ge = syn.one_fn("gen_expr", mod="check::constrain::generate::expression")
        a = _arm(ge, "Node::Id")
        ok = "match_id(" in src(a["body"])
        chk.ob("R-C09-2", "gen_expr:Id->match_id", ok, "gen_expr sends Node::Id to match_id" if ok else "gen_expr no longer sends Node::Id to match_id", facts.loc_of(ge))
        gen = syn.one_fn("generate", mod="check::constrain::generate")
        ok = False
        for n in walk(gen["body"]):
            if n.get("k") == "match":
                for arm_ in n["arms"]:
                    if "Id {" in src(arm_["pat"]) and src(strip(arm_["body"])).startswith("gen_expr("):
                        ok = True
        chk.ob("R-C09-2", "generate:Id->gen_expr", ok, "generate sends Node::Id to gen_expr" if ok else "generate no longer sends Node::Id to gen_expr", facts.loc_of(gen))
    except AnchorError as e:
        chk.anchor_fail("R-C09-2", e)

    field_init(chk, facts, "R-C09-3")
    chk.rule("R-C09-4", "no element is dropped before it is checked: every zip/take/skip in the checker is length-guarded or reviewed (shared census, rules/quant.py)")
    from .quant import truncation_census
    truncation_census(chk, facts, "R-C09-4")
    chk.notes.append("C09: abstract interpretation of every generator function over the Environment record (assume/guarantee on the recursive entry).")


def field_init(chk, facts, rule):
    """definite assignment of constructor fields (shared by R-C09-3 and R-C04-7)"""
    syn = facts.syn
    # ---------------- R-C09-3 ----------------
    envflow.check_unassigned_join(chk, facts, rule)
    envflow.check_unassigned_closed(chk, facts, rule)
    # which fields a constructor must assign is decided by `parents.iter().any(|p| p.fields.contains(f))`: a field counts as inherited when a
    # parent holds an *equal* field.  A field that the class re-declares itself (same name, same type) must not be equal to the parent's, so
    # the equality of Field has to look at the declaring class - as the derived one (all fields) does
    try:
        st_f = syn.structs.get("check::context::field::Field")
        man_eq = [im for im in syn.impls if (im.get("trait") or "").split("<")[0].strip() == "PartialEq" and im.get("self_ty") == "Field" and im.get("mod") == "check::context::field"
                  and not any("automatically_derived" in a for a in im.get("attrs", []))]
        if st_f is None:
            raise AnchorError("struct check::context::field::Field not found")
        if man_eq:
            efn = [i for i in man_eq[0]["items"] if i.get("k") == "fn" and i["name"] == "eq"]
            read = {n["name"] for n in walk(efn[0]["body"]) if n.get("k") == "field" and src(strip(n["base"])) == "self"} if efn else set()
            okf = "in_class" in read
            whyf = f"a hand-written PartialEq for Field that compares {sorted(read)}"
        else:
            okf = any("PartialEq" in a for a in st_f.get("attrs", [])) or True
            whyf = "the derived PartialEq (all fields, among them the declaring class)"
        chk.ob(rule, "Field-equality-sees-declaring-class", okf, f"Field equality is {whyf}" if okf else
               f"Field equality is {whyf}, not the declaring class: a field that a class re-declares (same name and type, no value) is equal to its parent's, counts as inherited, and may be "
               "read in the constructor before it is assigned - and stay unassigned", None)
    except AnchorError as e:
        chk.anchor_fail(rule, e)
    try:
        gc_ = syn.one_fn("gen_call", mod="check::constrain::generate::call")
        arm_ = _arm(gc_, "Node::Reassign")
        # Which names reach `assigned_to(..)`? Everything derived from `identifier` in this arm is followed (iterator closures, loop
        # variables, if-let / match bindings); on those values only structure-preserving steps are allowed, the object `self` is taken
        # off with `without_obj(arg::SELF, ..)`, and a name is extracted *only* by the pattern `IdentiCall::Iden(x)` - a bare
        # identifier, i.e. the whole rest of the target. `IdentiCall::object()` (left-most leaf of a chain) or any other accessor
        # would turn `self.a.b := e` into "a is assigned". A chain of adapters and a for loop are the same to this rule.
        from .traverse import _derived
        body_ = arm_["body"]
        tainted = _derived(body_, {"identifier"})
        ALLOWED = {"all_calls", "iter", "into_iter", "flat_map", "filter_map", "map", "fold", "for_each", "without_obj", "clone", "cloned", "as_ref",
                   "ok", "is_ok", "flatten", "collect", "assigned_to", "fields", "deref", "filter"}
        used = set()
        for n in walk(body_):
            if n.get("k") == "mcall" and idents_in(n["recv"]) & tainted:
                used.add(n["m"])
        assigned = [n for n in walk(body_) if n.get("k") == "mcall" and n["m"] == "assigned_to"]
        pats = [n for n in walk(body_) if n.get("k") == "ptstruct" and n["p"].endswith("IdentiCall::Iden")]
        wo = [n for n in walk(body_) if n.get("k") == "mcall" and n["m"] == "without_obj" and n["args"] and src(strip(n["args"][0])).endswith("SELF")]
        extra = sorted(m for m in used - ALLOWED if m not in ("pos",))
        ok = bool(assigned) and bool(pats) and bool(wo) and not extra and "all_calls" in used
        chk.ob(rule, "assignment-marks-direct-self-field-only", ok,
               "an assignment marks a field as assigned only when the target is `self.<field>` itself" if ok else
               "the set of fields an assignment marks as assigned is no longer `self.<field>` only: `self.a.b := e` (which *reads* a) can mark `a` as assigned", facts.loc_of(gc_))
    except AnchorError as e:
        chk.anchor_fail(rule, e)
    try:
        pc = syn.one_fn("property_call", mod="check::constrain::generate::call")
        loc = facts.loc_of(pc)
        ok = False
        for n in walk(pc["body"]):
            if n.get("k") == "if":
                c = src(strip(n["c"])).replace(" ", "")
                if "env.unassigned.contains(lit)" in c and "arg::SELF" in c and "&&" in c and "||" not in c and not c.startswith("!"):
                    if any(m.get("k") == "return" and "Err" in src(m) for m in walk(n["then"])):
                        ok = True
        chk.ob(rule, "property_call:self.f-unassigned=>Err", ok, "`self.f` is refused while `f` is in the unassigned set" if ok else
               "property_call no longer refuses `self.f` for an unassigned field", loc)
        gd = syn.one_fn("gen_def", mod="check::constrain::generate::definition")
        arm = _arm(gd, "Node::FunDef")
        ok = False
        for n in walk(arm["body"]):
            if n.get("k") == "local" and n.get("init") is not None and "body_env.unassigned" in src(n["init"]).replace(" ", ""):
                nm = [p["name"] for p in walk(n["pat"]) if p.get("k") == "pident"]
                for m in walk(arm["body"]):
                    if m.get("k") == "if" and src(strip(m["c"])).replace(" ", "") == f"!{nm[0]}.is_empty()":
                        if any(x.get("k") == "return" and "Err" in src(x) for x in walk(m["then"])):
                            ok = True
        chk.ob(rule, "init:unassigned-at-end=>Err", ok, "a constructor whose body leaves a non-nullable field unassigned is rejected" if ok else
               "gen_def no longer rejects a constructor that leaves non-nullable fields unassigned", facts.loc_of(gd))
        # the body_env whose unassigned is inspected is the one generate(body, ..) returned
        res, fns, summ = envflow.data_fields(facts)
    except AnchorError as e:
        chk.anchor_fail(rule, e)


def _strs(c):
    import re
    return re.findall(r'"[^"]*"', c)


def match_id_paths(chk, facts, rule):
    """identifier resolution, decided on the enumerated paths of `match_id` (an if/else-if chain, a match on the lookup, guard
    clauses .. are the same thing): every path through the `Node::Id` arm is classified by its conditions -
        literal name (None / True / False), definition mode, destructuring mode, found in the environment  -> accepted
        none of these (the lookup found nothing)                                                            -> must be an Err
    and no other accepting condition exists."""
    from .common import fn_paths
    syn = facts.syn
    mid = syn.one_fn("match_id", mod="check::constrain::generate::expression")
    loc = facts.loc_of(mid)
    paths = [p for p in fn_paths(mid["body"]) if any("~Node::Id" in c and pol for c, pol in p.conds)]
    if not paths:
        raise AnchorError("match_id: no path through a Node::Id arm")
    kinds = set()
    undefined_err = 0
    for p in paths:
        pos = [c for c, pol in p.conds if pol and "~Node::Id" not in c]
        neg = [c for c, pol in p.conds if not pol]
        r = src(strip(p.result)) if p.result is not None else ""
        is_err = r.startswith("Err(") or (p.how == "return" and r.startswith("Err("))
        # what does the path know?
        found = any(re.search(r"env\.get_var\(lit,.*\)(\.is_some\(\)|~Some\()", c) for c in pos) or any(re.search(r"env\.get_var\(lit,.*\)(\.is_none\(\)|~None)", c) for c in neg) \
            or any(re.search(r"letSome\(.*\)=env\.get_var\(lit,", c) for c in pos)          # (`match .. { Some(_) => .., None => .. }` is normalised to if-let)
        absent = any(re.search(r"env\.get_var\(lit,.*\)(\.is_none\(\)|~None)", c) for c in pos) or any(re.search(r"env\.get_var\(lit,.*\)\.is_some\(\)", c) for c in neg) \
            or any(re.search(r"letSome\(.*\)=env\.get_var\(lit,", c) for c in neg)
        kind = None
        for c in pos:
            if "lit.as_str()==" in c and all(x in ('"None"', '"True"', '"False"') for x in _strs(c)):
                kind = "literal name"
            elif c == "env.is_def_mode":
                kind = "definition mode"
            elif c == "env.is_destruct_mode":
                kind = "destructuring mode"
        if kind is None and found:
            kind = "found in the environment"
        if kind is not None:
            kinds.add(kind)
            chk.ob(rule, f"match_id:accept:{kind}", True, f"match_id accepts an identifier: {kind}")
            continue
        if absent and is_err and "Undefined variable" in r:
            undefined_err += 1
            continue
        if is_err:
            chk.ob(rule, "match_id:other-error", True, f"match_id rejects under {pos[-1][:50] if pos else '-'}")
            continue
        chk.ob(rule, f"match_id:unreviewed:{(pos[-1] if pos else 'default')[:50]}", False,
               f"match_id accepts an identifier on a path that is none of literal name / definition / destructuring / found in the environment "
               f"(conditions {pos[-2:]}, not {neg[-2:]}): a use of an undefined name is accepted (NameError at run time)", loc)
    ok = undefined_err >= 1
    chk.ob(rule, "match_id:undefined-is-error", ok, "an identifier that is none of these is `Undefined variable`" if ok else
           "match_id has no path that reports `Undefined variable` when the lookup finds nothing", loc)
    ok = kinds >= {"literal name", "definition mode", "destructuring mode", "found in the environment"}
    chk.ob(rule, "match_id:cases", ok, "an identifier is None/True/False, a definition, a deletion or must be in the environment" if ok else f"match_id's accepting cases are {sorted(kinds)}", loc)
