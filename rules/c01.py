"""C01 - accepted programs keep their meaning when run as the emitted Python.

Equality of observable behaviour is not decided (ND). Decided are the structural necessary conditions that are visible in the
shape of the translation:

R-C01-1  (chain composition A14) every operator keeps its meaning end to end: Mamba spelling -> Token (lexer model) -> Node
         (expression parser) -> NodeTy (check::ast) -> Core (convert_node) -> Python spelling (printer template) equals
         tables/mamba_operators.json, operands are never swapped at any stage, and operator variants are converted one-to-one
         (a conversion that inspects the converted operand and rewrites the operator is reported).
R-C01-2  (syntax) nothing is silently dropped: the variants that reach `_ => NodeTy::Empty` / `_ => Core::Empty` are the reviewed ones.
R-C01-3  (traversal census A8) every child of every NodeTy variant taken apart in generate::convert is converted (handed to
         convert_node / convert_vec / a helper that reaches them) or the whole node is delegated; reviewed rows: declarations that
         have no Python counterpart (raises, forward, type-alias conditions).
R-C01-4  (sibling agreement) `append_ret` and `append_assign` descend into the same compound variants through the same fields,
         stop on the same leaves (skip_assign contains skip_return), and wrap everything else.
R-C01-5  (construction-site table) range(..)/slice(..): argument 1 = from; argument 2 = `to` when exclusive, `to + 1` when inclusive
         (Python's range and slice both exclude their end), the test being the node's own `inclusive` flag; argument 3 = step,
         default literal 1; the parser sets `inclusive` from the token (`..=`/`::=` true, `..`/`::` false).
R-C01-6  (syntax) interpolated strings stay interpolated: Str with expressions -> FStr -> a template opening with `f"`; else Str.
R-C01-7  (site census) the desugaring state: setters change one field; return/assignment requests only at the reviewed sites.
R-C01-8  (docs vs lexer) a sign the documented number grammar allows inside a literal is consumed by the lexer's number loop.
R-C01-9  (syntax, shared with R-C17-4) the synthesised constructor is left out only when it would have no statements.
R-C10-*  (reused) printing never changes the grouping of operators.   R-C11-1 (reused) the annotate flag only reaches annotations.
"""
import re
from collections import Counter
from .common import walk, src, strip, AnchorError, load_table, pat_alternatives, tail_expr, idents_in
from . import chain, traverse, printer, lexer

OPERATOR_NODES_IDENTITY_EXCEPTIONS = {
    # NodeTy variant -> (Core shape, reason)
    "IsNA": ("Not(IsA)", "`not isinstance(l, r)`: there is no Core::IsNA"),
    "Question": ("Or", "`l ? r` is printed as `l or r` (finding D34: not the same for falsy non-None values)"),
}
EMPTY_NODETY_REVIEWED = {}   # filled from the tree: see _drops
CONVERT_REVIEWED = {
    ("convert_class", "Parent", "args", "unused"): "first arm is guarded by `args.is_empty()`; the second converts them",
    ("convert_class", "TypeAlias", "conditions", "unbound"): "conditions of a type alias are compile-time only (outside the executable core; no run-time check is documented as emitted)",
    ("convert_def", "FunDef", "raises", "unbound"): "declared raises have no Python counterpart",
    ("convert_def", "VariableDef", "forward", "unbound"): "forwarding is not implemented anywhere (no accepted program can use a forwarded member, see R-C04-1)",
}
# NodeTy variants that may reach `_ => Core::Empty` in convert_node: type-level nodes that never stand in statement/expression position
CORE_EMPTY_REVIEWED = {
    "Generic": "generic parameter: only inside class/function headers, consumed by name",
    "QuestionOp": "`T?` type node: types are rendered through Name::to_py, not convert_node",
    "TypeTup": "type node", "TypeUnion": "type node", "Type": "type node", "TypeFun": "type node",
    "Case": "match arms are converted by convert_cntrl_flow, never on their own",
    "Empty": "the empty node itself",
    "Str": None, "Return": None, "Tuple": None, "With": None,   # guarded arms fall through to an unguarded arm of the same variant
}



def convert_node_skeleton(syn):
    """`convert_node` without the conversion of the node kinds: the statements in front of the big `let <core> = match ..` and behind it,
    folded (rules/smalleval.py) over the four combinations of a pending assignment target and a pending return, with `append_assign` /
    `append_ret` as constructors and the State setters folded from their source.
    -> {(has target, must return): (result, state the children are converted under, names that still hold the unreset state)}"""
    import copy
    from .smalleval import SmallEval, Scope
    cn = syn.one_fn("convert_node", mod="generate::convert")
    stmts = cn["body"]["stmts"]
    sizes = [len(src(s_)) for s_ in stmts]
    k = max(range(len(stmts)), key=lambda i: sizes[i])
    big = stmts[k]
    if big.get("k") != "local" or big["pat"].get("k") != "pident" or sizes[k] < 0.7 * sum(sizes):
        raise AnchorError("convert_node: the conversion of the node kinds is not one `let <name> = ..` statement")
    st_struct = syn.structs.get("generate::convert::state::State")
    if not st_struct:
        raise AnchorError("struct generate::convert::state::State not found")
    fields_all = [fn_ for fn_, _ in st_struct["fields"]]
    methods = {f_["name"]: f_ for f_ in syn.fns if f_["mod"] == "generate::convert::state" and "State" == (f_.get("impl_of") or "").strip() and f_.get("body")}
    local = {f["name"]: f for f in syn.fns if f["mod"] == cn["mod"] and f.get("impl_of") is None and f.get("body") and f["name"] not in ("append_assign", "append_ret", "convert_node")}
    ev = SmallEval(local_fns=local, funcs={"append_assign": lambda core, to, name, imp: ("assign", core, to, name), "append_ret": lambda core: ("ret", core)})
    ev.local_methods = methods
    out = {}
    for target in (None, ("Some", ("tuple", [("sym", "target"), ("sym", "tname")]))):
        for ret in (False, True):
            state = {"__struct__": "State"}
            state.update({fn_: ("sym", "old." + fn_) for fn_ in fields_all})
            state["must_assign_to"] = copy.deepcopy(target)
            state["is_last_must_be_ret"] = ret
            # parameters by position and type, whatever they are called
            pnames = [i_.get("pat", {}).get("name") for i_ in cn["sig"]["inputs"]]
            sname = next((i_["pat"]["name"] for i_ in cn["sig"]["inputs"] if i_.get("pat", {}).get("k") == "pident" and "State" in str(i_.get("ty", ""))), None)
            if sname is None or None in pnames:
                raise AnchorError("convert_node: no State parameter")
            scope = Scope(None, {pn_: ("sym", pn_) for pn_ in pnames})
            scope[sname] = state
            for s_ in stmts[:k]:
                if s_.get("k") == "local" and s_.get("init") is not None:
                    if not ev.bind(s_["pat"], ev.ev(s_["init"], scope), scope):
                        raise AnchorError("convert_node: refutable `let` in front of the conversion")
                elif s_.get("k") == "expr":
                    ev.ev(s_["e"], scope)
                else:
                    raise AnchorError("convert_node: unexpected statement in front of the conversion")
            # the state the children are converted under: the one most conversions in the big statement hand on
            from collections import Counter as _Ctr
            handed = _Ctr()
            for c_ in walk(big["init"]):
                if c_.get("k") == "call" and c_["f"].get("k") == "path" and c_["f"]["p"].split("::")[-1].startswith("convert_"):
                    for a_ in c_["args"]:
                        a_ = strip(a_)
                        if a_.get("k") == "path" and isinstance(scope.get(a_["p"]), dict) and scope.get(a_["p"]).get("__struct__") == "State":
                            handed[a_["p"]] += 1
            if not handed:
                raise AnchorError("convert_node: no conversion hands a state on")
            uname = handed.most_common(1)[0][0]
            under = copy.deepcopy(scope.get(uname))
            unreset = sorted(n_ for n_, v_ in scope.items() if isinstance(v_, dict) and v_.get("__struct__") == "State" and v_ is not under and
                             v_.get("must_assign_to") == target and v_.get("is_last_must_be_ret") is ret and n_ != uname) if target is not None and ret else None
            probe = dict(big)
            probe["init"] = {"k": "__value__", "v": ("sym", "CORE")}
            r = ev.ev({"k": "block", "stmts": [probe] + stmts[k + 1:]}, scope)
            out[(target is not None, ret)] = (r, under, unreset)
    return cn, out, fields_all


def run(chk, facts):
    chk.rule("R-C01-1", "operator chain: spelling -> Token -> Node -> NodeTy -> Core -> Python spelling equals the documented table; operands keep their side")
    chk.rule("R-C01-2", "variants reaching `_ => NodeTy::Empty` / `_ => Core::Empty` are reviewed")
    chk.rule("R-C01-3", "every child of every NodeTy variant is converted, delegated, or a reviewed declaration")
    chk.rule("R-C01-4", "append_ret / append_assign sibling agreement")
    chk.rule("R-C01-5", "range/slice construction: from, to (+1 iff inclusive), step default 1; inclusive flag from the token")
    chk.rule("R-C01-6", "Str with expressions -> FStr -> f\"..\"")
    _operators(chk, facts)
    _drops(chk, facts)
    _convert_census(chk, facts)
    _siblings(chk, facts)
    _ranges(chk, facts)
    _fstr(chk, facts)
    _state_flags(chk, facts)
    _number_grammar(chk, facts)
    chk.rule("R-C01-9", "class constructors: the synthesised __init__ is left out only when it would be empty (shared with R-C17-4)")
    from .c17 import init_emitted
    init_emitted(chk, facts, "R-C01-9")
    # reuse: grouping and annotate-independence
    from . import c10, c11
    c10.run(chk, facts)
    c11.run(chk, facts)
    # each translation is written to the file of its own source: the pairing-by-position obligations of the project pipeline (C13)
    from . import c13
    from .common import borrow
    borrow(chk, facts, c13, ("R-C13-3|derive:", "R-C13-3|zip", "R-C13-3|one-per-path:", "R-C13-3|paired-lists-not-reordered", "R-C13-3|sources-zip-paths", "R-C13-3|pipeline-order", "R-C13-3|anchor"),
           {"R-C13-3": "the translation of a file is written to that file's own output path: path lists are order-preserving maps of one list and are paired by position (shared with C13)"})
    chk.assume("equality of observable behaviour is not decided: the rules are necessary conditions on the shape of the translation (ND: class/constructor "
               "semantics, statement/expression context handling beyond R-C01-4, value-level arithmetic)")
    chk.notes.append("C01: operator chain through five stages, drop review, conversion census, desugaring siblings, range table, plus the C10 and C11 rule sets.")


# ------------------------------------------------------------------------------------------------------------------------
def _render(arm):
    """template with the holes named by the Core field that feeds them: `{left} < {right}`"""
    out = ""
    for p in arm.pieces:
        if p[0] == "lit":
            out += p[1]
        elif p[1] in ("operand", "protect", "bare", "lexeme"):
            out += "{" + str(p[2].get("field")) + "}"
        else:
            out += "{?" + p[1] + "}"
    return out


def _operators(chk, facts):
    try:
        table = load_table("mamba_operators.json")
        lm = lexer.LexerModel(facts)
        pm = printer.PrinterModel(facts)
        prs = chain.parser_operator_table(facts)
        n2t, n2t_fn = chain.node_to_nodety(facts)
        t2c, t2c_fn = chain.nodety_to_core(facts)
    except AnchorError as e:
        chk.anchor_fail("R-C01-1", e)
        return
    spell = {}
    for ch, ps in lm.paths.items():
        for p in ps:
            if p.token.startswith("Token::"):
                spell.setdefault(p.token.split("::")[1], set()).add(p.text())
    for w, t in lm.keywords.items():
        if t.startswith("Token::"):
            spell.setdefault(t.split("::")[1], set()).add(w)
    n_rows = 0
    seen_nodes = set()
    for r in prs:
        if r["node"] in ("Range", "Slice"):
            continue
        n_rows += 1
        tok, node, kind = r["token"], r["node"], r["kind"]
        seen_nodes.add(node)
        loc = facts.loc_of(r["fn"])
        key = f"{kind}:{tok}->{node}"
        # stage 1: spelling
        sp = spell.get(tok)
        if not sp or len(sp) != 1:
            chk.ob("R-C01-1", key + ":spelling", False, f"Token::{tok} has spellings {sorted(sp) if sp else None}: no single documented spelling", loc)
            continue
        sp = next(iter(sp))
        want = table[kind].get(sp)
        if want is None:
            chk.ob("R-C01-1", key + ":documented", False, f"`{sp}` (Token::{tok}) is parsed as a {kind} operator Node::{node} but is not in the documented operator table", loc)
            continue
        # stage 2: parser eats the token it matched and keeps the operand order
        ok = r["eaten"] == [tok]
        chk.ob("R-C01-1", key + ":eat", ok, f"`{sp}`: the parser consumes Token::{tok}" if ok else f"the arm for Token::{tok} eats {r['eaten']}", loc)
        if kind == "binary":
            ok = r["roles"] == {"left": "before", "right": "after"}       # left: parsed in front of the operator, right: behind it
            chk.ob("R-C01-1", key + ":parse-order", ok, f"`a {sp} b` -> Node::{node} {{ left: a, right: b }}" if ok else
                   f"the parser builds Node::{node} with {r['fields']}: the operands of `{sp}` are swapped or replaced", loc)
        else:
            ok = set(r["fields"]) == {"expr"} and r["operand_parsed"]["expr"]      # `expr` is what was parsed after the operator
            chk.ob("R-C01-1", key + ":parse-order", ok, f"`{sp} a` -> Node::{node} {{ expr: a }}" if ok else f"the parser builds Node::{node} with {r['fields']}", loc)
        # stages 3-5
        _follow(chk, facts, key, sp, node, want, kind, n2t, t2c, pm, n2t_fn, t2c_fn)
    # derived nodes (no token of their own)
    for node, d in table["derived_nodes"].items():
        n_rows += 1
        _follow(chk, facts, f"derived:{node}", d["meaning"], node, d["python"], "binary", n2t, t2c, pm, n2t_fn, t2c_fn)
    chk.floor("R-C01-1", n_rows, 32, "operator rows (token -> node)")
    # every documented operator is parsed
    for kind in ("binary", "unary"):
        parsed = {next(iter(spell.get(r["token"], {"?"}))) for r in prs if r["kind"] == kind}
        missing = sorted(set(table[kind]) - parsed)
        chk.ob("R-C01-1", f"documented-{kind}-all-parsed", not missing, f"every documented {kind} operator has a parser arm" if not missing else
               f"documented {kind} operators without a parser arm: {missing}")


def _follow(chk, facts, key, sp, node, want, kind, n2t, t2c, pm, n2t_fn, t2c_fn):
    fields = ["left", "right"] if kind == "binary" else ["expr"]
    rows = [r for r in n2t if r["src"] == node]
    ok = len(rows) == 1 and rows[0]["dst"] == node and not rows[0]["guard"] and all(rows[0]["fields"].get(f, ([], ""))[0] == [f] for f in fields)
    chk.ob("R-C01-1", key + ":Node->NodeTy", ok, f"Node::{node} -> NodeTy::{node}, fields one-to-one" if ok else
           f"Node::{node} is turned into {[(r['dst'], {k: v[0] for k, v in r['fields'].items()}) for r in rows]}: not NodeTy::{node} with {fields} one-to-one", facts.loc_of(n2t_fn))
    rows = [r for r in t2c if r["src"] == node]
    loc = facts.loc_of(t2c_fn)
    if len(rows) != 1 or rows[0]["guard"]:
        chk.ob("R-C01-1", key + ":NodeTy->Core", False, f"NodeTy::{node} has {len(rows)} arm(s) in convert_node (guards: {[r['guard'] for r in rows]}): operators are converted unconditionally by one arm", loc)
        return
    r = rows[0]
    exc = OPERATOR_NODES_IDENTITY_EXCEPTIONS.get(node)
    core = r["dst"]
    if core is None:
        chk.ob("R-C01-1", key + ":NodeTy->Core", False,
               f"the arm for NodeTy::{node} is not a direct construction of a Core operator node (it computes something from the converted operand): "
               f"`{sp}` can be rewritten into a different operator depending on its operands", loc)
        return
    inner = None
    if exc and exc[0] == "Not(IsA)":
        st = chain._struct_of(r["arm"]["body"])
        inner_structs = [n for n in walk(st) if n.get("k") == "struct" and n is not st]
        ok = core == "Not" and len(inner_structs) == 1 and inner_structs[0]["p"] == "Core::IsA"
        if ok:
            bound = r["bound"]
            fm = {k: sorted({bound[i] for i in idents_in(v) if i in bound}) for k, v in inner_structs[0]["fields"]}
            ok = fm == {"left": ["left"], "right": ["right"]}
        chk.ob("R-C01-1", key + ":NodeTy->Core", ok, f"NodeTy::{node} -> Core::Not(Core::IsA {{ left, right }})" if ok else f"NodeTy::{node} is no longer Not(IsA(left, right))", loc)
        core, inner = "IsA", "Not"
    else:
        want_core = exc[0] if exc else node
        ok = core == want_core and all(r["fields"].get(f, ([], ""))[0] == [f] and r["fields"][f][1] == "convert_node" for f in fields) and set(r["fields"]) == set(fields)
        chk.ob("R-C01-1", key + ":NodeTy->Core", ok, f"NodeTy::{node} -> Core::{core}, operands converted one-to-one" if ok else
               f"NodeTy::{node} is converted to Core::{core} with {dict((k, v[0]) for k, v in r['fields'].items())}: expected Core::{want_core} with {fields} one-to-one "
               f"(operands swapped, dropped or not converted)", loc)
    arms = pm.arms_of(core)
    if len(arms) != 1:
        chk.ob("R-C01-1", key + ":print", False, f"Core::{core} has {len(arms)} printer arms", facts.loc_of(pm.fn))
        return
    t = _render(arms[0])
    if inner == "Not":
        na = pm.arms_of("Not")
        t = _render(na[0]).replace("{expr}", t) if len(na) == 1 else "?"
    if "{" in want:
        wt = want
    elif kind == "binary":
        wt = "{left} " + want + " {right}"
    else:
        wt = want + "{expr}"
    ok = t.replace(" ", "") == wt.replace(" ", "") and (t.count(" ") == wt.count(" ") or "(" in wt)
    chk.ob("R-C01-1", key + ":print", ok, f"`{sp}` is printed as `{t}`" if ok else
           f"`{sp}` means `{wt}` in Python but Core::{core} is printed as `{t}`", facts.loc_of(pm.fn))


# ------------------------------------------------------------------------------------------------------------------------
def _drops(chk, facts):
    syn = facts.syn
    try:
        n2t, fn1 = chain.node_to_nodety(facts)
        t2c, fn2 = chain.nodety_to_core(facts)
        nodes = syn.enum_variants(traverse.NODE)
        nodety = syn.enum_variants("check::ast::NodeTy")
        # Node -> NodeTy: a wildcard arm producing NodeTy::Empty
        wild = [r for r in n2t if r["src"] == "_"]
        explicit = {r["src"] for r in n2t if r["src"] != "_"}
        unguarded = {r["src"] for r in n2t if r["src"] != "_" and not r["guard"]}
        dropped = sorted(set(nodes) - unguarded)
        table = load_table("c01_drops.json")
        for v in dropped:
            ok = v in table["node_to_nodety_empty"]
            chk.ob("R-C01-2", f"Node->Empty:{v}", ok, f"Node::{v} has no typed counterpart - reviewed: {table['node_to_nodety_empty'].get(v)}" if ok else
                   f"Node::{v} falls into the wildcard of NodeTy::from and becomes NodeTy::Empty: the construct disappears from the output without an error", facts.loc_of(fn1))
        if not wild:
            chk.ob("R-C01-2", "Node->NodeTy:wildcard", True, "NodeTy::from has no wildcard any more")
        # NodeTy -> Core
        unguarded = {r["src"] for r in t2c if r["src"] != "_" and not r["guard"]}
        dropped = sorted(set(nodety) - unguarded)
        wild = [r for r in t2c if r["src"] == "_"]
        wild_is_empty = bool(wild) and src(strip(wild[0]["arm"]["body"])) == "Core::Empty"
        for v in dropped:
            ok = v in table["nodety_to_core_empty"]
            chk.ob("R-C01-2", f"NodeTy->Empty:{v}", ok, f"NodeTy::{v} becomes Core::Empty - reviewed: {table['nodety_to_core_empty'].get(v)}" if ok else
                   f"NodeTy::{v} has no arm in convert_node and falls into `_ => Core::Empty`: it is silently dropped from the emitted program", facts.loc_of(fn2))
        chk.ob("R-C01-2", "convert_node:wildcard", True, "convert_node's wildcard yields Core::Empty" if wild_is_empty else "convert_node has no `_ => Core::Empty` arm")
        chk.floor("R-C01-2", len(nodety), 70, "NodeTy variants")
    except AnchorError as e:
        chk.anchor_fail("R-C01-2", e)


# ------------------------------------------------------------------------------------------------------------------------
def _convert_census(chk, facts):
    try:
        rows, vis = traverse.census(facts.syn, mod="generate::convert", root="convert_node", enum="check::ast::NodeTy", prefix="NodeTy", child_marker="ASTTy")
    except AnchorError as e:
        chk.anchor_fail("R-C01-3", e)
        return
    got = Counter((r["fn"], r["variant"], r["child"], r["status"]) for r in rows)
    n_vis = 0
    for k, n in sorted(got.items()):
        fn, variant, child, status = k
        key = f"{fn}|{variant}|{child}|{status}"
        if status in ("visited", "delegated"):
            n_vis += n
            chk.ob("R-C01-3", key, True, f"{fn}: {variant}.{child} is {status}")
            continue
        f = next((x for x in facts.syn.fns if x["name"] == fn and x["mod"].startswith("generate::convert")), None)
        why = CONVERT_REVIEWED.get(k)
        chk.ob("R-C01-3", key, why is not None and n == 1, f"{fn}: {variant}.{child} is not converted - reviewed: {why}" if why is not None and n == 1 else
               f"{fn}: the `{variant}` arm never converts `{child}` ({'not bound' if status == 'unbound' else 'bound but unused'}): that part of the program is missing from the emitted Python",
               facts.loc_of(f) if f else None)
    chk.floor("R-C01-3", n_vis, 170, "converted or delegated NodeTy children")
    # operand order inside every struct-literal arm of convert_node: a Core field named like a NodeTy field takes that field
    try:
        t2c, fn = chain.nodety_to_core(facts)
        n = 0
        for r in t2c:
            if r["dst"] is None or r["src"] == "_":
                continue
            srcv = facts.syn.enum_variants("check::ast::NodeTy").get(r["src"])
            if srcv is None:
                continue
            sf = {f for f, t in srcv["fields"]}
            for cf, (used, wrap) in r["fields"].items():
                if cf in sf and used and used != [cf] and cf not in used:
                    chk.ob("R-C01-3", f"field:{r['src']}.{cf}", False, f"convert_node builds Core::{r['dst']}.{cf} from NodeTy::{r['src']}.{used}: the parts of the construct are swapped", facts.loc_of(fn))
                else:
                    n += 1
        chk.ob("R-C01-3", "same-name-fields", True, f"{n} Core fields named like a NodeTy field are built from that field")
    except AnchorError as e:
        chk.anchor_fail("R-C01-3", e)


# ------------------------------------------------------------------------------------------------------------------------

def walker_leaf_table(syn):
    """{Core variant: {"ret": how append_ret treats a node of that variant, "assign": how append_assign does}} with the treatment one of
    "skip" (returned as it is), "wrap" (Return { expr: node } / VarDef { .., expr: Some(node) }) or "recurse" (the same variant with
    something inside replaced) - obtained by folding both walkers, with whatever predicates / methods they call, over one symbolic node
    of every variant of `Core` (rules/smalleval.py)."""
    import copy
    from .smalleval import SmallEval, NoEval
    ar = syn.one_fn("append_ret", mod="generate::convert")
    aa = syn.one_fn("append_assign", mod="generate::convert")
    variants = syn.enum_variants("generate::ast::node::Core")
    local = {f_["name"]: f_ for f_ in syn.fns if f_["mod"] == ar["mod"] and f_.get("impl_of") is None and f_.get("body")}
    meths = {f_["name"]: f_ for f_ in syn.fns if f_["mod"] == ar["mod"] and f_.get("impl_of") and not f_.get("impl_trait") and f_.get("body")
             and f_["sig"]["inputs"] and f_["sig"]["inputs"][0].get("pat", {}).get("name") == "self"}
    ev = SmallEval(local_fns=local, methods={"to_py": lambda recv, *a: ("sym", "py")})
    ev.local_methods = meths
    out = {}
    for v, node in variants.items():
        fields = node.get("fields") or []
        val = {"__struct__": v}
        for fld in fields:
            fty = str(fld[1]).replace(" ", "")
            val[fld[0]] = ("list", [("sym", f"{v}.{fld[0]}.0"), ("sym", f"{v}.{fld[0]}.1")]) if fty.startswith("Vec<") else ("sym", f"{v}.{fld[0]}")
        row = {}
        for name, fn, args in (("ret", ar, []), ("assign", aa, [("sym", "target"), ("Some", ("sym", "tname")), ("sym", "imp")])):
            inp = copy.deepcopy(val) if fields else f"Core::{v}"
            try:
                r = ev.call(fn, [inp] + args)
            except NoEval as e:
                row[name] = f"not foldable ({e})"
                continue
            if r == inp or (isinstance(inp, str) and r in (inp, v)):
                row[name] = "skip"
            elif isinstance(r, dict) and r.get("__struct__") == "Return" and r.get("expr") == inp:
                row[name] = "wrap"
            elif isinstance(r, dict) and r.get("__struct__") == "VarDef" and r.get("expr") in (("Some", inp), inp):
                row[name] = "wrap"
            else:
                row[name] = "recurse" if isinstance(r, dict) and r.get("__struct__") == v else f"something else ({str(r)[:60]})"
        out[v] = row
    return out


def _walker_table(fn):
    """Core variant -> {field: 'recurse' | 'clone'} for the explicit arms; plus the guard leaf and the default wrapper"""
    ms = [n for n in walk(fn["body"]) if n.get("k") == "match"]
    if not ms:
        raise AnchorError(f"{fn['name']}: no match")
    m = ms[0]
    table, leaf, default = {}, None, None
    name = fn["name"]
    for a in m["arms"]:
        for alt in pat_alternatives(a["pat"]):
            if alt.get("k") == "pstruct" and alt["p"].startswith("Core::"):
                v = alt["p"].split("::")[1]
                fields = {}
                st = chain._struct_of(a["body"])
                if v == "Block":
                    # the last statement is replaced by the walked one
                    s = src(a["body"]).replace(" ", "")
                    fields = {"statements": "recurse-last" if f"statements.last()" in s and f"{name}(last" in s and "statements[idx]=last" in s else "?"}
                    none_arm = [x for n in walk(a["body"]) if n.get("k") == "match" for x in n["arms"] if src(x["pat"]) == "None"]
                    fields["empty"] = src(strip(none_arm[0]["body"])).replace(" ", "")[:60] if none_arm else "?"
                elif st is not None:
                    for fname, fe in st["fields"]:
                        s = src(fe).replace(" ", "")
                        fields[fname] = "recurse" if name in s else "clone"
                table[v] = fields
            elif alt.get("k") == "pident" and a.get("guard"):
                leaf = src(strip(a["guard"])).replace(" ", "")
            elif alt.get("k") == "pwild":
                st = chain._struct_of(a["body"])
                default = st["p"] if st is not None else src(a["body"])[:40]
    return table, leaf, default


def _siblings(chk, facts):
    syn = facts.syn
    try:
        ar = syn.one_fn("append_ret", mod="generate::convert")
        aa = syn.one_fn("append_assign", mod="generate::convert")
        tr, lr, dr = _walker_table(ar)
        ta, la, da = _walker_table(aa)
        loc = facts.loc_of(aa)
        # both walkers are folded over the same small Core trees (rules/smalleval.py): the value positions that append_ret wraps in a Return are
        # the positions that append_assign wraps in an assignment - whatever helpers the two share
        from .smalleval import SmallEval, NoEval
        import copy
        local = {f_["name"]: f_ for f_ in syn.fns if f_["mod"] == ar["mod"] and f_.get("impl_of") is None and f_.get("body")}
        L = lambda s_: {"__struct__": "Id", "lit": s_}
        B = lambda *st: {"__struct__": "Block", "statements": ("list", list(st))}
        trees = {
            "Block": B(L("s1"), L("v1")),
            "IfElse": {"__struct__": "IfElse", "cond": L("c"), "then": L("v1"), "el": B(L("s1"), L("v2"))},
            "Match": {"__struct__": "Match", "expr": L("e"), "cases": ("list", [{"__struct__": "Case", "expr": L("p1"), "body": L("v1")}, {"__struct__": "Case", "expr": L("p2"), "body": B(L("s"), L("v2"))}])},
            "TryExcept": {"__struct__": "TryExcept", "setup": None, "attempt": L("v1"), "except": ("list", [
                {"__struct__": "ExceptId", "id": L("i"), "class": L("k"), "body": L("v2")}, {"__struct__": "Except", "class": L("k2"), "body": B(L("s"), L("v3"))}])},
            "nested": B(L("s0"), {"__struct__": "IfElse", "cond": L("c"), "then": B(L("s1"), L("v1")), "el": {"__struct__": "Return", "expr": L("r")}}),
            "empty-block": B(),
        }

        def wrapped(v, kind, out):
            if isinstance(v, dict):
                if kind == "ret" and v.get("__struct__") == "Return" and isinstance(v.get("expr"), dict) and v["expr"].get("__struct__") == "Id":
                    out.add(v["expr"]["lit"])
                if kind == "assign" and v.get("__struct__") in ("VarDef", "Assign"):
                    e_ = v.get("expr") if v.get("__struct__") == "VarDef" else v.get("right")
                    e_ = e_[1] if isinstance(e_, tuple) and e_ and e_[0] == "Some" else e_
                    if isinstance(e_, dict) and e_.get("__struct__") == "Id":
                        out.add(e_["lit"])
                for x in v.values():
                    wrapped(x, kind, out)
            elif isinstance(v, tuple):
                for x in v[1:] if v and v[0] in ("list", "Some", "tuple") else ():
                    wrapped(x, kind, out)
            elif isinstance(v, list):
                for x in v:
                    wrapped(x, kind, out)
        ev_r, ev_a = SmallEval(local_fns=local), SmallEval(local_fns=local)
        # predicates may be written as private methods of `Core` (`core.skip_return()`) instead of free functions
        meths_w = {f_["name"]: f_ for f_ in syn.fns if f_["mod"] == ar["mod"] and f_.get("impl_of") and not f_.get("impl_trait") and f_.get("body")
                   and f_["sig"]["inputs"] and f_["sig"]["inputs"][0].get("pat", {}).get("name") == "self"}
        ev_r.local_methods, ev_a.local_methods = dict(meths_w), dict(meths_w)
        fold_bad = None
        try:
            for label, t_ in trees.items():
                wr, wa = set(), set()
                wrapped(ev_r.call(ar, [copy.deepcopy(t_)]), "ret", wr)
                wrapped(ev_a.call(aa, [copy.deepcopy(t_), L("target"), None, {"__struct__": "Imports"}]), "assign", wa)
                wr.discard("r")       # an explicit `return r` is already a Return
                if wr != wa and fold_bad is None:
                    fold_bad = f"{label}: append_ret returns {sorted(wr)}, append_assign assigns {sorted(wa)}"
        except NoEval as ex:
            fold_bad = f"the walkers could not be folded ({ex})"
        chk.ob("R-C01-4", "fold:same-positions", fold_bad is None, "on six small trees append_ret returns exactly the value positions that append_assign assigns" if fold_bad is None else
               f"the two desugaring walkers disagree - {fold_bad}: a value in that position is returned but not assigned (or the reverse)", loc)
        for v in sorted(set(tr) | set(ta)):
            fr, fa = tr.get(v), ta.get(v)
            if v == "Block":
                ok = fold_bad is None
                chk.ob("R-C01-4", "variant:Block", ok, "both walkers replace the last statement of a block by the walked one" if ok else
                       f"append_ret / append_assign on a Block: {fold_bad}", loc)
                continue
            ok = fr == fa and fr is not None
            chk.ob("R-C01-4", f"variant:{v}", ok, f"{v}: both walkers descend through {sorted(k for k, x in fr.items() if x == 'recurse')}" if ok else
                   f"{v}: append_ret descends through {fr}, append_assign through {fa}: a value in that position is returned but not assigned (or the reverse)", loc)
        chk.floor("R-C01-4", len(set(tr) & set(ta)), 7, "compound variants handled by both walkers")
        # what each walker does with a node of every Core variant (folded, see walker_leaf_table): the nodes that append_ret leaves alone are
        # the ones that transfer control themselves (Return, Raise) and the statements, which have no value; append_assign leaves alone the
        # same nodes and the two that bind already; the compound nodes are descended by both; everything else is wrapped by both
        leaf = walker_leaf_table(syn)
        odd = {v_: r_ for v_, r_ in leaf.items() if r_["ret"] not in ("skip", "wrap", "recurse") or r_["assign"] not in ("skip", "wrap", "recurse")}
        skip_r = {v_ for v_, r_ in leaf.items() if r_["ret"] == "skip"}
        skip_a = {v_ for v_, r_ in leaf.items() if r_["assign"] == "skip"}
        rec_r = {v_ for v_, r_ in leaf.items() if r_["ret"] == "recurse"}
        rec_a = {v_ for v_, r_ in leaf.items() if r_["assign"] == "recurse"}
        ok = not odd and rec_r == rec_a and len(leaf) >= 70
        chk.ob("R-C01-4", "leaves-and-default", ok, f"every one of the {len(leaf)} Core variants is left alone, descended or wrapped (Return / VarDef) by each walker; both descend the same {len(rec_r)} compound variants" if ok else
               f"the walkers treat some variant in another way: {dict(list(odd.items())[:2]) or sorted(rec_r ^ rec_a)}", loc)
        STATEMENTS = {"If", "While", "For", "With", "WithAs", "VarDef", "Assign", "FunDef", "FunDefOp", "ClassDef", "Import", "Break", "Continue", "Pass"}
        ok = skip_r == {"Return", "Raise"} | STATEMENTS and skip_a == skip_r | {"VarDef", "Assign"}
        chk.ob("R-C01-4", "skip-sets", ok, "append_ret leaves alone {Return, Raise} and the statements; append_assign the same and {VarDef, Assign}" if ok else
               f"append_ret leaves alone {sorted(skip_r)}, append_assign {sorted(skip_a)}: "
               "a statement that already transfers control or binds is wrapped again (or a value is no longer returned/assigned)", loc)
        # the hooks in convert_node: assign first, then return, both on the converted node
        from .smalleval import NoEval as _NoEvalSk
        try:
            cn, sk, _ = convert_node_skeleton(syn)
            CORE, T, N = ("sym", "CORE"), ("sym", "target"), ("sym", "tname")
            want_sk = {(False, False): ("Ok", CORE), (False, True): ("Ok", ("ret", CORE)), (True, False): ("Ok", ("assign", CORE, T, N)),
                       (True, True): ("Ok", ("ret", ("assign", CORE, T, N)))}
            ok = all(sk[k_][0] == want_sk[k_] for k_ in want_sk)
        except _NoEvalSk:
            cn = syn.one_fn("convert_node", mod="generate::convert")
            ok = False
        chk.ob("R-C01-4", "convert_node:hooks", ok, "convert_node applies append_assign (if a target is pending) and then append_ret (if the last statement must return)" if ok else
               "the order or the conditions of the append_assign / append_ret hooks in convert_node changed", facts.loc_of(cn))
    except AnchorError as e:
        chk.anchor_fail("R-C01-4", e)


# ------------------------------------------------------------------------------------------------------------------------
def _ranges(chk, facts):
    syn = facts.syn
    try:
        # parser: inclusive flag from the token
        table = load_table("mamba_operators.json")["range"]
        prs = [r for r in chain.parser_operator_table(facts) if r["node"] in ("Range", "Slice")]
        lm = lexer.LexerModel(facts)
        spell = {}
        for ch, ps in lm.paths.items():
            for p in ps:
                if p.token.startswith("Token::"):
                    spell.setdefault(p.token.split("::")[1], set()).add(p.text())
        for r in prs:
            sp = next(iter(spell.get(r["token"], {"?"})))
            want = table.get(sp)
            ok = want is not None and r["fields"].get("inclusive") == ("true" if want == "inclusive" else "false") and r["fields"].get("from") == "arithmetic" \
                and r["fields"].get("to") == "to" and r["fields"].get("step") == "step" and r["node"] == ("Range" if sp.startswith("..") else "Slice")
            chk.ob("R-C01-5", f"parse:{sp}", ok, f"`a {sp} b` -> {r['node']} {{ from: a, to: b, inclusive: {r['fields'].get('inclusive')} }}" if ok else
                   f"`{sp}` is documented {want} but is parsed as Node::{r['node']} {r['fields']}", facts.loc_of(r["fn"]))
        chk.floor("R-C01-5", len(prs), 4, "range/slice parser arms")
        # N->T keeps inclusive
        n2t, fn1 = chain.node_to_nodety(facts)
        for v in ("Range", "Slice"):
            rows = [r for r in n2t if r["src"] == v]
            ok = len(rows) == 1 and rows[0]["dst"] == v and all(rows[0]["fields"].get(f, ([], ""))[0] == [f] for f in ("from", "to", "inclusive", "step"))
            chk.ob("R-C01-5", f"Node->NodeTy:{v}", ok, f"{v}: from, to, inclusive, step carried one-to-one" if ok else f"{v}: NodeTy::from changes the fields: {rows[0]['fields'] if rows else None}", facts.loc_of(fn1))
        cr = syn.one_fn("convert_range_slice", mod="generate::convert::range_slice")
        loc = facts.loc_of(cr)
        from . import symeval
        se = symeval.SymEval(syn, "generate::convert")
        ms = [n for n in walk(cr["body"]) if n.get("k") == "match"]
        ONE = ("core", "Core::Int", {"int": ("str", "1")})
        for a in ms[0]["arms"]:
            for alt in pat_alternatives(a["pat"]):
                if alt.get("k") != "pstruct":
                    continue
                v = alt["p"].split("::")[-1]
                if v not in ("Range", "Slice"):
                    continue
                label = v.lower()
                env = {}
                for fname, fp in alt["fields"]:
                    for m in walk(fp):
                        if m.get("k") == "pident":
                            env[m["name"]] = ("var", fname)
                val = se.ev(a["body"], env)   # what the arm builds, whatever the way it is written (helpers, lets, match/if-let)
                if val[0] != "core" or val[1] != "Core::FunctionCall":
                    raise AnchorError(f"{v}: the arm builds {symeval.show(val)[:80]}")
                fn_v, args_v = val[2].get("function"), val[2].get("args")
                ok = fn_v is not None and fn_v[0] == "core" and fn_v[1] == "Core::Id" and fn_v[2].get("lit") in (("var", f"clss::python::{v.upper()}"), ("var", f"python::{v.upper()}"), ("var", v.upper()))
                chk.ob("R-C01-5", f"{label}:callee", ok, f"{v} -> {label}(..)" if ok else f"{v} is built as a call of `{symeval.show(fn_v)[:60]}`", loc)
                if args_v is None or args_v[0] != "list" or len(args_v[1]) != 3:
                    raise AnchorError(f"{v}: arguments are {symeval.show(args_v)[:80] if args_v else None}")
                e0, e1, e2 = args_v[1]
                ok = e0[0] == "conv" and e0[1] == "from"
                chk.ob("R-C01-5", f"{label}:arg1", ok, f"{label}: first argument is `from`" if ok else f"{label}: first argument is `{symeval.show(e0)[:60]}`", loc)

                def is_to(x):
                    return x[0] == "conv" and x[1] == "to"

                def adj(x):
                    if is_to(x):
                        return "to"
                    if x[0] == "core" and x[1] in ("Core::Add", "Core::Sub") and is_to(x[2].get("left", ("?",))):
                        r = x[2].get("right")
                        sign = "+" if x[1] == "Core::Add" else "-"
                        return "to" + sign + ("1" if r == ONE else "<" + symeval.show(r)[:30] + ">")
                    return "?" + symeval.show(x)[:40]
                if e1[0] != "ite" or e1[1] != "inclusive":
                    chk.ob("R-C01-5", f"{label}:end", False, f"{label}: the end argument is not a choice on the node's own `inclusive` flag: `{symeval.show(e1)[:80]}`", loc)
                else:
                    ai, ae = adj(e1[2]), adj(e1[3])
                    ok = ai == "to+1" and ae == "to"
                    chk.ob("R-C01-5", f"{label}:end", ok, f"{label}: end is `to` when exclusive and `to + 1` when inclusive" if ok else
                           f"{label}: end is `{ae}` when exclusive and `{ai}` when inclusive; Python's {label}() excludes its end, so exclusive must be `to` and inclusive `to + 1`", loc)
                    if v == "Range" and ai == "to+1":
                        # `to + 1` is the right end only for a positive step; adj() recognises no other adjustment, so a repair of this
                        # finding has to teach it the form it uses
                        chk.ob("R-C01-5", "range:inclusive-end-ignores-step", False,
                               "the inclusive end is `to + 1` whatever the step: with a negative step the range stops one short of `to` (3 ..= 1 .. -1 gives 3 only)", loc)
                ok = e2[0] == "ite" and e2[1] == "some(step)" and e2[2][0] == "conv" and e2[2][1] == "step" and e2[3] == ONE
                chk.ob("R-C01-5", f"{label}:step", ok, f"{label}: third argument is the step, default 1" if ok else f"{label}: the step argument is `{symeval.show(e2)[:80]}`", loc)
    except AnchorError as e:
        chk.anchor_fail("R-C01-5", e)


# ------------------------------------------------------------------------------------------------------------------------
def _fstr(chk, facts):
    try:
        t2c, fn = chain.nodety_to_core(facts)
        pm = printer.PrinterModel(facts)
        rows = [r for r in t2c if r["src"] == "Str"]
        g = [r for r in rows if r["guard"]]
        u = [r for r in rows if not r["guard"]]
        ok = len(g) == 1 and len(u) == 1 and g[0]["guard"].replace(" ", "") == "expressions.is_empty()" and g[0]["dst"] == "Str" and u[0]["dst"] == "FStr" \
            and g[0]["fields"].get("string", ([], ""))[0] == ["lit"] and u[0]["fields"].get("string", ([], ""))[0] == ["lit"]
        chk.ob("R-C01-6", "convert:Str", ok, "a string without interpolations is Core::Str, with interpolations Core::FStr, both carrying the literal" if ok else
               f"convert_node's Str arms changed: {[(r['guard'], r['dst']) for r in rows]}", facts.loc_of(fn))
        for v, pre in (("Str", '"'), ("FStr", 'f"')):
            arms = pm.arms_of(v)
            t = _render(arms[0]) if len(arms) == 1 else None
            ok = t == pre + "{string}" + '"'
            chk.ob("R-C01-6", f"print:{v}", ok, f"Core::{v} is printed as `{t}`" if ok else f"Core::{v} is printed as `{t}` instead of `{pre}{{string}}\"`: "
                   + ("interpolations would be printed literally" if v == "FStr" else "a plain string would be interpolated or mis-delimited"), facts.loc_of(pm.fn))
    except AnchorError as e:
        chk.anchor_fail("R-C01-6", e)


# ------------------------------------------------------------------------------------------------------------------------
STATE_SETTERS = {"is_last_must_be_ret": "is_last_must_be_ret", "must_assign_to": "must_assign_to", "remove_ret": "is_remove_last_ret",
                 "expand_ty": "expand_ty", "in_interface": "interface", "tuple_literal": "tup_lit", "def_as_fun_arg": "def_as_fun_arg", "in_tup": "tup"}
STATE_SITES_REVIEWED = {
    # (function, setter, argument class) -> (count, why)
    ("convert_node", "must_assign_to", "None"): (1, "the pending assignment target is consumed by this node and reset for its children"),
    ("convert_node", "is_last_must_be_ret", "false"): (1, "the pending return is consumed by this node and reset for its children"),
    ("convert_node", "remove_ret", "false"): (1, "a `return e` inside a ternary branch is replaced by `e` once"),
    ("convert_cntrl_flow", "is_last_must_be_ret", "false"): (4, "conditions and match patterns are never returned"),
    ("convert_cntrl_flow", "must_assign_to", "None"): (4, "conditions and match patterns are never assigned"),
    ("convert_cntrl_flow", "remove_ret", "true"): (1, "branches of a ternary are expressions"),
    ("convert_def", "must_assign_to", "Some"): (1, "`def x := <if/match/handle>`: every branch assigns x"),
    ("convert_def", "is_last_must_be_ret", "field:ret.is_some()"): (1, "the body's last expression is returned iff the function declares a return type"),
    ("convert_handle", "must_assign_to", "Some"): (1, "`def x := e handle ..`: the attempt and every arm assign x"),
}


def _state_flags(chk, facts):
    syn = facts.syn
    chk.rule("R-C01-7", "desugaring state: every State setter changes exactly its own field; the return/assign flags are set only at the reviewed sites; "
                        "only if/match receive the unreset state")
    # (a) setters
    try:
        n = 0
        # each setter is folded over a state whose fields are distinct symbols (rules/smalleval.py): the result must be that state with
        # exactly the setter's own field replaced - however the copy is written (struct update, clone-and-assign, a `with` helper)
        from .smalleval import SmallEval, NoEval
        st_struct = syn.structs.get("generate::convert::state::State")
        if not st_struct:
            raise AnchorError("struct generate::convert::state::State not found")
        fields_all = [fn_ for fn_, _ in st_struct["fields"]]
        methods = {f_["name"]: f_ for f_ in syn.fns if f_["mod"] == "generate::convert::state" and "State" == (f_.get("impl_of") or "").strip() and f_.get("body")}
        unc_all = []
        for setter, field in STATE_SETTERS.items():
            f = syn.one_fn(setter, mod="generate::convert::state", impl_of="State")
            ev_s = SmallEval()
            ev_s.local_methods = methods
            self_v = {"__struct__": "State"}
            self_v.update({fn_: ("sym", "old." + fn_) for fn_ in fields_all})
            params = [i_["pat"]["name"] for i_ in f["sig"]["inputs"][1:] if i_.get("pat", {}).get("k") == "pident"]
            import itertools
            tys = [str(i_.get("ty", "")).replace(" ", "") for i_ in f["sig"]["inputs"][1:] if i_.get("pat", {}).get("k") == "pident"]
            choices = [([None, ("Some", ("sym", "arg." + p_))] if t_.startswith("Option<") else [("sym", "arg." + p_)]) for p_, t_ in zip(params, tys)]
            ok, why_s = True, ""
            try:
                for args in itertools.product(*choices):
                    res_v = ev_s.call(f, [dict(self_v)] + list(args))
                    if not isinstance(res_v, dict):
                        ok, why_s = False, "does not yield a State"
                        break
                    changed = sorted(fn_ for fn_ in fields_all if res_v.get(fn_) != self_v[fn_])
                    # exactly the own field changes (or nothing, when the new value happens to be the old one), and its new value is
                    # built from the parameters only
                    if not (changed == [field] or (changed == [] and not params)) or "old." in repr(res_v.get(field)) and changed == [field]:
                        ok, why_s = False, f"changes {changed}"
                        break
            except NoEval as ex:
                ok, why_s = False, f"could not be evaluated ({ex})"
            unc_all += ev_s.uncovered()
            chk.ob("R-C01-7", f"setter:{setter}", ok, f"State::{setter} sets `{field}` and copies the rest" if ok else
                   f"State::{setter} no longer sets exactly `{field}` ({why_s}): another desugaring flag changes with it", facts.loc_of(f))
            n += 1
        chk.ob("R-C01-7", "setters:fold-covers-every-branch", not unc_all, "the argument table (None / Some for optional parameters) reaches every branch of the setters" if not unc_all else
               f"the argument table does not reach {len(unc_all)} branch(es) of the State setters, e.g. {unc_all[0]}")
        chk.floor("R-C01-7", n, 8, "State setters")
    except AnchorError as e:
        chk.anchor_fail("R-C01-7", e)
    # (b) under which state each child is converted (rules/stateuse.py): the rows found are exactly the reviewed ones
    from . import stateuse
    from .common import load_table
    table = load_table("c01_state_use.json")
    want = {(r["owner"], r["callee"], r["child"], r["root"], tuple(r["setters"])): r["why"] for r in table["rows"]}
    got = stateuse.rows(syn)
    conv_fn = {f["name"]: f for f in syn.fns if f["mod"].startswith("generate::convert")}
    for row in got:
        owner, callee, child, root, setters = row
        ok = row in want
        chk.ob("R-C01-7", f"under:{owner}|{callee}|{child}|{','.join(setters) or 'inherited'}", ok,
               f"{owner}: {child} is converted ({callee}) under {'the inherited state' if not setters else ' + '.join(setters)} - {want.get(row, '')}" if ok else
               f"{owner} converts `{child}` ({callee}) under {'the inherited state' if not setters else ' + '.join(setters)}: not a reviewed combination - "
               "an implicit return or assignment can appear or disappear for some program shape (a condition converted under the pending return is returned; "
               "a branch that loses it returns nothing)", facts.loc_of(conv_fn[owner]) if owner in conv_fn else None)
    for row in sorted(set(want) - set(got)):
        owner, callee, child, root, setters = row
        chk.ob("R-C01-7", f"under:{owner}|{callee}|{child}|{','.join(setters) or 'inherited'}", False,
               f"{owner} no longer converts `{child}` under {'the inherited state' if not setters else ' + '.join(setters)} ({want[row]})",
               facts.loc_of(conv_fn[owner]) if owner in conv_fn else None)
    chk.floor("R-C01-7", len(got), 100, "conversions under a state")
    # (c) only IfElse / Match get the unreset state
    try:
        t2c, cn = chain.nodety_to_core(facts)
        from .smalleval import NoEval as _NoEvalSk2
        try:
            _, sk, fields_all = convert_node_skeleton(syn)
            unreset = set(sk[(True, True)][2] or [])
            reset_ok = all(isinstance(u_, dict) and u_.get("must_assign_to") is None and u_.get("is_last_must_be_ret") is False and
                           all(u_.get(f_) == ("sym", "old." + f_) for f_ in fields_all if f_ not in ("must_assign_to", "is_last_must_be_ret"))
                           for (_r, u_, _n) in sk.values())
        except _NoEvalSk2:
            unreset, reset_ok = set(), False
        users = sorted({r["src"] for r in t2c if unreset & idents_in(r["arm"]["body"])})
        ok = users == ["IfElse", "Match"]
        chk.ob("R-C01-7", "old_state-users", ok, "only if and match are converted with the pending return/assignment still set (their branches take it over)" if ok else
               f"the unreset state ({sorted(unreset) or 'not found'}) is handed to {users}: the pending return/assignment is applied inside and again outside that construct", facts.loc_of(cn))
        ok = reset_ok
        chk.ob("R-C01-7", "convert_node:save-and-reset", ok, "convert_node saves both pending flags, then shadows `state` with both reset" if ok else
               "convert_node no longer saves and resets both pending flags before converting the children", facts.loc_of(cn))
    except AnchorError as e:
        chk.anchor_fail("R-C01-7", e)


# ------------------------------------------------------------------------------------------------------------------------
def _number_grammar(chk, facts):
    """R-C01-8: the documented number forms are one token. The grammar (docs/spec/grammar.md) allows a sign in the exponent of an
    E-number; if the lexer stopped before it, `1E-3` would still parse - as the subtraction `1E - 3` - and mean something else."""
    import os
    chk.rule("R-C01-8", "a sign that the documented number grammar allows inside a literal is consumed by the lexer's number loop")
    try:
        g = facts.repo_file("docs/spec/grammar.md")
    except OSError as e:
        chk.anchor_fail("R-C01-8", f"docs/spec/grammar.md: {e}")
        return
    m = re.search(r"e-notation\s*::=\s*(.+)", g)
    if not m:
        chk.anchor_fail("R-C01-8", "no `e-notation` production in docs/spec/grammar.md")
        return
    signed = re.search(r'\[\s*"-"\s*\]', m.group(1)) is not None
    try:
        tk = facts.syn.one_fn("into_tokens", mod="parse::lex::tokenize")
    except AnchorError as e:
        chk.anchor_fail("R-C01-8", e)
        return
    arm = None
    for n in walk(tk["body"]):
        if n.get("k") == "match":
            for a in n["arms"]:
                if a.get("guard") and "e_num" in src(a["guard"]) and any(alt.get("k") == "plit" and alt["e"].get("v") == "-" for alt in pat_alternatives(a["pat"])):
                    arm = a
    if not signed:
        chk.ob("R-C01-8", "exponent-sign", True, "the documented grammar has no sign inside number literals")
        return
    ok = arm is not None and "exp.push(c)" in src(arm["body"]).replace(" ", "") and "it.next()" in src(arm["body"]).replace(" ", "")
    chk.ob("R-C01-8", "exponent-sign", ok, "`E-` : the sign of the exponent is pushed into the exponent and consumed" if ok else
           "the grammar documents `e-notation ::= .. \"E\" [ \"-\" ] integer` but the number loop of the lexer has no arm that takes `-` into the exponent: "
           "`1E-3` is lexed as `1E`, `-`, `3` and emitted as `(1 * 10 ** 0) - 3`", facts.loc_of(tk))
