import re
"""A14 - the operator/construct chain: Mamba spelling -> Token -> Node -> NodeTy -> Core -> Python spelling.

Every stage is a `match` whose arms rebuild a variant of the next enum from the fields of the current one. `struct_arms` turns such
a match into rows  (source variant, guard, target variant, {target field: (source fields mentioned, wrapper)})  so that rules can
state agreement between stages without freezing any text.
"""
from .common import is_node_scrutinee, walk, src, strip, pat_alternatives, idents_in, tail_expr, AnchorError


def _struct_of(body):
    """the struct literal an arm evaluates to (through a block tail), else None"""
    e = body
    for _ in range(4):
        if e is None:
            return None
        if e.get("k") == "struct":
            return e
        if e.get("k") == "block":
            e = tail_expr(e)
            continue
        if e.get("k") == "paren":
            e = e["e"]
            continue
        return None
    return None


def _wrapper(e):
    """which conversion a field initialiser applies to the source field"""
    names = []
    for n in walk(e):
        if n.get("k") == "call" and n["f"].get("k") == "path":
            names.append(n["f"]["p"].split("::")[-1])
        elif n.get("k") == "mcall":
            names.append(n["m"])
    for w in ("convert_node", "convert_vec", "from", "clone", "map"):
        if w in names:
            return w
    return "direct" if not names else names[0]


def _arm_locals(body):
    """`let x = <init>;` statements of an arm's block (single identifier patterns), in order: name -> init.
    `let expr = f(expr); Core::Not { expr }` is the same construction as `Core::Not { expr: f(expr) }`."""
    out = {}
    e = body
    for _ in range(3):
        if e is not None and e.get("k") == "block":
            for st in e["stmts"]:
                if st.get("k") == "local" and st.get("init") is not None and st["pat"].get("k") == "pident" and st.get("else") is None:
                    out.setdefault(st["pat"]["name"], st["init"])
            e = tail_expr(e)
        else:
            break
    return out


def _through_locals(fe, locs, depth=0):
    """a field initialiser that is just the name of an arm-local `let` stands for that local's initialiser"""
    e = strip(fe)
    if depth < 3 and e.get("k") == "path" and e["p"] in locs:
        init = locs[e["p"]]
        rest = {k: v for k, v in locs.items() if k != e["p"]}   # inside its own initialiser the name means the outer binding
        return _through_locals(init, rest, depth + 1)
    return fe


def struct_arms(match_node, src_prefix, dst_prefix):
    """rows for every arm alternative `Src::X { a, b } [if g] => Dst::Y { p: f(a), q: g(b) }`; arms with another shape get
    target None (delegation to a helper)"""
    rows = []
    for a in match_node["arms"]:
        st = _struct_of(a["body"])
        for alt in pat_alternatives(a["pat"]):
            if alt.get("k") not in ("pstruct", "ppath", "ptstruct"):
                if alt.get("k") in ("pwild", "pident"):
                    rows.append({"src": "_", "guard": src(a["guard"]) if a.get("guard") else None, "dst": None, "fields": {}, "arm": a})
                continue
            head = alt["p"].split("::")
            if len(head) == 2 and head[0] != src_prefix:
                continue
            v = head[-1]
            bound = {}
            if alt.get("k") == "pstruct":
                for fname, fp in alt["fields"]:
                    for m in walk(fp):
                        if m.get("k") == "pident":
                            bound[m["name"]] = fname
            row = {"src": v, "guard": src(a["guard"]) if a.get("guard") else None, "dst": None, "fields": {}, "arm": a, "bound": bound}
            if st is not None and st["p"].split("::")[0] == dst_prefix and len(st["p"].split("::")) == 2:
                row["dst"] = st["p"].split("::")[1]
                locs = _arm_locals(a["body"])
                for fname, fe in st["fields"]:
                    fe = _through_locals(fe, locs)
                    used = sorted({bound[i] for i in idents_in(fe) if i in bound})
                    row["fields"][fname] = (used, _wrapper(fe))
            elif a["body"].get("k") == "path" and a["body"]["p"].split("::")[0] == dst_prefix:
                row["dst"] = a["body"]["p"].split("::")[1]
            rows.append(row)
    return rows


def node_to_nodety(facts):
    """rows of `impl From<(&Node, &Finished)> for NodeTy`"""
    syn = facts.syn
    c = [f for f in syn.find_fn("from", mod="check::ast::node", impl_of="NodeTy") if (f.get("impl_trait") or "").replace(" ", "") == "From<(&Node,&Finished)>"]
    if len(c) != 1:
        raise AnchorError(f"{len(c)} impls of From<(&Node, &Finished)> for NodeTy")
    ms = [n for n in walk(c[0]["body"]) if n.get("k") == "match"]
    if not ms:
        raise AnchorError("NodeTy::from has no match")
    return struct_arms(ms[0], "Node", "NodeTy"), c[0]


def nodety_to_core(facts):
    syn = facts.syn
    cn = syn.one_fn("convert_node", mod="generate::convert")
    ms = [n for n in walk(cn["body"]) if n.get("k") == "match" and is_node_scrutinee(n["e"])]
    if len(ms) != 1:
        raise AnchorError(f"convert_node: {len(ms)} matches on &ast.node")
    return struct_arms(ms[0], "NodeTy", "Core"), cn


def unique_target(rows, variant):
    """the single target variant of the unguarded arm(s) of `variant`, else None"""
    t = {r["dst"] for r in rows if r["src"] == variant}
    return next(iter(t)) if len(t) == 1 else None


def _parsed_operand(syn, f, block, st, name):
    """is `name` - the value of a field of the node `st` - what the parser parsed after the operator token?
    (a) a local of the same block (or of the function) initialised from `<it>.parse(..)`; or
    (b) the parameter of a closure `|name| Node::V { .. }` handed to a private helper of the module, which applies that parameter
        to a local of its own initialised from `<it>.parse(..)` (the macro `un_op!` written as a function)"""
    def parsed_locals(body):
        return {src(m["pat"]) for m in walk(body) if m.get("k") == "local" and m.get("init") is not None
                and any(c.get("k") == "mcall" and c["m"] == "parse" for c in walk(m["init"]))}
    if not re.fullmatch(r"[a-z_]\w*", name or ""):
        return False
    if name in parsed_locals(block) or name in parsed_locals(f["body"]):
        # not rebound by a closure parameter in between
        if not any(c.get("k") == "closure" and any(src(p_) == name for p_ in c.get("params", c.get("inputs", []))) and any(x is st for x in walk(c["body"])) for c in walk(block)):
            return True
    for call in walk(block):
        if call.get("k") != "call" or call["f"].get("k") != "path":
            continue
        for i, a in enumerate(call["args"]):
            a_ = strip(a)
            while a_.get("k") in ("ref", "paren"):
                a_ = strip(a_["e"])
            if a_.get("k") != "closure" or not any(x is st for x in walk(a_["body"])):
                continue
            ps = [src(p_) for p_ in a_.get("params", a_.get("inputs", []))]
            if ps != [name]:
                return False
            helper = next((h for h in syn.fns if h["name"] == call["f"]["p"] and h["mod"] == f["mod"] and h.get("body")), None)
            if helper is None or i >= len(helper["sig"]["inputs"]):
                return False
            pname = src(helper["sig"]["inputs"][i]["pat"])
            loc_ = parsed_locals(helper["body"])
            applied = [c for c in walk(helper["body"]) if c.get("k") == "call" and c["f"].get("k") == "path" and c["f"]["p"] == pname]
            return bool(applied) and all(len(c["args"]) == 1 and src(strip(c["args"][0])) in loc_ for c in applied)
    return False


def parser_operator_table(facts):
    """rows (token, node variant, {node field: source expr}, eaten token, fn) for every operator the expression parser builds:
    binary: `match lex.token { Token::T => { it.eat(&Token::T, ..)?; let right = ..; Node::V { left: <first operand>, right } } }`
    unary:  `if it.eat_if(&Token::T).is_some() { let factor = ..; Node::V { expr: factor } }`"""
    syn = facts.syn
    rows = []
    fns = [f for f in syn.fns if f["mod"] == "parse::operation" and f.get("body")]
    if not fns:
        raise AnchorError("no functions in parse::operation")
    for f in fns:
        for n in walk(f["body"]):
            sc_ = strip(n["e"]) if n.get("k") == "match" else None
            if sc_ is not None and sc_.get("k") == "field" and sc_.get("name") == "token" and strip(sc_["base"]).get("k") == "path":   # `match <lex>.token`
                def parsed_locals(body):
                    return {src(m["pat"]) for m in walk(body) if m.get("k") == "local" and m.get("init") is not None
                            and any(c.get("k") == "mcall" and c["m"] == "parse" for c in walk(m["init"]))}
                outer_parsed = parsed_locals(f["body"]) - parsed_locals(n)
                for a in n["arms"]:
                    for alt in pat_alternatives(a["pat"]):
                        if alt.get("k") not in ("ppath", "pstruct", "ptstruct") or not alt["p"].startswith("Token::"):
                            continue
                        tok = alt["p"].split("::")[1]
                        structs = [m for m in walk(a["body"]) if m.get("k") == "struct" and m["p"].startswith("Node::")]
                        eats = [src(strip(m["args"][0])).split("::")[-1] for m in walk(a["body"]) if m.get("k") == "mcall" and m["m"] == "eat" and m["args"]]
                        # the operand parsed after the token
                        inner_parsed = parsed_locals(a["body"])
                        for st in structs:
                            fields = {k: src(strip(v)) for k, v in st["fields"]}
                            # which operand is which: parsed in front of the operator (a local of the function, outside the dispatch) or behind it
                            # (a local of the arm, after the token was eaten) - whatever the locals are called
                            roles = {k: ("after" if v in inner_parsed else ("before" if v in outer_parsed else "?")) for k, v in fields.items()}
                            rows.append({"token": tok, "node": st["p"].split("::")[1], "fields": fields, "roles": roles,
                                         "eaten": eats, "fn": f, "kind": "binary", "parsed_after": sorted(inner_parsed)})
            if n.get("k") == "if":
                c = src(strip(n["c"])).replace(" ", "")
                m_ = re.fullmatch(r"\(?[a-z_]\w*\.eat_if\(&Token::(\w+)\)\.is_some\(\)\)?", c)
                if m_:
                    tok = m_.group(1)
                    structs = [m for m in walk(n["then"]) if m.get("k") == "struct" and m["p"].startswith("Node::")]
                    for st in structs:
                        fields = {k: src(strip(v)) for k, v in st["fields"]}
                        rows.append({"token": tok, "node": st["p"].split("::")[1], "fields": fields,
                                     "eaten": [tok], "fn": f, "kind": "unary", "parsed_after": ["factor"],
                                     "operand_parsed": {k: _parsed_operand(syn, f, n["then"], st, v) for k, v in fields.items()}})
    return rows


def parse_tuple_fold(syn):
    """what `parse_tuple` returns for 0, 1, 2 and 3 parsed elements, by folding the function (and the private helpers it calls) with
    the iterator's methods replaced by symbols: -> (ok, description). Required: exactly one element -> that element itself (so
    that source parentheses exist only as tree shape); two or three elements -> not one of them alone"""
    from .smalleval import SmallEval, NoEval
    pt = syn.one_fn("parse_tuple", mod="parse::collection")
    local = {f["name"]: f for f in syn.fns if f["mod"] == "parse::collection" and f.get("impl_of") is None and f.get("body")}
    got = {}
    ev = None
    for n in (0, 1, 2, 3):
        elems = [("sym", f"e{i}") for i in range(n)]
        ev = SmallEval(local_fns=local,
                       funcs={"AST::new": lambda pos, node: {"__struct__": "AST", "pos": pos, "node": node}},
                       methods={"start_pos": lambda recv, *a: ("Ok", ("sym", "start")),
                                "eat": lambda recv, *a: ("Ok", ("sym", "end")),
                                "eat_if": lambda recv, *a: None,
                                "parse_vec": lambda recv, *a, _e=elems: ("Ok", ("list", list(_e))),
                                "union": lambda recv, o: ("sym", "span")})
        try:
            r = ev.call(pt, [("sym", "it")])
        except NoEval as e:
            return False, f"parse_tuple could not be folded for {n} element(s): {e}"
        if not (isinstance(r, tuple) and r and r[0] == "Ok"):
            return False, f"parse_tuple with {n} element(s) does not return Ok: {r!r}"
        got[n] = r[1]
    if got[1] != ("sym", "e0"):
        return False, f"`(e)` is not parsed as `e` itself: parse_tuple returns {got[1]!r} for one element"
    for n in (2, 3):
        v = got[n]
        if isinstance(v, tuple) and v and v[0] == "sym":
            return False, f"{n} elements between the brackets are parsed as one of them alone ({v[1]}): the others are lost"
    return True, "`(e)` is parsed as `e` itself, two or three elements are not (parse_tuple and its helpers folded over 0..3 elements)"
