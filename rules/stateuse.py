"""Under which desugaring state is which child converted?  (R-C01-7 b)

For every call in generate::convert that hands a `State` on (convert_node, convert_vec, the per-family converters), the state
argument is resolved through lets and private helpers to `<root parameter> + {setters applied}` and the converted child to the
`NodeTy` field it was bound from.  The result is a set of rows (owner function, callee, child, root, setters) that does not change
when a state is hoisted into a `let`, shared between two calls, or the calls move into a private helper - and that does change when
a condition is converted under the pending return/assignment or a branch loses it.
"""
from .common import walk, src, strip, Scopes, syn_owner

SETTERS = ("is_last_must_be_ret", "must_assign_to", "remove_ret", "in_tup", "expand_ty", "def_as_fun_arg", "tuple_literal", "is_remove_last_ret",
           "annotate", "interface", "in_interface")
TRANSPARENT = ("clone", "as_ref", "to_owned", "borrow", "deref")


def _chain(e):
    notes = []
    cur = strip(e)
    while isinstance(cur, dict) and cur.get("k") == "mcall":
        if cur["m"] in TRANSPARENT and not cur["args"]:
            pass
        else:
            a = ",".join(_argclass(x) for x in cur["args"])
            notes.append(f"{cur['m']}({a})")
        cur = strip(cur["recv"])
    return cur, list(reversed(notes))


def _argclass(a):
    s = src(strip(a), -30).replace(" ", "")
    if s in ("true", "false", "None"):
        return s
    if s.startswith("Some("):
        return "Some"
    if s.endswith(".is_some()"):
        return "<" + s.split(".")[-2] + ">.is_some()"
    return "_"


def _is_state_ty(ty):
    return "State" in (ty or "").replace(" ", "")


def rows(syn):
    out = []
    fns = [f for f in syn.fns if f["mod"].startswith("generate::convert") and not f["mod"].endswith("::state") and "test" not in f["mod"] and f.get("body")]
    by_name = {}
    for f in fns:
        by_name.setdefault(f["name"], []).append(f)

    def analyse(fn, pstate, prole, depth, owner):
        sc = Scopes(fn)
        role_of = {}
        for p in walk(fn["body"]):
            if p.get("k") == "pstruct" and p["p"].startswith("NodeTy::"):
                for fname, fp in p["fields"]:
                    for m in walk(fp):
                        if m.get("k") == "pident":
                            role_of[id(m)] = p["p"].split("::")[-1] + "." + fname
        state_params = {inp["pat"]["name"] for inp in fn["sig"]["inputs"] if inp.get("pat", {}).get("k") == "pident" and _is_state_ty(inp.get("ty"))}

        def state_of(e, d=0):
            """-> (root label, [setters]) or None when e is not a state"""
            root, notes = _chain(e)
            if not isinstance(root, dict) or root.get("k") != "path" or d > 8:
                return None
            b = sc.resolve(root)
            if b is None:
                return None
            if b.kind == "param":
                if b.name in pstate:
                    r0, n0 = pstate[b.name]
                    return r0, n0 + notes
                if b.name in state_params:
                    return "state", notes          # whatever the State parameter is called
                return None
            if b.kind == "let" and b.init is not None:
                inner = state_of(b.init, d + 1)
                if inner is None:
                    return None
                return inner[0], inner[1] + notes
            return None

        def role(e, d=0):
            cur = strip(e)
            while isinstance(cur, dict) and cur.get("k") in ("mcall", "field", "index", "try", "cast"):
                cur = strip(cur.get("recv") or cur.get("base") or cur.get("e"))
            if not isinstance(cur, dict) or cur.get("k") != "path":
                return "<expr>"
            b = sc.resolve(cur)
            if b is None:
                return cur["p"] if "::" in cur["p"] or cur["p"][:1].isupper() else "<local>"
            if id(b.node) in role_of:
                return role_of[id(b.node)]
            if b.kind == "param" and b.name in prole:
                return prole[b.name]
            if b.kind == "let" and b.init is not None and d < 4:
                r = role(b.init, d + 1)
                if r != "<expr>":
                    return r
            if b.kind in ("for", "closure", "iflet", "arm") and b.init is not None and d < 4:
                r = role(b.init, d + 1)
                if r != "<expr>":
                    return r
            # no NodeTy field behind it: a parameter is named by its position, any other binding is just "a local" (names may change)
            if b.kind == "param":
                pn_ = [inp.get("pat", {}).get("name") for inp in fn["sig"]["inputs"]]
                return f"<param {pn_.index(b.name)}>" if b.name in pn_ else "<param>"
            return "<local>"

        for n in walk(fn["body"]):
            if n.get("k") != "call" or n["f"].get("k") != "path":
                continue
            name = n["f"]["p"].split("::")[-1]
            st = None
            for a in n["args"]:
                st = state_of(a)
                if st is not None:
                    break
            if st is None:
                continue
            child = role(n["args"][0]) if n["args"] else "-"
            cal = by_name.get(name, [])
            if len(cal) == 1 and cal[0].get("vis", "") == "" and cal[0].get("impl_of") is None and depth < 3 and syn_owner(syn, cal[0]) != cal[0]["qual"]:
                params = [inp["pat"].get("name") for inp in cal[0]["sig"]["inputs"]]
                if len(params) == len(n["args"]):
                    ps, pr = {}, {}
                    for pn, aa in zip(params, n["args"]):
                        s_ = state_of(aa)
                        if s_ is not None:
                            ps[pn] = s_
                        else:
                            pr[pn] = role(aa)
                    analyse(cal[0], ps, pr, depth + 1, owner)
                    continue
            out.append((owner, name, child, st[0], tuple(sorted(set(st[1])))))

    for fn in fns:
        if fn.get("vis", "") == "" and fn.get("impl_of") is None and syn_owner(syn, fn) != fn["qual"]:
            continue    # analysed from its only caller, with the caller's states bound to its parameters
        analyse(fn, {}, {}, 0, fn["name"])
    return sorted(set(out))
