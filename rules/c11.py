"""C11 - the annotate option is semantically inert.

R-C11-1  non-interference (A12): in every function of `generate::`, a value derived from a read of a field named
         `annotate` may only (a) initialise a `let`, (b) be stored in the `ty` field of a `Core::*` literal,
         (c) be copied into another `annotate` field. Inside code that is control-dependent on such a value only
         type rendering (`to_py(imp)`) may touch the import collector, and no `?`/`return`/panic/`convert_*` may occur.
R-C11-2  who-may-read: only `generate::` (and the argument plumbing in the crate root) reads an `annotate` field at
         all (MIR field projections, resolved by type) - so the verdict of lexing/parsing/checking cannot depend on it.
R-C11-3  consumers: wherever a `ty` field of Core::{VarDef,FunArg,FunDef,FunDefOp} is *read* in `generate::`, it
         flows only into another `ty` field, or (in the printer) into an `if let Some(ty) = ty { format!(": {}"|" -> {}") }
         else { "" }` hole - i.e. erasing the annotation erases exactly that text.
"""
from .common import walk, src, strip, format_args_of, AnchorError, Scopes, norm_template

TY_CARRIERS = {"Core::VarDef", "Core::FunArg", "Core::FunDef", "Core::FunDefOp"}
ANNOT_TEMPLATES = {": {}", " -> {}"}


def parents_map(root):
    """id(node) -> parent node, with the key under which the child hangs"""
    pm = {}
    stack = [(root, None, None)]
    while stack:
        n, par, key = stack.pop()
        if isinstance(n, dict):
            pm[id(n)] = (par, key)
            for k, v in n.items():
                if isinstance(v, (dict, list)):
                    stack.append((v, n, k))
        elif isinstance(n, list):
            # lists are transparent: children hang off the list's parent with the same key
            for v in n:
                if isinstance(v, (dict, list)):
                    stack.append((v, par, key))
    return pm


def pat_pidents(p):
    return [n for n in walk(p) if n.get("k") == "pident"]


class Taint:
    """intraprocedural taint over one syntactic fn body, on lexically resolved bindings (shadowing-aware).
    seeds: pident nodes whose bindings start tainted; srcfield: name of a field whose every read is a source."""

    def __init__(self, fn, seed_pidents=(), srcfield=None):
        self.fn = fn
        self.srcfield = srcfield
        self.body = fn["body"]
        self.sc = Scopes(fn)
        self.pm = parents_map(self.body)
        self.tainted = set()   # Binding objects
        for pid in seed_pidents:
            b = self.sc.binding_of_pident(pid)
            if b is not None:
                self.tainted.add(b)
        self._fix()

    def _taint_pat(self, pat):
        ch = False
        for pid in pat_pidents(pat):
            b = self.sc.binding_of_pident(pid)
            if b is not None and b not in self.tainted:
                self.tainted.add(b)
                ch = True
        return ch

    def _fix(self):
        changed = True
        while changed:
            changed = False
            for n in walk(self.body):
                k = n.get("k")
                if k == "local" and n.get("init") is not None:
                    if self.is_tainted_expr(n["init"]):
                        changed |= self._taint_pat(n["pat"])
                elif k == "let":
                    if self.is_tainted_expr(n["e"]):
                        changed |= self._taint_pat(n["pat"])
                elif k == "match":
                    if self.is_tainted_expr(n["e"]):
                        for a in n["arms"]:
                            changed |= self._taint_pat(a["pat"])
                elif k == "for":
                    if self.is_tainted_expr(n["iter"]):
                        changed |= self._taint_pat(n["pat"])
                elif k == "closure":
                    par, key = self.pm.get(id(n), (None, None))
                    if par is not None and par.get("k") == "mcall" and self.is_tainted_expr(par["recv"]):
                        for p in n["params"]:
                            changed |= self._taint_pat(p)

    def is_tainted_node(self, n):
        if n.get("k") == "path":
            b = self.sc.resolve(n)
            return b is not None and b in self.tainted
        if self.srcfield and n.get("k") == "field" and n["name"] == self.srcfield:
            return True
        return False

    def is_tainted_expr(self, e):
        return any(self.is_tainted_node(n) for n in walk(e))

    def occurrences(self):
        for n in walk(self.body):
            if self.is_tainted_node(n):
                yield n

    def sink_of(self, n):
        """walk up from a tainted mention to the construct that finally receives the value: (kind, node, info)"""
        cur = n
        while True:
            par, key = self.pm.get(id(cur), (None, None))
            if par is None:
                return ("fn-tail", cur, None)
            pk = par.get("k")
            if pk == "local" and key == "init":
                return ("let", par, None)
            if pk == "let" and key == "e":
                return ("iflet", par, None)
            if pk == "struct" and key == "fields":
                for name, v in par["fields"]:
                    if v is cur or any(x is cur for x in walk(v)):
                        return ("field", par, name)
                return ("field", par, "?")
            if pk == "struct" and key == "rest":
                return ("struct-rest", par, None)
            if pk == "expr" and par.get("semi"):
                return ("stmt", par, None)
            if pk == "match" and key == "e":
                # scrutinee: the value flows into the arm patterns (_fix); what the match *produces* is judged where it goes
                return ("scrutinee", par, None)
            if pk == "if" and key == "c":
                return ("condition", par, None)
            if pk == "return":
                return ("return", par, None)
            if pk == "assign":
                return ("assign", par, None)
            if pk == "mcall" and key == "args" and SETTER_FIELD.get(par["m"]):
                # an argument of a State setter: stored in the one field that the setter changes (folded, see _setter_fields)
                return ("field", {"p": "State"}, SETTER_FIELD[par["m"]])
            if pk == "macro" and par.get("name", "").endswith("format_args"):
                return ("format", par, None)
            cur = par

    def controlled(self):
        """(construct, region) pairs: region executes only for some values of a tainted condition"""
        for n in walk(self.body):
            k = n.get("k")
            if k == "if" and self.is_tainted_expr(n["c"]):
                yield n, n["then"]
                if n.get("else"):
                    yield n, n["else"]
            elif k == "match":
                sc = self.is_tainted_expr(n["e"])
                for a in n["arms"]:
                    if sc or (a.get("guard") and self.is_tainted_expr(a["guard"])):
                        yield n, a["body"]
                    if a.get("guard") and self.is_tainted_expr(a["guard"]):
                        # a tainted guard also decides whether the *later* arms run
                        pass

    def value_sink(self, construct):
        """where the value of a tainted if/match goes"""
        return self.sink_of(construct)


SETTER_FIELD = {}


def _setter_fields(syn):
    """State methods `fn m(&self, v) -> State` that change exactly one field to their argument: {method: field} (rules/smalleval.py)"""
    from .smalleval import SmallEval, NoEval
    st = syn.structs.get("generate::convert::state::State")
    if not st:
        return {}
    fields = [n for n, _ in st["fields"]]
    methods = {f["name"]: f for f in syn.fns if f["mod"] == "generate::convert::state" and (f.get("impl_of") or "").strip() == "State" and f.get("body") and not f.get("impl_trait")}
    out = {}
    for name, f in methods.items():
        ins = f["sig"]["inputs"]
        if len(ins) != 2 or ins[0].get("pat", {}).get("name") != "self" or f["sig"].get("ret") not in ("State", "Self"):
            continue
        ev = SmallEval()
        ev.local_methods = methods
        self_v = {"__struct__": "State"}
        self_v.update({n: ("sym", "old." + n) for n in fields})
        try:
            r = ev.call(f, [dict(self_v), ("sym", "arg")])
        except NoEval:
            continue
        if isinstance(r, dict):
            changed = [n for n in fields if r.get(n) != self_v[n]]
            if len(changed) == 1 and r.get(changed[0]) == ("sym", "arg"):
                out[name] = changed[0]
    return out


def fn_loc(facts, fn):
    return facts.loc_of(fn)


def run(chk, facts):
    syn, mir = facts.syn, facts.mir
    SETTER_FIELD.clear()
    SETTER_FIELD.update(_setter_fields(syn))
    chk.rule("R-C11-1", "values derived from an `annotate` field reach only `ty` fields of Core nodes / other `annotate` fields; "
                        "no `?`, return, panic, convert_* or import registration other than type rendering under its control")
    chk.rule("R-C11-2", "only generate:: and the argument plumbing of the crate root read an `annotate` field (MIR field projections)")
    chk.rule("R-C11-3", "a `ty` field read back from Core::{VarDef,FunArg,FunDef,FunDefOp} flows only into another `ty` field or, in the "
                        "printer, into an `if let Some(ty) {format!(\": {}\"|\" -> {}\")} else {\"\"}` hole")

    # ---------------- R-C11-2 (MIR) ----------------
    readers = {}
    for b in mir.fns.values():
        for bb in b.bbs:
            places = []
            for s in bb.stmts:
                places.extend(o.place for o in s.ops if o.place)
            t = bb.term
            if t.k == "call":
                places.extend(o.place for o in t.args if o.place)
            elif t.k == "switch" and t.discr.place:
                places.append(t.discr.place)
            for p in places:
                for pr in p.proj:
                    if pr.startswith(".") and ":annotate:" in pr:
                        readers.setdefault(b.path, set()).add(pr.split(":")[2])
    n_readers = 0
    for path, adts in sorted(readers.items()):
        n_readers += 1
        top = path.lstrip("<").split("::")[0]
        ok = top == "generate" or path.startswith("<generate::") or path in ("mamba_to_python", "transpile_dir", "transpile_directory") \
            or "generate::GenArguments" in path or ("PipelineArguments" in path and "From" in path)
        chk.ob("R-C11-2", f"reader:{path}", ok, f"`{path}` reads the annotate flag of {sorted(adts)}" + ("" if ok else " - outside generate::"),
               mir.fns[path].loc)
    chk.floor("R-C11-2", n_readers, 3, "functions reading an annotate field")

    # ---------------- R-C11-1 (syntax, generate::) ----------------
    gen_fns = [f for f in syn.fns if (f["mod"] == "generate" or f["mod"].startswith("generate::")) and f.get("body") and not f.get("derived")]
    if len(gen_fns) < 40:
        raise AnchorError(f"only {len(gen_fns)} functions found under generate::")
    n_src = 0
    for fn in gen_fns:
        has_src = any(n.get("k") == "field" and n["name"] == "annotate" for n in walk(fn["body"]))
        if not has_src:
            continue
        n_src += 1
        t = Taint(fn, srcfield="annotate")
        loc = fn_loc(facts, fn)
        occs = list(t.occurrences())
        for i, occ in enumerate(occs):
            kind, node, info = _final_sink(t, occ)
            what = src(occ)
            if kind in ("let", "iflet"):
                ok = True
                desc = f"`{what}` initialises `{src(node['pat'])}` (propagates)"
            elif kind == "field":
                spath = node["p"]
                ok = (info == "ty" and spath in TY_CARRIERS) or info == "annotate"
                desc = f"`{what}` is stored in field `{info}` of `{spath}`"
            elif kind == "assign" and strip(node["l"]).get("k") == "field" and strip(node["l"])["name"] == "annotate":
                # `state.annotate = args.annotate`: a copy into another annotate field (the target itself is a write, not a read)
                ok = True
                desc = f"`{what}` is copied into the field `annotate` (`{src(node)[:60]}`)"
            else:
                ok = False
                desc = f"`{what}` reaches a {kind} (`{src(node)[:120]}`)"
            chk.ob("R-C11-1", f"{fn['qual']}|{what}|{kind}:{info or ''}|{_nth(occs, occ, i)}", ok,
                   f"in {fn['qual']}: {desc}" + ("" if ok else " - the flag influences more than annotations"), loc)
        # control-dependent regions
        for construct, reg in t.controlled():
            for n in walk(reg):
                k = n.get("k")
                bad = None
                if k == "try":
                    bad = "`?` (an error return that depends on the flag)"
                elif k == "return":
                    bad = "`return`"
                elif k == "macro" and n.get("name") in ("panic", "unreachable", "todo", "unimplemented"):
                    bad = "a panic"
                elif k == "call" and n["f"].get("k") == "path" and n["f"]["p"].split("::")[-1].startswith("convert_"):
                    bad = f"a call of `{n['f']['p']}` (converts program text, not a type)"
                elif k == "mcall" and n["m"] != "to_py" and any(src(strip(a)) == "imp" for a in n["args"]):
                    bad = f"`.{n['m']}(imp)`: registers imports other than through type rendering"
                elif k == "mcall" and src(strip(n["recv"])) == "imp":
                    bad = f"`imp.{n['m']}(..)`: registers an import under control of the flag"
                elif k == "call" and n["f"].get("k") == "path" and any(src(strip(a)) == "imp" for a in n["args"]):
                    bad = f"`{n['f']['p']}(.., imp, ..)` under control of the flag"
                if bad:
                    chk.ob("R-C11-1", f"{fn['qual']}|control|{bad[:40]}", False,
                           f"in {fn['qual']}: code that runs only for one setting of annotate contains {bad}", loc)
        chk.sample({"rule": "R-C11-1", "fn": fn["qual"], "tainted_locals": sorted(repr(b) for b in t.tainted), "occurrences": len(occs)})
    chk.floor("R-C11-1", n_src, 2, "generate:: functions that read annotate")

    # ---------------- R-C11-3 (consumers of Core.ty) ----------------
    # .. and no pattern *discriminates* on the annotation: wherever one of the carriers is matched in generate::, its `ty` field is bound
    # as a whole (`ty`, `_`, `..`), never matched against `Some(..)` / `None` - a pattern decides which arm runs, so the presence of an
    # annotation would choose the statement that is emitted (`x: int` binds nothing, `x: int = None` does)
    n_pat = 0
    for fn in gen_fns:
        for n in walk(fn["body"]):
            if n.get("k") == "pstruct" and n["p"] in TY_CARRIERS:
                for name, p in n["fields"]:
                    if name != "ty":
                        continue
                    n_pat += 1
                    inner = p
                    while inner.get("k") in ("pref", "ptype"):
                        inner = inner["p"]
                    okp = inner.get("k") in ("pident", "pwild") and not inner.get("sub")
                    chk.ob("R-C11-3", f"{fn['qual']}|pattern:{n['p']}.ty|{n_pat}", okp,
                           f"in {fn['qual']}: `{n['p']}` is matched with its annotation bound as a whole" if okp else
                           f"in {fn['qual']}: a pattern of `{n['p']}` tests the annotation itself (`ty: {src(p)[:40]}`): whether a type was rendered - which the annotate flag decides - "
                           "selects the arm, i.e. the code that is emitted", fn_loc(facts, fn))
    chk.floor("R-C11-3", n_pat, 4, "patterns over annotation carriers")
    n_cons = 0
    for fn in gen_fns:
        seeds = []
        for n in walk(fn["body"]):
            if n.get("k") == "pstruct" and n["p"] in TY_CARRIERS:
                for name, p in n["fields"]:
                    if name == "ty" and p.get("k") == "pident":
                        seeds.append(p)
        if not seeds:
            continue
        loc = fn_loc(facts, fn)
        t = Taint(fn, seed_pidents=seeds)
        is_printer = fn["name"] == "to_py" and fn["mod"].endswith("generate::ast")
        occs = list(t.occurrences())
        for i, occ in enumerate(occs):
            n_cons += 1
            kind, node, info = t.sink_of(occ)
            what = src(occ)
            if kind == "field":
                ok = info == "ty" and node["p"] in TY_CARRIERS
                desc = f"`{what}` stored in `{node['p']}.{info}`"
            elif kind == "iflet" and is_printer:
                ifn, _ = t.pm.get(id(node), (None, None))
                ok, desc = _printer_hole_ok(ifn, node)
            elif kind in ("let", "iflet"):
                ok = True
                desc = f"`{what}` initialises `{src(node['pat'])}` (propagates)"
            else:
                ok = False
                if is_printer:
                    ok, desc = _inside_accepted_hole(t, occ)
                if not ok:
                    kind, node, info = _final_sink(t, occ)
                    if kind in ("let", "iflet"):
                        ok, desc = True, f"`{what}` decides the initialiser of `{src(node['pat'])}` (propagates)"
                    elif kind == "field" and info == "ty" and node["p"] in TY_CARRIERS:
                        ok, desc = True, f"`{what}` stored in `{node['p']}.ty`"
                    else:
                        desc = f"`{what}` reaches a {kind} (`{src(node)[:100]}`)"
            chk.ob("R-C11-3", f"{fn['qual']}|{what}|{kind}:{info or ''}|{_nth(occs, occ, i)}", ok,
                   f"in {fn['qual']}: {desc}" + ("" if ok else " - an annotation read back from the Core tree influences more than the annotation text"), loc)
    chk.floor("R-C11-3", n_cons, 4, "uses of a `ty` field read from a Core node")

    # ---------------- R-C11-4 (where annotations may appear) ----------------
    chk.rule("R-C11-4", "variable and parameter annotations are emitted only where Python has syntax for them: the guard of every such "
                        "annotation implies `state.annotate && state.expand_ty` (lambda parameters, with-aliases, tuple targets switch expand_ty off); "
                        "lambda parameters are converted with expand_ty(false)")
    from .common import bool_formula, implies
    try:
        cd = syn.one_fn("convert_def", mod="generate::convert::definition")
        loc = facts.loc_of(cd)
        guards = [n for n in walk(cd["body"]) if n.get("k") == "local" and [p["name"] for p in walk(n["pat"]) if p.get("k") == "pident"] == ["annotate"] and n.get("init") is not None]
        for i, g in enumerate(guards):
            f, atoms = bool_formula(g["init"])
            ok, cex = implies(f, atoms, ["state.annotate", "state.expand_ty"])
            chk.ob("R-C11-4", f"convert_def|guard{i}", ok,
                   f"annotation guard `{src(g['init'])[:90]}` implies annotate && expand_ty" if ok else
                   f"annotation guard `{src(g['init'])[:110]}` can hold with {[(a, v) for a, v in cex.items() if a in ('state.annotate', 'state.expand_ty')]}: "
                   "an annotation is emitted in a position where Python has no syntax for one (e.g. a lambda parameter), so the annotate=on output is not the same program", loc)
        chk.floor("R-C11-4", len(guards), 1, "annotation guards in convert_def")
        cn = syn.one_fn("convert_node", mod="generate::convert")
        from .c08 import _arm
        arm = _arm(cn, "NodeTy::AnonFun")
        ok = False
        for n in walk(arm["body"]):
            if n.get("k") == "struct" and n["p"] == "Core::AnonFun":
                for fname, fv in n["fields"]:
                    if fname == "args":
                        ok = "state.expand_ty(false)" in src(fv).replace(" ", "")
        chk.ob("R-C11-4", "AnonFun-args-expand_ty(false)", ok, "lambda parameters are converted with expand_ty(false)" if ok else
               "lambda parameters are no longer converted with expand_ty(false): they get annotations Python cannot parse", facts.loc_of(cn))
    except AnchorError as e:
        chk.anchor_fail("R-C11-4", e)
    chk.assume("the typing imports registered by type rendering (`to_py(imp)`) are allowed to differ between the two settings (the property says so)")
    # with annotations on, the names the annotations mention must be importable, or the annotated module does not even load while
    # the plain one runs: the import-pairing rule of C16 is part of "annotate is inert" (only the R-C16-1 obligations are taken)
    from . import c16
    n0 = len(chk.obligations)
    c16.run(chk, facts)
    chk.obligations = chk.obligations[:n0] + [o for o in chk.obligations[n0:] if o["rule"] == "R-C16-1"]
    for r in ("R-C16-2", "R-C16-4"):
        chk.rules.pop(r, None)
        chk.counts.pop(r, None)
    chk.notes.append("C11: taint of the annotate flag over all functions of generate::, who-may-read over the whole crate (MIR).")


def _final_sink(t, occ):
    cur = occ
    while True:
        kind, node, info = t.sink_of(cur)
        if kind in ("scrutinee", "condition"):
            cur = node
            continue
        return kind, node, info


def _nth(occs, occ, i):
    """ordinal of this occurrence among occurrences with the same text (stable under unrelated edits)"""
    s = src(occ)
    return sum(1 for o in occs[:i] if src(o) == s)


def _printer_hole_ok(ifn, letn):
    if ifn is None or ifn.get("k") != "if":
        return False, "`ty` is tested outside an if-let hole"
    if letn["pat"].get("k") != "ptstruct" or letn["pat"]["p"] != "Some":
        return False, "`ty` hole is not of the form `if let Some(..) = ty`"
    fa = format_args_of(ifn["then"])
    if fa is None or norm_template(fa[0]) not in ANNOT_TEMPLATES:
        return False, f"annotation hole prints `{fa[0] if fa else src(ifn['then'])[:60]}` instead of \": {{}}\" / \" -> {{}}\""
    el = ifn.get("else")
    els = src(strip(el)) if el else ""
    if els not in ('String::new()', 'String::from("")', '""'):
        return False, f"the else branch of an annotation hole prints `{els[:60]}` instead of nothing"
    return True, f"annotation hole `{fa[0]}` / empty"


def _inside_accepted_hole(t, occ):
    cur = occ
    while True:
        par, key = t.pm.get(id(cur), (None, None))
        if par is None:
            return False, ""
        if par.get("k") == "if" and key == "then" and par["c"].get("k") == "let":
            ok, d = _printer_hole_ok(par, par["c"])
            if ok:
                return True, "inside " + d
        cur = par
