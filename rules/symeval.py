"""A16 - symbolic evaluation of *construction* code: what tree does this expression build?

Rules about desugarings ("the second argument of range(..) is `to`, or `to + 1` when inclusive") used to match the shape of the
source. This evaluator computes the value instead, so that naming an intermediate, extracting a private helper, writing
`if let` as `match`, or moving a `?` does not matter:

    ("core", Variant, {field: value})      a struct literal  Core::Variant { .. }   (also NodeTy::, Node:: with their prefix)
    ("conv", source)                       convert_node(source, ..) - the conversion of a child, `source` = root identifier/field
    ("convvec", source)                    convert_vec(source, ..)
    ("ite", cond, then, else)              a choice; cond is a normalised condition string ("inclusive", "some(step)")
    ("str", text) / ("int", n) / ("bool", b)
    ("list", [values])                     vec![..] / array
    ("var", name)                          a free variable (a bound pattern field, a parameter)
    ("call", callee, [values])             anything else that is called
    ("opaque", source)                     not understood

Transparent: references, `.clone()`, `.as_ref()`, `.as_deref()`, `.deref()`, `Box::from/new`, `Ok(..)`, `Some(..)` (kept as
("some", v) only where asked), `?`, `String::from`, `.to_string()`, blocks with `let`s, calls of private helpers of the same module
(evaluated with their parameters bound).
"""
from .common import walk, src, strip, tail_expr, AnchorError

TRANSPARENT_CALLS = {"Box::from", "Box::new", "Ok", "String::from", "Option::from", "Some", "Rc::new", "Into::into"}
TRANSPARENT_METHODS = {"clone", "as_ref", "as_deref", "deref", "to_string", "to_owned", "as_str", "into", "borrow", "as_mut", "cloned", "unwrap"}


class SymEval:
    def __init__(self, syn, mod_prefix):
        self.syn = syn
        self.mod = mod_prefix
        self.depth = 0

    def helper(self, name):
        c = [f for f in self.syn.fns if f["name"] == name and f["mod"].startswith(self.mod) and f.get("body") and not f.get("impl_of") and "test" not in f["mod"]]
        return c[0] if len(c) == 1 else None

    def ev(self, e, env):
        if e is None:
            return ("opaque", "-")
        k = e.get("k")
        if k in ("ref", "paren", "try", "cast", "group"):
            return self.ev(e["e"], env)
        if k == "unary":
            if e["op"] in ("*", "&"):
                return self.ev(e["e"], env)
            if e["op"] == "!":
                v = self.ev(e["e"], env)
                return ("not", v)
        if k == "lit":
            return ({"str": "str", "int": "int", "bool": "bool", "char": "str"}.get(e.get("t"), "lit"), e.get("v"))
        if k == "path":
            p = e["p"]
            if p in env:
                return env[p]
            if p in ("None",):
                return ("none",)
            if p == "true" or p == "false":
                return ("bool", p == "true")
            if "::" in p and p.split("::")[0] in ("Core", "NodeTy", "Node", "CoreOp"):
                return ("core", p, {})
            return ("var", p)
        if k == "field":
            b = self.ev(e["base"], env)
            if b[0] == "var":
                return ("var", b[1] + "." + e["name"])
            return ("field", b, e["name"])
        if k == "struct":
            fields = {}
            for fname, fe in e["fields"]:
                fields[fname] = self.ev(fe, env)
            out = ("core", e["p"], fields)
            if e.get("rest") is not None:
                out = ("core", e["p"], dict(fields, **{"..": self.ev(e["rest"], env)}))
            return out
        if k == "block":
            env2 = dict(env)
            for st in e["stmts"]:
                if st.get("k") == "local" and st.get("init") is not None:
                    v = self.ev(st["init"], env2)
                    self._bind(st["pat"], v, env2)
            t = tail_expr(e)
            if t is None:
                # a block ending in `return x;`
                for st in reversed(e["stmts"]):
                    x = st.get("e") if st.get("k") == "expr" else None
                    if isinstance(x, dict) and x.get("k") == "return":
                        return self.ev(x.get("e"), env2)
                return ("unit",)
            return self.ev(t, env2)
        if k == "return":
            return self.ev(e.get("e"), env)
        if k == "if":
            c = e["c"]
            env_t = dict(env)
            if c.get("k") == "let":
                scrut = self.ev(c["e"], env)
                cond = self._let_cond(c["pat"], scrut, env_t)
            else:
                cond = self._cond(c, env)
            t = self.ev(e["then"], env_t)
            f = self.ev(e["else"], env) if e.get("else") is not None else ("unit",)
            return self._ite(cond, t, f)
        if k == "match":
            scrut = self.ev(e["e"], env)
            arms = e["arms"]
            # Option-like two-arm matches become a choice; anything else is a ("match", scrut, [(pat, value)])
            if len(arms) == 2:
                pats = [src(a["pat"]).replace(" ", "") for a in arms]
                some = [i for i, p in enumerate(pats) if p.startswith("Some(")]
                none = [i for i, p in enumerate(pats) if p in ("None", "_")]
                if len(some) == 1 and len(none) == 1 and not any(a.get("guard") for a in arms):
                    env_t = dict(env)
                    cond = self._let_cond(arms[some[0]]["pat"], scrut, env_t)
                    return self._ite(cond, self.ev(arms[some[0]]["body"], env_t), self.ev(arms[none[0]]["body"], env))
                tf = {p: i for i, p in enumerate(pats)}
                if set(tf) == {"true", "false"}:
                    return self._ite(self._cond_of_value(scrut), self.ev(arms[tf["true"]]["body"], env), self.ev(arms[tf["false"]]["body"], env))
            out = []
            for a in arms:
                env2 = dict(env)
                for m in walk(a["pat"]):
                    if m.get("k") == "pident":
                        env2[m["name"]] = ("var", m["name"])
                out.append((src(a["pat"]).replace(" ", ""), src(a["guard"]).replace(" ", "") if a.get("guard") else None, self.ev(a["body"], env2)))
            return ("match", scrut, out)
        if k == "call":
            # expanded vec![..]
            pth = src(e["f"])
            if pth.endswith("into_vec") or pth.endswith("box_assume_init_into_vec_unsafe"):
                arrs = [n for n in walk(e) if n.get("k") == "array"]
                if arrs:
                    return ("list", [self.ev(a, env) for a in arrs[0]["elems"]])
            if pth.endswith("Vec::new") and not e["args"]:
                return ("list", [])
        if k == "call" and e["f"].get("k") == "path":
            p = e["f"]["p"]
            last = p.split("::")[-1]
            if p in TRANSPARENT_CALLS and len(e["args"]) == 1:
                return self.ev(e["args"][0], env)
            if last == "convert_node" and e["args"]:
                return ("conv", self._source(self.ev(e["args"][0], env)), self._state_note(e["args"], env))
            if last == "convert_vec" and e["args"]:
                return ("convvec", self._source(self.ev(e["args"][0], env)), self._state_note(e["args"], env))
            if "::" not in p or p.startswith("Self::") or p.startswith("self::"):
                h = self.helper(last)
                if h is not None and self.depth < 4:
                    params = [m["name"] for inp in h["sig"]["inputs"] for m in walk(inp.get("pat", {})) if m.get("k") == "pident"]
                    if len(params) == len(e["args"]):
                        env2 = {pn: self.ev(a, env) for pn, a in zip(params, e["args"])}
                        self.depth += 1
                        try:
                            return self.ev(h["body"], env2)
                        finally:
                            self.depth -= 1
            return ("call", p, [self.ev(a, env) for a in e["args"]])
        if k == "mcall":
            if e["m"] in TRANSPARENT_METHODS and not e["args"]:
                return self.ev(e["recv"], env)
            if e["m"] == "is_some" and not e["args"]:
                return ("issome", self.ev(e["recv"], env))
            if e["m"] == "is_none" and not e["args"]:
                return ("not", ("issome", self.ev(e["recv"], env)))
            if e["m"] == "is_empty" and not e["args"]:
                return ("isempty", self.ev(e["recv"], env))
            return ("mcall", self.ev(e["recv"], env), e["m"], [self.ev(a, env) for a in e["args"]])
        if k == "macro" and e.get("name") == "vec":
            return ("list", [self.ev(a, env) for a in e.get("args", [])])
        if k == "array":
            return ("list", [self.ev(a, env) for a in e["elems"]])
        if k == "call":
            # expanded vec![..]
            pth = src(e["f"])
            arrs = [n for n in walk(e) if n.get("k") == "array"]
            if (pth.endswith("into_vec") or pth.endswith("box_assume_init_into_vec_unsafe")) and arrs:
                return ("list", [self.ev(a, env) for a in arrs[0]["elems"]])
            if pth.endswith("Vec::new"):
                return ("list", [])
        if k == "tuple":
            return ("tuple", [self.ev(a, env) for a in e["elems"]])
        if k == "binary":
            return ("bin", e["op"], self.ev(e["l"], env), self.ev(e["r"], env))
        if k == "closure":
            return ("opaque", "closure")
        return ("opaque", src(e)[:60])

    # ---- helpers ----
    def _bind(self, pat, v, env):
        if pat.get("k") == "pident":
            env[pat["name"]] = v
        elif pat.get("k") == "ptuple" and v[0] == "tuple" and len(v[1]) == len(pat["elems"]):
            for p, x in zip(pat["elems"], v[1]):
                self._bind(p, x, env)
        else:
            for m in walk(pat):
                if m.get("k") == "pident":
                    env[m["name"]] = ("var", m["name"])

    def _source(self, v):
        if v[0] == "var":
            return v[1]
        if v[0] == "some-of":
            return v[1]
        return repr(v)[:60]

    def _state_note(self, args, env):
        """which State setters were applied to the state argument (3rd) of convert_node/convert_vec, as a sorted tuple"""
        if len(args) < 3:
            return ()
        notes = []
        cur = strip(args[2])
        while isinstance(cur, dict) and cur.get("k") == "mcall":
            notes.append(cur["m"] + "(" + ",".join(src(strip(a)).replace(" ", "") for a in cur["args"]) + ")")
            cur = strip(cur["recv"])
        return tuple(sorted(notes))

    def _let_cond(self, pat, scrut, env_t):
        """`let Some(x) = scrut`: binds x to the content of scrut, returns the condition"""
        ps = src(pat).replace(" ", "")
        if ps.startswith("Some(") and pat.get("k") == "ptstruct" and len(pat["elems"]) == 1:
            inner = pat["elems"][0]
            name = scrut[1] if scrut[0] == "var" else repr(scrut)[:40]
            for m in walk(inner):
                if m.get("k") == "pident":
                    env_t[m["name"]] = ("var", name) if inner.get("k") == "pident" else ("var", m["name"])
            return "some(" + name + ")"
        for m in walk(pat):
            if m.get("k") == "pident":
                env_t[m["name"]] = ("var", m["name"])
        return "let " + ps + "=" + (scrut[1] if scrut[0] == "var" else repr(scrut)[:40])

    def _cond(self, c, env):
        return self._cond_of_value(self.ev(c, env))

    def _cond_of_value(self, v):
        if v[0] == "var":
            return v[1]
        if v[0] == "not":
            return "!" + self._cond_of_value(v[1])
        if v[0] == "issome":
            return "some(" + (v[1][1] if v[1][0] == "var" else repr(v[1])[:40]) + ")"
        if v[0] == "isempty":
            return "empty(" + (v[1][1] if v[1][0] == "var" else repr(v[1])[:40]) + ")"
        if v[0] == "bool":
            return "true" if v[1] else "false"
        if v[0] == "bin" and v[1] in ("&&", "||"):
            return "(" + self._cond_of_value(v[2]) + v[1] + self._cond_of_value(v[3]) + ")"
        return repr(v)[:80]

    def _ite(self, cond, t, f):
        if cond.startswith("!"):
            return ("ite", cond[1:], f, t)
        if cond == "true":
            return t
        if cond == "false":
            return f
        return ("ite", cond, t, f)


def show(v, depth=0):
    """compact rendering for messages"""
    if depth > 6:
        return ".."
    t = v[0]
    if t == "core":
        name = v[1].split("::")[-1]
        if not v[2]:
            return name
        return name + "(" + ", ".join(f"{k}={show(x, depth + 1)}" for k, x in v[2].items()) + ")"
    if t == "conv":
        return f"conv({v[1]})"
    if t == "convvec":
        return f"convvec({v[1]})"
    if t == "ite":
        return f"({v[1]} ? {show(v[2], depth + 1)} : {show(v[3], depth + 1)})"
    if t in ("str", "int", "bool"):
        return repr(v[1])
    if t == "list":
        return "[" + ", ".join(show(x, depth + 1) for x in v[1]) + "]"
    if t == "var":
        return v[1]
    if t == "call":
        return v[1].split("::")[-1] + "(" + ", ".join(show(x, depth + 1) for x in v[2]) + ")"
    if t == "none":
        return "None"
    return str(v)[:60]


def variant_choice(v, enum_prefix):
    """a value that is chosen by the variant of an enum - written as nested `if let Enum::A(..) = x {..} else if let Enum::B ..`
    or as a `match` with (or-)patterns - as {variant: value, "_": default}"""
    import re
    out = {}
    cur = v
    for _ in range(12):
        if cur[0] == "ite" and cur[1].startswith("let " + enum_prefix + "::"):
            m = re.match(r"let " + re.escape(enum_prefix) + r"::(\w+)", cur[1])
            out.setdefault(m.group(1), cur[2])
            cur = cur[3]
            continue
        if cur[0] == "match":
            for pat, guard, val in cur[2]:
                if guard:
                    return None
                for alt in pat.split("|"):
                    m = re.match(r"&?" + re.escape(enum_prefix) + r"::(\w+)", alt)
                    if m:
                        out.setdefault(m.group(1), val)
                    elif alt in ("_",) or re.fullmatch(r"\w+", alt):
                        out.setdefault("_", val)
            return out
        out.setdefault("_", cur)
        return out
    return None


def strip_text_var(v):
    """replace pattern-bound variable names by `$` so that `_str` and `text` compare equal"""
    if isinstance(v, tuple):
        if v[0] == "var" and "." not in v[1] and v[1] not in ("start", "self", "token", "offset"):
            return ("var", "$")
        return tuple(strip_text_var(x) for x in v)
    if isinstance(v, list):
        return [strip_text_var(x) for x in v]
    if isinstance(v, dict):
        return {k: strip_text_var(x) for k, x in v.items()}
    return v
