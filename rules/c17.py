"""C17 - the output's Python API mirrors the Mamba definitions.

R-C17-1  (syntax + printer model) parameters: `NodeTy::FunArg -> Core::FunArg` copies `vararg`, converts `var`, maps `default`
         Some->Some / None->None without further conditions; a `def` class argument (`VariableDef` converted as function argument)
         maps its initialiser to the default the same way; the printer prints `*` iff vararg and ` = d` iff a default is present.
R-C17-2  (syntax) order: parameter lists and parent lists reach the output through order-preserving steps only (convert_vec =
         push in iteration order; iter/map/collect; the only addition is `ABC` chained at the end); no sort, partition, filter,
         reverse or set in between; `FunDef.arg` is the converted argument list itself.
R-C17-3  (tables) names: a function keeps its identifier except `init` -> `__init__`; operator definitions: the operator tokens
         accepted after `def` print as the dunder constants, `CoreFunOp::from` and its `Display` are mutually inverse over all
         variants, so `def +` is emitted as `__add__` and so on.
R-C17-4  (syntax) constructors: the synthesised `__init__` takes `self` first, then the class arguments in their order (or the
         explicit constructor's own list); the parent constructor calls come first in declaration order, then one `self.a = a` per
         class argument that is not handed to a parent, compared structurally.
R-C17-5  (syntax) class members: none is dropped or replaced (map keys are unique per statement), the emitted order is total
         (position, original index).
"""
import re
from .common import walk, src, strip, AnchorError, pat_alternatives, tail_expr, walk_no_closure
from .printer import PrinterModel
from .c08 import _arm
from .c13 import _chains_from

ORDER_BREAKING = {"partition", "sorted", "sorted_by", "sorted_by_key", "sort", "sort_by", "sort_by_key", "sort_unstable", "rev", "reverse", "filter", "filter_map",
                  "skip", "take", "dedup", "unique", "retain", "swap", "swap_remove", "remove", "pop", "step_by", "skip_while", "take_while", "rotate_left", "rotate_right",
                  "truncate", "drain", "split_off", "group_by", "rsplit", "last", "nth"}
ORDER_OK = {"iter", "map", "collect", "into_iter", "chain", "cloned", "clone", "to_vec", "deref", "as_ref", "unzip"}


def run(chk, facts):
    syn = facts.syn
    chk.rule("R-C17-1", "FunArg: vararg copied, var converted, default Some<->Some; printer prints * iff vararg, = d iff default")
    chk.rule("R-C17-2", "argument and parent lists are order-preserving all the way")
    chk.rule("R-C17-3", "function names copied (init -> __init__); CoreFunOp::from and Display are inverse; operator tokens after def print as dunders")
    chk.rule("R-C17-4", "__init__: self first, class arguments in order, parent calls first, one assignment per non-forwarded argument (structural comparison)")
    chk.rule("R-C17-5", "class members: unique keys, total order")

    # ---------------- R-C17-1 ----------------
    cd = syn.one_fn("convert_def", mod="generate::convert::definition")
    loc = facts.loc_of(cd)
    try:
        arm = _arm(cd, "NodeTy::FunArg")
        binds = {}
        for alt in pat_alternatives(arm["pat"]):
            if alt.get("k") == "pstruct":
                for fname, fp in alt["fields"]:
                    if fp.get("k") == "pident":
                        binds[fname] = fp["name"]
        lits = [n for n in walk(arm["body"]) if n.get("k") == "struct" and n["p"] == "Core::FunArg"]
        if len(lits) != 1:
            raise AnchorError(f"FunArg arm builds {len(lits)} Core::FunArg")
        f = dict(lits[0]["fields"])
        ok = src(strip(f.get("vararg"))) == binds.get("vararg")
        chk.ob("R-C17-1", "FunArg.vararg", ok, "the variadic marker is copied" if ok else f"Core::FunArg.vararg is `{src(f.get('vararg'))}` instead of the parameter's own flag", loc)
        ok = src(strip(f.get("var"))) == "var" and any(n.get("k") == "local" and src(n["pat"]) == "var" and "convert_node(var," in src(n["init"]).replace(" ", "") for n in walk(arm["body"]))
        chk.ob("R-C17-1", "FunArg.var", ok, "the parameter name is the converted identifier" if ok else "Core::FunArg.var is no longer the converted parameter identifier", loc)
        ok, why = _option_map(f.get("default"), binds.get("default"), cd)
        chk.ob("R-C17-1", "FunArg.default", ok, "a default is emitted exactly when the parameter has one" if ok else f"Core::FunArg.default: {why}", loc)
    except AnchorError as e:
        chk.anchor_fail("R-C17-1", e)
    try:
        arm = _arm(cd, "NodeTy::VariableDef")
        binds = {}
        for alt in pat_alternatives(arm["pat"]):
            if alt.get("k") == "pstruct":
                for fname, fp in alt["fields"]:
                    if fp.get("k") == "pident":
                        binds[fname] = fp["name"]
        lits = [n for n in walk(arm["body"]) if n.get("k") == "struct" and n["p"] == "Core::FunArg"]
        if len(lits) != 1:
            raise AnchorError(f"VariableDef arm builds {len(lits)} Core::FunArg")
        f = dict(lits[0]["fields"])
        dflt = strip(f.get("default"))
        # `default` is a let-bound match on the definition's expression
        init = None
        if dflt.get("k") == "path":
            for n in walk(arm["body"]):
                if n.get("k") == "local" and src(n["pat"]) == dflt["p"]:
                    init = n["init"]
        ok, why = _option_map(init if init is not None else dflt, binds.get("expr"), cd)
        chk.ob("R-C17-1", "class-arg.default", ok, "a `def` class argument keeps its initialiser as default (Some<->Some, whatever the expression is)" if ok else
               f"default of a `def` class argument: {why} - a constructor parameter loses (or gains) its default, so calls that rely on it break", loc)
        ok = src(strip(f.get("vararg"))) == "false"
        chk.ob("R-C17-1", "class-arg.vararg", ok, "a `def` class argument is never variadic", loc)
    except AnchorError as e:
        chk.anchor_fail("R-C17-1", e)
    # printer side
    pm = PrinterModel(facts)
    fa = pm.arms_of("FunArg")
    ok = False
    if len(fa) == 1:
        conds = [h for h in fa[0].pieces if h[0] == "hole" and h[1] == "cond"]
        star = [c for c in conds if c[2]["test"].replace(" ", "").replace("*", "") == "vararg" and [p for p in c[2]["then"]] == [("lit", "*")] and c[2]["else"] == [("lit", "")]]
        dfl = [c for c in conds if "default" in c[2]["test"] and c[2]["else"] == [("lit", "")] and len(c[2]["then"]) == 2 and c[2]["then"][0] == ("lit", " = ")]
        ok = len(star) == 1 and len(dfl) == 1 and fa[0].pieces.index(star[0]) == 0
    chk.ob("R-C17-1", "printer:FunArg", ok, "the printer writes `*` iff vararg (first) and ` = default` iff a default is present" if ok else
           "the FunArg template no longer prints `*` iff vararg / ` = d` iff default", facts.loc_of(pm.fn))

    # ---------------- R-C17-2 ----------------
    cv = syn.one_fn("convert_vec", mod="generate::convert::common")
    # folded (rules/smalleval.py) over lists of 0..3 symbolic nodes with `convert_node` as a constructor: the result is the list of the
    # converted nodes, in order; an error of an element is the error of the whole
    from .smalleval import SmallEval as _SE, NoEval as _NE
    ok = True
    try:
        local_cv = {f["name"]: f for f in syn.fns if f["mod"] == cv["mod"] and f.get("impl_of") is None and f.get("body")}
        ev_cv = _SE(local_fns=local_cv, funcs={"convert_node": lambda a_, i_, s_, c_: ("Err", ("sym", "E")) if a_ == ("sym", "bad") else ("Ok", ("conv", a_, s_))})
        for n_ in range(4):
            nodes_ = [("sym", f"n{i}") for i in range(n_)]
            r_ = ev_cv.call(cv, [("list", list(nodes_)), ("sym", "imp"), ("sym", "state"), ("sym", "ctx")])
            ok = ok and r_ == ("Ok", ("list", [("conv", x_, ("sym", "state")) for x_ in nodes_]))
        r_ = ev_cv.call(cv, [("list", [("sym", "n0"), ("sym", "bad"), ("sym", "n2")]), ("sym", "imp"), ("sym", "state"), ("sym", "ctx")])
        ok = ok and isinstance(r_, tuple) and r_[0] == "Err" and not ev_cv.uncovered()
    except _NE:
        ok = False
    chk.ob("R-C17-2", "convert_vec", ok, "convert_vec pushes the converted elements in iteration order" if ok else "convert_vec no longer converts element by element in order", facts.loc_of(cv))
    try:
        arm = _arm(cd, "NodeTy::FunDef")
        binds = {}
        for alt in pat_alternatives(arm["pat"]):
            if alt.get("k") == "pstruct":
                for fname, fp in alt["fields"]:
                    if fp.get("k") == "pident":
                        binds[fname] = fp["name"]
        argl = [n for n in walk(arm["body"]) if n.get("k") == "local" and src(n["pat"]) == "arg"]
        ok = len(argl) == 1 and src(strip(argl[0]["init"])).replace(" ", "").rstrip("?") == f"convert_vec({binds.get('args')},imp,state,ctx)"
        fd = [n for n in walk(arm["body"]) if n.get("k") == "struct" and n["p"] in ("Core::FunDef", "Core::FunDefOp")]
        ok2 = len(fd) == 2 and all(any(fn_ == "arg" and src(strip(v)) == "arg" for fn_, v in l["fields"]) for l in fd)
        chk.ob("R-C17-2", "FunDef.arg", ok and ok2, "the emitted parameter list is the converted argument list itself" if ok and ok2 else
               "FunDef.arg is no longer exactly convert_vec(args): parameters can be reordered, dropped or added", loc)
    except AnchorError as e:
        chk.anchor_fail("R-C17-2", e)
    try:
        cc = syn.one_fn("convert_class", mod="generate::convert::class")
        arm = _arm(cc, "NodeTy::Class")
        pl = [n for n in walk(arm["body"]) if n.get("k") == "local" and src(n["pat"]) == "parents"]
        ok = len(pl) == 1 and src(strip(pl[0]["init"])).replace(" ", "").rstrip("?") == "convert_vec(parents,imp,state,ctx)"
        chk.ob("R-C17-2", "Class.parents", ok, "the parents are converted in declaration order" if ok else "convert_class no longer converts `parents` with convert_vec", facts.loc_of(cc))
        ec = syn.one_fn("extract_class", mod="generate::convert::class")
        loc_e = facts.loc_of(ec)
        meths, reached = _derivation(ec, "parent_names", "parents")
        bad = sorted(m for m in meths if m in ORDER_BREAKING)
        ok = reached and not bad
        chk.ob("R-C17-2", "ClassDef.parent_names", ok, "the base-class list is an order-preserving map of the parents (plus `ABC` appended)" if ok else
               (f"the base-class list is derived from the parents through {bad}: the inheritance order (and with it Python's MRO) changes" if reached else
                "the base-class list is no longer derived from `parents`"), loc_e)
        cdl = [n for n in walk(ec["body"]) if n.get("k") == "struct" and n["p"] == "Core::ClassDef"]
        ok = len(cdl) == 1 and any(f_ == "parent_names" and src(strip(v)) == "parent_names" for f_, v in cdl[0]["fields"])
        chk.ob("R-C17-2", "ClassDef.parent_names-stored", ok, "ClassDef.parent_names is that list", loc_e)
    except AnchorError as e:
        chk.anchor_fail("R-C17-2", e)

    # the typed tree drops a `type`'s parent silently when its name cannot be converted (`isa.and_then(|isa| Name::try_from(isa).ok())` in
    # NodeTy::from): that conversion must therefore succeed for every Parent node the checker accepted - the `Node::Parent` arm of
    # TrueName::try_from(&AST) is unconditional (no guard, e.g. on the constructor arguments the parent is given)
    try:
        tf = [f_ for f_ in syn.fns if f_["name"] == "try_from" and f_["mod"] == "check::name::true_name::generic" and "TrueName" in (f_.get("impl_of") or "") and
              "AST" in (f_.get("impl_trait") or "") and "Box" not in (f_.get("impl_trait") or "")]
        if not tf:
            raise AnchorError("TrueName::try_from(&AST) not found")
        arms_p = [a_ for f_ in tf for n in walk(f_["body"]) if n.get("k") == "match" for a_ in n["arms"] if "Node::Parent" in src(a_["pat"], -30)]
        okp = bool(arms_p) and all(a_.get("guard") is None for a_ in arms_p)
        chk.ob("R-C17-2", "Parent-name-conversion-total", okp, "a Parent node is converted to its name whatever arguments it is given" if okp else
               ("TrueName::try_from(&AST) converts a Parent node only under a guard (`" + src(arms_p[0]["guard"], -30)[:40] + "`): NodeTy::from turns the failure into `no parent` "
                "silently, and `type T: Base(\"x\")` is emitted without Base" if arms_p else "TrueName::try_from(&AST) has no arm for Node::Parent"), facts.loc_of(tf[0]))
    except AnchorError as e:
        chk.anchor_fail("R-C17-2", e)

    # ---------------- R-C17-3 ----------------
    consts = {}
    for name, c in syn.consts.items():
        e = c["e"]
        if e.get("k") == "lit" and e.get("t") == "str":
            consts[name] = e["v"]
    try:
        frm = syn.one_fn("from", impl_of="CoreFunOp")
        disp = syn.one_fn("fmt", impl_of="CoreFunOp", trait="Display")
        # the Display table: the match in `fmt`, or in a private method of CoreFunOp that `fmt` calls (`self.dunder_name()`)
        cands2 = [n for n in walk(disp["body"]) if n.get("k") == "match"]
        if not cands2:
            called = {n["m"] for n in walk(disp["body"]) if n.get("k") == "mcall"}
            for f_ in syn.fns:
                if (f_.get("impl_of") or "").strip() == "CoreFunOp" and f_["name"] in called and f_.get("body") and not f_.get("impl_trait"):
                    cands2 += [n for n in walk(f_["body"]) if n.get("k") == "match"]
        if not cands2:
            raise AnchorError("Display for CoreFunOp: no table found in fmt or in a method it calls")
        m2 = cands2[0]
        t_disp = {}
        for a in m2["arms"]:
            for alt in pat_alternatives(a["pat"]):
                if alt.get("k") in ("ppath",):
                    t_disp[alt["p"]] = src(strip(a["body"])).split("::")[-1]
        variants = [v["name"] for v in syn.enums["generate::ast::node::CoreFunOp"]["variants"]]
        # CoreFunOp::from is folded over every name the Display table prints (and one that it does not): it must be the inverse of
        # Display, however it is written (a match on the constants, a search over a list of all variants ..)
        from .smalleval import SmallEval, NoEval
        cvals = {}
        for cname, cv in consts.items():
            cvals[cname] = cv
            cvals["::".join(cname.split("::")[-3:])] = cv
            cvals["::".join(cname.split("::")[-2:])] = cv
        printed = {"CoreFunOp::" + v: consts.get("check::context::function::python::" + t_disp.get("CoreFunOp::" + v, "?")) for v in variants}
        ev_f = SmallEval(consts=cvals, methods={"to_string": lambda x: printed.get(x, "?")})
        ev_f.const_nodes = {k_: c_["e"] for k_, c_ in syn.consts.items() if c_.get("e", {}).get("k") != "lit"}
        t_from = {}
        for v in variants:
            try:
                r_ = ev_f.call(frm, [printed["CoreFunOp::" + v]])
                t_from[t_disp.get("CoreFunOp::" + v)] = r_[1] if isinstance(r_, tuple) and r_ and r_[0] == "Some" else str(r_)
            except NoEval as ex:
                t_from[t_disp.get("CoreFunOp::" + v)] = f"not evaluable ({ex})"
        try:
            none_ok = ev_f.call(frm, ["not_an_operator"]) is None
        except NoEval:
            none_ok = False
        chk.ob("R-C17-3", "CoreFunOp::from:other-names", none_ok, "a name that is no operator method is no CoreFunOp" if none_ok else "CoreFunOp::from maps a name that is no operator method to an operator", facts.loc_of(frm))
        for v in variants:
            c = t_disp.get("CoreFunOp::" + v)
            back = t_from.get(c) if c else None
            val = consts.get("check::context::function::python::" + c) if c else None
            ok = back == "CoreFunOp::" + v and val is not None and val.startswith("__") and val.endswith("__")
            chk.ob("R-C17-3", f"CoreFunOp::{v}", ok, f"CoreFunOp::{v} <-> {c} = `{val}`" if ok else
                   f"CoreFunOp::{v} prints {c} (`{val}`) but that name maps back to {back}: the operator method is emitted under the wrong dunder name", facts.loc_of(frm))
        chk.floor("R-C17-3", len(variants), 13, "CoreFunOp variants")
        # expected dunder per operator (Python data model)
        want = {"Add": "__add__", "Sub": "__sub__", "Mul": "__mul__", "Div": "__truediv__", "FDiv": "__floordiv__", "Pow": "__pow__", "Mod": "__mod__",
                "Eq": "__eq__", "Neq": "__ne__", "Ge": "__gt__", "Geq": "__ge__", "Le": "__lt__", "Leq": "__le__"}
        for v, w in want.items():
            c = t_disp.get("CoreFunOp::" + v)
            val = consts.get("check::context::function::python::" + c) if c else None
            chk.ob("R-C17-3", f"dunder:{v}", val == w, f"operator {v} is the Python method {w}" if val == w else f"operator {v} is emitted as `{val}`, Python calls `{w}`", facts.loc_of(disp))
    except (AnchorError, IndexError, KeyError) as e:
        chk.anchor_fail("R-C17-3", e)
    try:
        arm = _arm(cd, "NodeTy::FunDef")
        idm = None
        for n in walk(arm["body"]):
            if n.get("k") == "match" and src(strip(n["e"])).replace(" ", "") == "lit.as_str()":
                idm = n
        if idm is None:
            raise AnchorError("convert_def: no `match lit.as_str()` for the function name")
        rows = {}
        for a in idm["arms"]:
            rows[src(a["pat"])] = src(strip(a["body"])).replace(" ", "")
        keys = set(rows)
        # the catch-all arm binds the name (whatever the binding is called) and returns it as a String
        binder = next((src(a["pat"]) for a in idm["arms"] if a["pat"].get("k") == "pident"), None)
        ok = binder is not None and keys == {"function::python::INIT", binder} and rows[binder] in (f"String::from({binder})", f"{binder}.to_string()", f"{binder}.to_owned()") \
            and rows["function::python::INIT"] == 'String::from("__init__")'
        chk.ob("R-C17-3", "function-name-table", ok, "a function keeps its name; only the constructor is renamed to __init__" if ok else
               f"the function-name table is {rows}: a user function is emitted under another name", loc)
    except AnchorError as e:
        chk.anchor_fail("R-C17-3", e)

    # ---------------- R-C17-4 ----------------
    try:
        it = syn.one_fn("init", mod="generate::convert::class")
        loc_i = facts.loc_of(it)
        # `init` is folded over five small classes (rules/smalleval.py): what the synthesised constructor takes and does is stated on its
        # result, so any spelling of the function is accepted and any other constructor is named
        from .smalleval import SmallEval, NoEval
        consts = {}
        for cname, c in syn.consts.items():
            if c.get("e", {}).get("k") == "lit":
                consts[cname] = c["e"]["v"]
                consts["::".join(cname.split("::")[-3:])] = c["e"]["v"]
                consts["::".join(cname.split("::")[-2:])] = c["e"]["v"]
        local = {f_["name"]: f_ for f_ in syn.fns if f_["mod"] == it["mod"] and f_.get("impl_of") is None and f_.get("body")}
        Id = lambda l: {"__struct__": "Id", "lit": l}
        Ty = lambda l: {"__struct__": "Type", "lit": l, "generics": ("list", [])}
        Arg = lambda n_: {"__struct__": "FunArg", "vararg": False, "var": Id(n_), "ty": None, "default": None}
        Call = lambda f_, a_: {"__struct__": "FunctionCall", "function": f_, "args": ("list", a_)}

        def shape(v):
            """the constructor as (parameter names, statements) with statements abbreviated"""
            if v is None:
                return None
            if not (isinstance(v, tuple) and v[0] == "Some" and isinstance(v[1], dict) and v[1].get("__struct__") == "FunDef"):
                return ("?", str(v)[:60])
            fd = v[1]
            def nm(x):
                if isinstance(x, dict) and x.get("__struct__") == "FunArg":
                    return nm(x["var"])
                if isinstance(x, dict) and x.get("__struct__") in ("Id", "Type"):
                    return x["lit"]
                return "?"
            def st(x):
                if isinstance(x, dict) and x.get("__struct__") == "Assign":
                    l_ = x["left"]
                    return f"{nm(l_['object'])}.{nm(l_['property'])}={nm(x['right'])}" if isinstance(l_, dict) and l_.get("__struct__") == "PropertyCall" else "assign?"
                if isinstance(x, dict) and x.get("__struct__") == "PropertyCall":
                    pr = x["property"]
                    if isinstance(pr, dict) and pr.get("__struct__") == "FunctionCall":
                        return f"{nm(x['object'])}.{nm(pr['function'])}({','.join(nm(a_) for a_ in pr['args'][1])})"
                if isinstance(x, tuple) and x and x[0] == "sym":
                    return x[1]
                return "?"
            body = fd["body"]
            stmts = body["statements"][1] if isinstance(body, dict) and body.get("__struct__") == "Block" else [body]
            return (fd.get("id"), [nm(a_) for a_ in fd["arg"][1]], [st(x) for x in stmts])
        s1 = ("sym", "stmt1")
        old = {"__struct__": "FunDef", "dec": ("list", []), "id": "__init__", "arg": ("list", [Arg("self"), Arg("a")]), "ty": None,
               "body": {"__struct__": "Block", "statements": ("list", [s1])}}
        cases = [
            ("class arguments only", None, [Arg("x"), Arg("y")], [], ("__init__", ["self", "x", "y"], ["self.x=x", "self.y=y"])),
            ("one parent, one class argument", None, [Arg("x")], [Ty("P")], ("__init__", ["self", "x"], ["P.__init__(self)", "self.x=x"])),
            ("an argument handed to the parent", None, [Arg("x"), Arg("y")], [Call(Ty("P"), [Id("x")]), Ty("Q")], ("__init__", ["self", "x", "y"], ["P.__init__(self,x)", "Q.__init__(self)", "self.y=y"])),
            ("explicit constructor and a parent", ("Some", old), [], [Ty("P")], ("__init__", ["self", "a"], ["P.__init__(self)", "stmt1"])),
            ("nothing to do", None, [], [], None),
        ]
        ev_i = SmallEval(local_fns=local, consts=consts)
        fails = {}
        for label, oi, ca, ps, want in cases:
            try:
                import copy
                r_ = ev_i.call(it, [copy.deepcopy(oi), ("list", copy.deepcopy(ca)), ("list", copy.deepcopy(ps))])
                r_ = r_[1] if isinstance(r_, tuple) and r_ and r_[0] == "Ok" else r_
                got = shape(r_)
                if got != want:
                    fails[label] = f"gives {got}, expected {want}"
            except NoEval as ex:
                fails[label] = f"could not be evaluated ({ex})"
        groups = {
            "args=class_args": (["class arguments only", "one parent, one class argument"], "without an explicit constructor the parameters are `self` and the class arguments, in order, and each argument not handed to a parent is stored in `self`"),
            "parent-calls-first": (["explicit constructor and a parent", "one parent, one class argument"], "parent constructor calls precede the constructor's own statements"),
            "self-first": (["class arguments only", "explicit constructor and a parent"], "`self` is the first parameter, once"),
            "forwarded=structural-equality": (["an argument handed to the parent"], "a class argument is not stored only if it is handed to a parent constructor"),
            "parent-calls-in-order": (["an argument handed to the parent"], "parent constructor calls are emitted in declaration order, with the arguments given to them"),
        }
        for key, (labels, text) in groups.items():
            bad = [f"{l_}: {fails[l_]}" for l_ in labels if l_ in fails]
            chk.ob("R-C17-4", key, not bad, text if not bad else f"the synthesised constructor changed - {bad[0]}", loc_i)
        # cases that exist only to reach the defensive arms of `init` (a parent that is neither a type nor a call of one, an explicit
        # constructor whose body is a single statement or that is not a function): no expectation, the result is not looked at
        dont_care = [
            (None, [Id("not-an-argument")], [Id("p"), Call(Id("q"), [])]),
            (("Some", {"__struct__": "FunDef", "dec": ("list", []), "id": "__init__", "arg": ("list", [Id("self")]), "ty": None, "body": s1}), [], []),
            (("Some", Id("x")), [], []),
            (("Some", {"__struct__": "FunDef", "dec": ("list", []), "id": "__init__", "arg": ("list", [{"__struct__": "FunArg", "vararg": False, "var": Ty("T"), "ty": None, "default": None}]), "ty": None, "body": s1}), [], []),
        ]
        for oi, ca, ps in dont_care:
            try:
                ev_i.call(it, [copy.deepcopy(oi), ("list", copy.deepcopy(ca)), ("list", copy.deepcopy(ps))])
            except NoEval:
                pass
        unc = ev_i.uncovered()
        chk.ob("R-C17-4", "fold-covers-every-branch", not unc, f"the case table reaches every branch of `init` ({len(ev_i.cov)} branch outcomes)" if not unc else
               f"the case table of this rule does not reach {len(unc)} branch(es) of the constructor synthesis, e.g. {unc[0]}: what `init` does there is not decided "
               "(a branch added to the function is reported here until a case covers it)", loc_i)
        bad = [f"{l_}: {fails[l_]}" for l_ in ("nothing to do",) if l_ in fails]
        chk.ob("R-C17-4", "none-when-empty", not bad, "no constructor is synthesised when there is nothing for it to do" if not bad else f"the synthesised constructor changed - {bad[0]}", loc_i)
        init_emitted(chk, facts, "R-C17-4")
    except AnchorError as e:
        chk.anchor_fail("R-C17-4", e)

    # ---------------- R-C17-5 ----------------
    try:
        ec = syn.one_fn("extract_class", mod="generate::convert::class")
        loc_e = facts.loc_of(ec)
        keys = []
        for n in walk(ec["body"]):
            if n.get("k") == "match" and src(strip(n["e"])) == "stmt":
                for a in n["arms"]:
                    keys.append((src(a["pat"]), src(a["body"]).replace(" ", "")))
        wild = [b for p, b in keys if p == "_" and "Core::Id" in b]
        ok = len(wild) == 1 and "{0}" in wild[0] and "i" in wild[0] and 'String::from("@")' not in wild[0]
        chk.ob("R-C17-5", "unique-keys", ok, "statements that are neither functions nor variables get a key that is unique per statement" if ok else
               "statements other than definitions share one map key: all but the last are dropped from the class", loc_e)
        sk = [n for n in walk(ec["body"]) if n.get("k") == "mcall" and n["m"] in ("sorted_by_key", "sorted_by", "sorted", "sort_by_key", "sort_by", "sort_by_cached_key")]
        ok = len(sk) == 1 and bool(sk[0]["args"]) and strip(sk[0]["args"][0]).get("k") == "closure" and strip(strip(sk[0]["args"][0])["body"]).get("k") == "tuple"
        chk.ob("R-C17-5", "total-order", ok, "members are sorted by (position, original index)" if ok else "members are sorted by a key that is not total", loc_e)
    except AnchorError as e:
        chk.anchor_fail("R-C17-5", e)
    # "defined in a Mamba file ... exists in the emitted module": the module of a file is the one written to that file's own path
    from . import c13
    from .common import borrow
    borrow(chk, facts, c13, ("R-C13-3|derive:", "R-C13-3|zip", "R-C13-3|extension", "R-C13-3|one-per-path:", "R-C13-3|paired-lists-not-reordered", "R-C13-3|sources-zip-paths", "R-C13-3|pipeline-order", "R-C13-3|anchor"),
           {"R-C13-3": "the module emitted for a file is written to that file's own output path (pairing by position, shared with C13)"})
    chk.notes.append("C17: field-mapping tables of the definition arms, order-preservation of list derivations, operator/dunder round trip.")


def _is_arm_binding(fn, path_node):
    """the variable is bound directly by the match-arm pattern (not re-bound by a later `let`)"""
    from .common import Scopes
    sc = _SCOPES.get(id(fn))
    if sc is None:
        sc = _SCOPES[id(fn)] = Scopes(fn)
    b = sc.resolve(path_node)
    return b is not None and b.kind == "arm"


_SCOPES = {}


def _option_map(e, scrutinee_name, fn=None):
    """e is `match <scrutinee> { Some(x) => Some(..convert_node(x..)..), None => None }` (or the as_ref().map form) with no guard"""
    if e is None:
        return False, "missing"
    e = strip(e)
    if e.get("k") == "if" and isinstance(e.get("c"), dict) and e["c"].get("k") == "let" and e.get("else") is not None and src(e["c"]["pat"]).replace(" ", "").startswith("Some("):
        # `if let Some(x) = <scrutinee> { .. } else { .. }` (the spelling the facts are normalised to) is the two-armed match
        e = {"k": "match", "e": e["c"]["e"], "arms": [{"pat": e["c"]["pat"], "guard": None, "body": e["then"]},
                                                     {"pat": {"k": "ppath", "p": "None"}, "guard": None, "body": e["else"]}]}
    if e.get("k") == "match":
        sc = src(strip(e["e"]))
        if sc != scrutinee_name:
            return False, f"is decided by `{sc}` instead of the definition's own `{scrutinee_name}`"
        if fn is not None and strip(e["e"]).get("k") == "path" and not _is_arm_binding(fn, strip(e["e"])):
            return False, f"is decided by a re-bound `{sc}` (a `let` shadows the definition's own field): the default depends on more than its presence"
        some = none = None
        for a in e["arms"]:
            if a.get("guard"):
                return False, f"has a guarded arm `{src(a['pat'])} if {src(a['guard'])[:50]}`: the default depends on more than its presence"
            p = src(a["pat"]).replace(" ", "")
            if p.startswith("Some("):
                some = a
            elif p == "None":
                none = a
            else:
                return False, f"unexpected arm `{p}`"
        if some is None or none is None:
            return False, "does not map both Some and None"
        sb = src(strip(some["body"])).replace(" ", "")
        if not (sb.startswith("Some(") and "convert_node(" in sb):
            return False, f"maps Some to `{sb[:60]}`"
        if src(strip(none["body"])) != "None":
            return False, f"maps None to `{src(none['body'])[:40]}`"
        return True, ""
    if e.get("k") == "mcall":
        s = src(e).replace(" ", "")
        if s.startswith(f"{scrutinee_name}.as_ref().map(") and "convert_node" in s and ".filter(" not in s:
            return True, ""
    return False, f"is `{src(e)[:80]}`"


def _derivation(fn, target, source):
    """method names used on the way from local `source` to local `target` (transitively through let-bound locals)"""
    defs = {}
    for n in walk(fn["body"]):
        if n.get("k") == "local" and n.get("init") is not None:
            for p in walk(n["pat"]):
                if p.get("k") == "pident":
                    defs.setdefault(p["name"], []).append(n["init"])
    meths = set()
    seen = set()
    reached = [False]

    def go(name):
        if name in seen:
            return
        seen.add(name)
        if name == source:
            reached[0] = True
            return
        for init in defs.get(name, []):
            for m in walk(init):
                if m.get("k") == "mcall":
                    meths.add(m["m"])
                if m.get("k") == "path" and "::" not in m["p"] and (m["p"] in defs or m["p"] == source):
                    go(m["p"])
    go(target)
    return meths, reached[0]


def init_emitted(chk, facts, rule):
    """the synthesised constructor is left out only when it would be empty: on every syntactic path of `init` that yields None the
    list of constructor statements is known to be empty. (Python's inherited constructor runs the first parent's `__init__` only, and
    emitted constructors never call super(): eliding a constructor that "only forwards self" changes what a class with two parents
    does.) Decided on the enumerated paths, so `Ok(if !s.is_empty() { Some(..) } else { None })` and
    `if s.is_empty() { return Ok(None); } .. Ok(Some(..))` are the same thing."""
    from .common import fn_paths, unwrap_ok
    syn = facts.syn
    try:
        f = syn.one_fn("init", mod="generate::convert::class")
        loc = facts.loc_of(f)
        paths = fn_paths(f["body"])
        n_none = n_some = 0
        bad = None
        for p in paths:
            if p.result is None:
                continue
            r = unwrap_ok(p.result)
            rs = src(strip(r)).replace(" ", "")
            if rs in ("None", "{None}"):
                n_none += 1
                if p.holds("statements.is_empty()") is not True:
                    bad = bad or p
            elif rs.startswith("Some("):
                n_some += 1
        ok = bad is None and n_none >= 1 and n_some >= 1
        chk.ob(rule, "init:none-only-when-empty", ok, f"no constructor is emitted only on paths where the statement list is empty ({n_none} such path(s), {n_some} emitting)" if ok else
               (f"init yields None on a path where the constructor statements are not known to be empty (conditions: {[c for c, pol in bad.conds if pol][-3:]}): "
                "the constructor is left out although parent constructors would have to be called" if bad else f"init: {n_none} None paths, {n_some} Some paths"), loc)
    except AnchorError as e:
        chk.anchor_fail(rule, e)
