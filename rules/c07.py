"""C07 - immutability.

R-C07-1  (MIR, Ok-path must-call) in `gen_call`, every path from the `Node::Reassign` arm to an Ok return passes through calls of
         `check_reassignable` and `check_iden_mut`; `generate` dispatches `Reassign` to `gen_call` and nothing else handles it;
         compound assignments (`reassign_op`) re-enter `generate` with a `Node::Reassign` they build, on every Ok path.
R-C07-2  (syntax, decision table) `check_iden_mut` yields no error exactly when
             (defined /\\ written-mutable /\\ every definition mutable)  \\/  (undefined /\\ written-mutable /\\ it is `self` inside a class)
         - enumerated over all 16 valuations of the four atoms from the match/guard chain of the source.
R-C07-3  (syntax, provenance) the mutability flag recorded by every `Environment::insert_var` call is the conjunction of the
         definition's `mutable` and the identifier's own flag (or the identifier's flag alone for loop variables): never a literal,
         never a disjunction, never negated.
R-C07-4  `fin self`: in `unify_fun_arg` the SELF branch reads the declared argument's `mutable` flag.
"""
import itertools
import re
from .common import walk, src, strip, AnchorError, must_call_blocks, enum_switch_targets, pat_alternatives, tail_expr


def variant_index(mir, enum_path, name):
    adt = mir.adts.get(enum_path)
    if adt is None:
        raise AnchorError(f"enum {enum_path} not found")
    names = [v["name"] for v in adt["variants"]]
    if name not in names:
        raise AnchorError(f"{enum_path} has no variant {name}")
    return names.index(name)


def arm_entry(mir, body, enum_path, variant):
    """(switch block, target block) of the first switch on enum_path's discriminant in body that separates `variant`"""
    vi = variant_index(mir, enum_path, variant)
    cands = enum_switch_targets(body, enum_path, None)
    if not cands:
        raise AnchorError(f"{body.path}: no match on {enum_path}")
    # the dispatching switch is the one closest to the entry
    cands.sort(key=lambda c: c[0].idx)
    bb, _ = cands[0]
    for v, t in bb.term.targets:
        if v == vi:
            return bb.idx, t, True
    return bb.idx, bb.term.otherwise, False


def run(chk, facts):
    mir, syn = facts.mir, facts.syn
    chk.rule("R-C07-1", "every Ok path of gen_call's Reassign arm calls check_reassignable and check_iden_mut; generate dispatches Reassign to gen_call; reassign_op re-enters generate with a Reassign")
    chk.rule("R-C07-2", "decision table of check_iden_mut equals: ok <=> (defined & written-mutable & all definitions mutable) | (undefined & written-mutable & self-in-class)")
    chk.rule("R-C07-3", "first argument of every Environment::insert_var is `mutable && <identifier flag>` (or the identifier flag alone for loop variables)")
    chk.rule("R-C07-4", "the SELF branch of unify_fun_arg reads the declared argument's `mutable`")
    NODE = "parse::ast::Node"

    # ---------------- R-C07-1 ----------------
    gen_call = mir.one("check::constrain::generate::call::gen_call")
    sw, entry, explicit = arm_entry(mir, gen_call, NODE, "Reassign")
    chk.ob("R-C07-1", "gen_call:has-Reassign-arm", explicit, "gen_call has an explicit Node::Reassign arm" if explicit else
           "gen_call no longer has a Node::Reassign arm (reassignments fall into the wildcard)", gen_call.loc)
    for callee in ("check_reassignable", "check_iden_mut"):
        holds, path = must_call_blocks(gen_call, entry, lambda t, c=callee: t.callee.split("::")[-1] == c)
        chk.ob("R-C07-1", f"gen_call:Reassign:must-call:{callee}", holds,
               f"every Ok path of the Reassign arm calls {callee}" if holds else
               f"an Ok return of gen_call's Reassign arm is reachable without calling {callee} (blocks {path}, lines {[gen_call.bbs[b].term.line for b in path][:12]})",
               gen_call.loc, detail={"path": path})
    # check_iden_mut is called with the environment the arm received, not a fresh/default one
    for bb, t in gen_call.calls():
        if t.callee.endswith("::check_iden_mut"):
            a = t.args[1]
            ok = a.place is not None and gen_call.local_name(a.place.local) == "env" or (a.place is not None and _copy_of_param(gen_call, a.place.local, 2))
            chk.ob("R-C07-1", "gen_call:check_iden_mut:env-arg", ok, "check_iden_mut receives the arm's own `env`" if ok else
                   "check_iden_mut is called with an environment other than the one the arm received", gen_call.loc)
    # dispatch in generate
    generate = mir.one("check::constrain::generate::generate")
    sw, gentry, explicit = arm_entry(mir, generate, NODE, "Reassign")
    reach = generate.reachable_from(gentry, blocked=[b for b in range(len(generate.bbs)) if b != gentry and generate.bbs[b].term.k == "switch"])
    callees = {generate.bbs[b].term.callee.split("::")[-1] for b in reach if generate.bbs[b].term.k == "call"}
    first = generate.bbs[gentry].term
    first_callee = first.callee.split("::")[-1] if first.k == "call" else None
    # walk forward to the first call on the arm
    cur = gentry
    hops = 0
    while generate.bbs[cur].term.k != "call" and hops < 10 and len(generate.succs(cur)) == 1:
        cur = generate.succs(cur)[0]
        hops += 1
    first_callee = generate.bbs[cur].term.callee.split("::")[-1] if generate.bbs[cur].term.k == "call" else None
    chk.ob("R-C07-1", "generate:Reassign->gen_call", first_callee == "gen_call",
           f"generate dispatches Node::Reassign to {first_callee}", generate.loc)
    # reassign_op: every Ok path builds a Reassign and calls generate afterwards
    rop = mir.one("check::constrain::generate::call::reassign_op")
    vi = variant_index(mir, NODE, "Reassign")
    build_blocks = [bb.idx for bb, s in rop.stmts() if s.rv == "Aggregate" and s.detail.startswith(f"Adt|{NODE}|{vi}|")]
    chk.ob("R-C07-1", "reassign_op:builds-Reassign", bool(build_blocks), "reassign_op builds a Node::Reassign" if build_blocks else
           "reassign_op no longer builds a Node::Reassign: compound assignments are not re-checked as assignments", rop.loc)
    if build_blocks:
        after = set()
        for b in build_blocks:
            after |= rop.reachable_from(b)
        gen_after = {bb.idx for bb, t in rop.calls() if t.callee.endswith("generate::generate") and bb.idx in after}
        holds, path = must_call_blocks(rop, 0, lambda t: False, extra_block=gen_after)
        chk.ob("R-C07-1", "reassign_op:must-generate-reassign", holds,
               "every Ok path of reassign_op generates the simple assignment it built" if holds else
               f"reassign_op can return Ok without generating the Reassign it built (blocks {path})", rop.loc)
        # and the op of the built node is Assign (otherwise infinite recursion or unchecked)
    # who else matches on Reassign in check::constrain::generate? (another handler would bypass the checks)
    handlers = []
    for b in mir.fns.values():
        if not b.path.startswith("check::constrain::generate::"):
            continue
        for bb, s in enum_switch_targets(b, NODE, None):
            if any(v == vi for v, _ in bb.term.targets):
                handlers.append(b.path)
    handlers = sorted(set(handlers))
    allowed = {"check::constrain::generate::generate", "check::constrain::generate::call::gen_call"}
    for h in handlers:
        chk.ob("R-C07-1", f"handler:{h}", h in allowed, f"{h} has an arm for Node::Reassign" + ("" if h in allowed else " - a second handler bypasses the mutability check"))
    chk.floor("R-C07-1", len(handlers), 1, "functions with a Node::Reassign arm in check::constrain::generate")

    # ---------------- R-C07-6 ----------------
    # every written name is looked at: the chain from `id.fields(..)` to the collected errors has no adapter that can drop an
    # element (zip with a shorter list, take, skip, filter, step_by ..)
    chk.rule("R-C07-6", "check_iden_mut examines every field of the target: no truncating adapter between `fields(..)` and `collect()`")
    try:
        cim = syn.one_fn("check_iden_mut", mod="check::constrain::generate::call")
        chains = []
        for n in walk(cim["body"]):
            if n.get("k") == "mcall" and n["m"] == "collect":
                ch, cur = [], strip(n["recv"])
                while cur.get("k") in ("mcall", "try"):
                    if cur.get("k") == "try":
                        cur = strip(cur["e"])
                        continue
                    ch.append(cur["m"])
                    cur = strip(cur["recv"])
                if "fields" in ch:
                    chains.append(list(reversed(ch)))
        ALLOWED = {"fields", "iter", "into_iter", "flat_map", "map", "cloned", "copied", "enumerate", "inspect"}
        bad = [m for ch in chains for m in ch if m not in ALLOWED]
        ok = len(chains) == 1 and not bad
        chk.ob("R-C07-6", "check_iden_mut:all-fields", ok, f"the mutability errors are collected over every field of the target ({' -> '.join(chains[0])})" if ok else
               (f"between `id.fields(..)` and the collected errors the chain passes `{bad[0]}`: a field of the target can be dropped before it is looked up "
                f"(e.g. zip with the top-level positions of a nested tuple), so a `fin` name in that place can be overwritten" if bad else
                f"{len(chains)} chains from fields(..) to collect() in check_iden_mut"), facts.loc_of(cim))
    except AnchorError as e:
        chk.anchor_fail("R-C07-6", e)

    # ---------------- R-C07-2 ----------------
    try:
        _decision_table(chk, facts)
    except AnchorError as e:
        chk.anchor_fail("R-C07-2", e)

    # ---------------- R-C07-3 ----------------
    n_sites = 0
    for fn in syn.fns:
        if not fn["mod"].startswith("check::constrain::generate") or not fn.get("body"):
            continue
        for n in walk(fn["body"]):
            if n.get("k") == "mcall" and n["m"] == "insert_var" and len(n["args"]) == 4:
                n_sites += 1
                a = strip(n["args"][0])
                ok, why = _flag_ok(fn, a)
                chk.ob("R-C07-3", f"{fn['qual']}|{src(a)}|{_ordinal(fn, n)}", ok,
                       f"{fn['qual']}: insert_var records mutability `{src(a)}`: {why}", facts.loc_of(fn))
    chk.floor("R-C07-3", n_sites, 3, "Environment::insert_var call sites")
    # the identifier's own flags come from Identifier::as_mutable(mutable) in id_from_var
    idv = syn.one_fn("id_from_var", mod="check::constrain::generate::definition")
    am = [n for n in walk(idv["body"]) if n.get("k") == "mcall" and n["m"] == "as_mutable"]
    ok = len(am) == 1 and src(strip(am[0]["args"][0])) == "mutable"
    chk.ob("R-C07-3", "id_from_var:as_mutable(mutable)", ok, "id_from_var combines the identifier with the definition's `mutable` (as_mutable(mutable))" if ok else
           "id_from_var no longer applies the definition's `mutable` to the identifier", facts.loc_of(idv))

    # ---------------- R-C07-4 ----------------
    try:
        ufa = syn.one_fn("unify_fun_arg", mod="check::constrain::unify::function")
        from .common import local_helpers
        reads = [n for f_ in [ufa] + local_helpers(syn, ufa) for n in walk(f_["body"]) if n.get("k") == "field" and n["name"] == "mutable"]
        chk.ob("R-C07-4", "unify_fun_arg:reads-mutable", len(reads) >= 1, f"unify_fun_arg reads `.mutable` of the declared argument {len(reads)} time(s)" if reads else
               "unify_fun_arg no longer looks at the declared argument's `mutable`: a `fin self` method can be called on/for mutation", facts.loc_of(ufa))
    except AnchorError as e:
        chk.anchor_fail("R-C07-4", e)
    # ---------------- R-C07-5: shadowing / scope (shared environment field-flow) ----------------
    from . import envflow
    chk.rule("R-C07-5", "definitions (and with them the recorded mutability) do not escape scope-closing constructs: a mutable re-definition in a branch, loop or function must not replace an outer `fin` definition afterwards")
    envflow.check_vars(chk, facts, "R-C07-5")
    chk.rule("R-C07-7", "no element is dropped before it is checked: every zip/take/skip in the checker is length-guarded or reviewed (shared census, rules/quant.py)")
    from .quant import truncation_census
    truncation_census(chk, facts, "R-C07-7")
    chk.notes.append("C07: Ok-path must-call on MIR; decision table of check_iden_mut enumerated over 16 valuations; insert_var flag provenance.")


def _copy_of_param(body, local, param_local):
    """is `local` a (re)borrow/copy of argument local `param_local`"""
    seen = set()
    cur = local
    for _ in range(8):
        if cur == param_local:
            return True
        nxt = None
        for bb, s in body.stmts():
            if s.dst.local == cur and not s.dst.proj and s.rv in ("Use", "Ref") and s.ops and s.ops[0].place is not None:
                nxt = s.ops[0].place.local
        if nxt is None or nxt in seen:
            return False
        seen.add(nxt)
        cur = nxt
    return False


def _ordinal(fn, node):
    i = 0
    for n in walk(fn["body"]):
        if n is node:
            return i
        if n.get("k") == "mcall" and n["m"] == node["m"]:
            i += 1
    return i


def _flag_ok(fn, a):
    """a: first argument of insert_var"""
    def is_ident(e):
        e = strip(e)
        return e.get("k") == "path" and "::" not in e["p"]
    if a.get("k") == "binary":
        if a["op"] != "&&":
            return False, f"flags are combined with `{a['op']}` instead of `&&`"
        l, r = strip(a["l"]), strip(a["r"])
        if not (is_ident(l) and is_ident(r)):
            return False, "not a conjunction of two plain flags"
        names = {src(l), src(r)}
        if "mutable" not in names:
            return False, "the definition's `mutable` is not part of the conjunction"
        other = (names - {"mutable"})
        if not other:
            return False, "the identifier's own flag is missing"
        o = other.pop()
        if not _bound_by_fields_loop(fn, o):
            return False, f"`{o}` is not the per-identifier flag produced by Identifier::fields/match_name"
        return True, "conjunction of the definition's flag and the identifier's flag"
    if is_ident(a):
        nm = src(a)
        if _bound_by_fields_loop(fn, nm):
            return True, "the identifier's own flag (loop variable: there is no separate definition flag)"
        return False, f"`{nm}` does not come from Identifier::fields"
    if a.get("k") == "lit":
        return False, "a literal: every such variable is recorded with fixed mutability"
    return False, "unrecognised expression"


def _bound_by_fields_loop(fn, name):
    """name is bound by a `for (.. name ..) in <expr containing .fields( or match_name(>`"""
    for n in walk(fn["body"]):
        if n.get("k") == "for":
            names = {p["name"] for p in walk(n["pat"]) if p.get("k") == "pident"}
            if name in names:
                it = src(n["iter"])
                if ".fields(" in it or "match_name(" in it or "fields" == it.strip("&"):
                    return True
                # `for (f_mut, name) in &fields` where fields = identifier.fields(..)
                base = strip(n["iter"])
                if base.get("k") == "path":
                    for m in walk(fn["body"]):
                        if m.get("k") == "local" and m.get("init") is not None and any(p.get("k") == "pident" and p["name"] == base["p"] for p in walk(m["pat"])):
                            if ".fields(" in src(m["init"]):
                                return True
    return False


def _decision_table(chk, facts):
    syn = facts.syn
    fn = syn.one_fn("check_iden_mut", mod="check::constrain::generate::call")
    loc = facts.loc_of(fn)
    # the closure over (f_mut, var) whose body is a match on env.get_var(..)
    target = None
    from .common import local_helpers
    for f_ in [fn] + local_helpers(syn, fn):      # the decision may live in a private helper of the module
        for n in walk(f_["body"]):
            if n.get("k") == "match" and ".get_var(" in src(n["e"]):
                target = n
                break
        if target is not None:
            break
    if target is None:
        raise AnchorError("check_iden_mut: no `match env.get_var(..)`")
    # the result must be what decides Ok/Err: `if errors.is_empty() { Ok(()) } else { Err(..) }`
    # (decided on the enumerated paths: `if e.is_empty() { Ok } else { Err }`, `if !e.is_empty() { return Err } Ok(())` .. alike)
    from .common import fn_paths
    ok_when_empty = err_when_not = other = 0
    for p_ in fn_paths(fn["body"]):
        if p_.result is None:
            continue
        r_ = src(strip(p_.result)).replace(" ", "")
        emp = [pol if not c.startswith("!") else (not pol) for c, pol in p_.conds if re.fullmatch(r"!?\(?\w+\.is_empty\(\)\)?", c)]
        if emp and emp[-1] and r_.startswith("Ok("):
            ok_when_empty += 1
        elif emp and not emp[-1] and r_.startswith("Err("):
            err_when_not += 1
        else:
            other += 1
    if not (ok_when_empty >= 1 and err_when_not >= 1 and other == 0):
        raise AnchorError(f"check_iden_mut no longer yields Ok exactly when the collected errors are empty ({ok_when_empty} ok paths, {err_when_not} err paths, {other} others)")

    def guard_formula(g):
        """-> python lambda over atoms dict(F=written mutable, S=self in class) or None"""
        if g is None:
            return lambda a: True
        s = src(strip(g)).replace(" ", "")
        if s in ("*f_mut", "f_mut"):
            return lambda a: a["F"]
        if s in ("!f_mut", "!*f_mut"):
            return lambda a: not a["F"]
        conj = sorted(x.strip("()") for x in re.split(r"&&", s.strip("()")))
        if conj == ["env.class.is_some", "var==SELF"] or sorted(c.replace("(", "").replace(")", "") for c in re.split(r"&&", s)) == ["env.class.is_some", "var==SELF"]:
            return lambda a: a["S"]
        return None

    def body_result(b):
        """-> lambda atoms -> True if the arm yields no error"""
        s = src(strip(b))
        e = strip(b)
        if s.startswith("::alloc::vec::Vec::new(") or s in ("Vec::new()", "vec![]"):
            return lambda a: True
        if "box_assume_init_into_vec_unsafe" in s or s.startswith("vec!["):
            return lambda a: False     # a vec![..] with at least one message
        chain = []
        cur = e
        while cur.get("k") == "mcall":
            chain.append(cur)
            cur = strip(cur["recv"])
        names = [c["m"] for c in reversed(chain)]
        if names == ["iter", "filter", "map", "collect"] and cur.get("k") == "path":
            flt = strip(chain[-2]["args"][0])
            if flt.get("k") == "closure" and src(strip(flt["body"])).replace(" ", "") in ("!*is_mut", "!is_mut"):
                return lambda a: a["A"]    # one error per immutable definition: none iff all definitions are mutable
        return None

    arms = []
    for a in target["arms"]:
        alts = pat_alternatives(a["pat"])
        kinds = set()
        for alt in alts:
            if alt.get("k") == "ptstruct" and alt["p"] == "Some":
                kinds.add("some")
            elif alt.get("k") == "ppath" and alt["p"] == "None":
                kinds.add("none")
            elif alt.get("k") in ("pwild", "pident"):
                kinds.add("any")
            else:
                raise AnchorError(f"check_iden_mut: unexpected pattern {src(alt)}")
        gf = guard_formula(a.get("guard"))
        br = body_result(a["body"])
        if gf is None or br is None:
            raise AnchorError(f"check_iden_mut: arm `{src(a['pat'])} if {src(a.get('guard'))}` left the decision-table fragment")
        arms.append((kinds, gf, br))
    rows = 0
    bad = []
    for D, F, A, S in itertools.product([False, True], repeat=4):
        atoms = {"D": D, "F": F, "A": A, "S": S}
        got = None
        for kinds, gf, br in arms:
            pm = ("any" in kinds) or (D and "some" in kinds) or ((not D) and "none" in kinds)
            if pm and gf(atoms):
                got = br(atoms)
                break
        if got is None:
            bad.append((atoms, "no arm"))
            continue
        want = (D and F and A) or ((not D) and F and S)
        rows += 1
        if got != want:
            bad.append((atoms, f"code says {'ok' if got else 'error'}, specification says {'ok' if want else 'error'}"))
    for atoms, why in bad[:4]:
        key = "".join(k for k, v in atoms.items() if v) or "none"
        chk.ob("R-C07-2", f"row:{key}", False,
               f"check_iden_mut for (defined={atoms['D']}, written-mutable={atoms['F']}, all-defs-mutable={atoms['A']}, self-in-class={atoms['S']}): {why}", loc)
    chk.ob("R-C07-2", "table", not bad, f"check_iden_mut decision table: {rows} valuations agree with the specification" if not bad else
           f"{len(bad)} of 16 valuations of check_iden_mut's decision table deviate", loc)
    chk.counts["R-C07-2"] += 15
