"""C12 - determinism.

R-C12-1  (MIR, hash-order flow census A6) every order-sensitive consumer of an iteration over a std HashSet/HashMap is in the
         reviewed table tables/hash_order.json as benign (with the reason) or is a finding; a consumer the table does not list is
         reported. Stable sorts by a key (`sorted_by_key`) count as order-sensitive: ties keep hash order.
R-C12-2  (MIR, who-may-call) no other source of nondeterminism: time, environment variables, process/thread ids, randomness,
         pointer-to-integer casts, directory listing order (only into an order-free consumer).
R-C12-3  (syntax) manual `Hash` + `PartialEq` pairs are consistent: every field that is hashed is compared.
R-C12-4  (MIR) no cross-run state: the crate has no mutable or interior-mutable statics, thread_locals or lazy initialisers.
R-C12-5  (resources) the bundled Python stubs define at most one method per (class, name): lookups of methods are by name in a
         hash set, so a second signature of one name would make the verdict depend on hash order.
R-C12-6  (syntax) the sort key that orders class members in extract_class is total: (position, original index) with the index
         unique per statement.
"""
import glob
import os
import re
from collections import Counter
from .common import walk, src, strip, AnchorError, load_table, REPO, owner_root, idents_in
from . import hashorder

NONDET = [
    (r"^std::time::", "time"),
    (r"^std::env::(var|vars|var_os|vars_os|args|args_os|temp_dir|current_exe)", "process environment"),
    (r"^std::process::id", "process id"),
    (r"^std::thread::", "threads"),
    (r"rand(om)?::", "randomness"),
    (r"^std::collections::hash_map::RandomState::new", "explicit random hasher state"),
    (r"^std::fs::read_dir", "directory listing order"),
    (r"^glob::glob", "directory listing order (glob yields paths in alphabetical order per directory: deterministic)"),
]
NONDET_ALLOWED = {
    ("check::context::python::python_files", r"^std::fs::read_dir"): "every definition of every stub file is inserted into hash sets (order-free); uniqueness of the definitions across files is R-C12-5",
    ("io::relative_files", "^glob::glob"): "glob sorts directory entries alphabetically; the list is the documented input order of a project",
}


def run(chk, facts):
    mir, syn = facts.mir, facts.syn
    chk.rule("R-C12-1", "order-sensitive consumers of hash-ordered iterations are reviewed (benign with reason) or findings; new ones are reported")
    chk.rule("R-C12-2", "no call of time / env / pid / thread / random / read_dir outside the reviewed sites")
    chk.rule("R-C12-3", "manual Hash + PartialEq pairs: hashed fields are a subset of compared fields")
    chk.rule("R-C12-4", "no mutable / interior-mutable statics, no thread_local / lazy statics")
    chk.rule("R-C12-5", "bundled stubs: at most one method per (class, name)")
    chk.rule("R-C12-6", "extract_class sorts members by a total key")

    # ---------------- R-C12-1 ----------------
    hashorder.ADAPTERS.discard("from_residual")
    hashorder.ORDER_FREE.add("from_residual")
    table = load_table("hash_order.json")
    # sites are attributed to the function they belong to (closures to their function, single-caller private helpers to the caller):
    # the table and the sites are normalised the same way, counts of entries that fall together add up
    import re as _re
    reviewed = {}
    for r in table["sinks"]:
        fn_ = r["fn"] if r["fn"] in mir.fns else _re.sub(r"(::\{closure#\d+\})+$", "", r["fn"])
        key = (owner_root(mir, syn, fn_), r["origin"], r["kind"])
        if key in reviewed:
            prev = reviewed[key]
            merged = dict(prev)
            merged["count"] = prev["count"] + r["count"]
            if r["disposition"] == "finding" and prev["disposition"] != "finding":
                merged.update({"disposition": "finding", "finding": r["finding"], "reason": r["reason"]})
            reviewed[key] = merged
        else:
            reviewed[key] = dict(r)
    sinks = hashorder.all_sinks(mir)
    for s in sinks:
        s["fn"] = owner_root(mir, syn, s["fn"])
    cnt = Counter((s["fn"], s["origin"], s["kind"]) for s in sinks)
    first = {}
    for s in sinks:
        first.setdefault((s["fn"], s["origin"], s["kind"]), s)
    # a consumer that is not in the table under its exact key is looked up once more under a coarser one: the container *type* without the
    # field it was read from, and `first` / `last` / `next` (outside a loop) / `nth` as one kind - "one member, whichever the hash order
    # puts there". (`Vec::from_iter(&set).first()` and `set.iter().next()` are the same member; a reviewed reason of the form "every member
    # answers the same" or "diagnostic text only" does not depend on which one it is.) Counts are compared per coarse key.
    PICK = {"first", "last", "next", "next_back", "nth"}

    def coarse(key_):
        fn_, org_, kind_ = key_
        # a loop that stops at the first element it accepts and `find` / `find_map` / `position` are one kind of consumer: a scan in hash order
        return (fn_, org_.split(" .")[0], "pick-one" if kind_ in PICK else ("scan" if kind_ in (hashorder.ITER_KIND, "find", "find_map", "position", "rposition") else kind_))
    reviewed_coarse, cnt_coarse = {}, Counter()
    for key_, r_ in reviewed.items():
        c_ = coarse(key_)
        if c_ in reviewed_coarse:
            m_ = dict(reviewed_coarse[c_])
            m_["count"] += r_["count"]
            if r_["disposition"] == "finding":
                m_.update({"disposition": "finding", "finding": r_["finding"], "reason": r_["reason"]})
            reviewed_coarse[c_] = m_
        else:
            reviewed_coarse[c_] = dict(r_)
    for key_, n_ in cnt.items():
        cnt_coarse[coarse(key_)] += n_
    n_sources = 0
    for b in mir.fns.values():
        for bb, t in b.calls():
            if t.args and hashorder.HASH.search(t.argt[0]) and t.callee.split("::")[-1] in hashorder.SRC_METHODS:
                n_sources += 1
    chk.floor("R-C12-1", n_sources, 100, "iterations over std hash containers")
    for key, n in sorted(cnt.items()):
        fn, org, kind = key
        s = first[key]
        loc = f"{s['file']}:{s['line']}"
        r = reviewed.get(key)
        if r is None and "/#" in org:
            # the container's element type is a type parameter: the site is in a generic helper; it stands for the reviewed sites of the
            # same function and kind whose container matches with the parameter as a wildcard (`HashSet<T>` for `HashSet<GenericClass>`, ..)
            rx_ = re.compile("^" + re.sub(r"\\?\w+/\\?#\d+", r"[^<>,]+", re.escape(org.split(" .")[0])) + "$")
            cands_ = [(k_, r_) for k_, r_ in reviewed.items() if k_[0] == fn and k_[2] == kind and rx_.match(k_[1].split(" .")[0]) and (k_ not in cnt)]
            if cands_ and all(r_["disposition"] != "finding" for _, r_ in cands_) and n <= sum(r_["count"] for _, r_ in cands_):
                chk.ob("R-C12-1", f"{fn}|{org}|{kind}", True, f"{fn}: `{kind}` over `{org}` (a generic helper) - stands for the reviewed sites over "
                       f"{sorted(k_[1] for k_, _ in cands_)}: {cands_[0][1]['reason']}", loc)
                continue
        if r is None:
            rc_ = reviewed_coarse.get(coarse(key))
            if rc_ is not None and rc_["disposition"] != "finding" and cnt_coarse[coarse(key)] <= rc_["count"]:
                chk.ob("R-C12-1", f"{fn}|{org}|{kind}", True, f"{fn}: `{kind}` over `{org}` - reviewed benign as `{coarse(key)[2]}` over `{coarse(key)[1]}`: {rc_['reason']}", loc)
                continue
        if r is None:
            chk.ob("R-C12-1", f"{fn}|{org}|{kind}", False,
                   f"{fn}: the iteration order of `{org}` reaches `{kind}` - an order-sensitive consumer that is not reviewed "
                   f"(stable sorts by key, find/next/last/fold, loops and escapes depend on the hash seed)", loc)
            continue
        if n > r["count"]:
            chk.ob("R-C12-1", f"{fn}|{org}|{kind}|count", False,
                   f"{fn}: {n} `{kind}` consumers of `{org}`, {r['count']} reviewed - a new order-sensitive consumer", loc)
            continue
        if r["disposition"] == "finding":
            chk.ob("R-C12-1", f"{fn}|{org}|{kind}", False, f"{fn}: `{kind}` over `{org}`: {r['reason']} ({r['finding']})", loc)
        else:
            chk.ob("R-C12-1", f"{fn}|{org}|{kind}", True, f"{fn}: `{kind}` over `{org}` - reviewed benign: {r['reason']}", loc)
    chk.floor("R-C12-1", len(cnt), 35, "order-sensitive consumers found")

    # ---------------- R-C12-2 ----------------
    n = 0
    for b in mir.fns.values():
        for bb, t in b.calls():
            for rx, what in NONDET:
                if re.search(rx, t.callee):
                    n += 1
                    owner = b.parent if b.kind == "Closure" else b.path
                    ok = (owner, rx) in NONDET_ALLOWED
                    chk.ob("R-C12-2", f"{owner}|{t.callee.split('<')[0]}", ok,
                           f"{owner} calls {t.callee} ({what})" + (f" - reviewed: {NONDET_ALLOWED[(owner, rx)]}" if ok else " - a source of nondeterminism"),
                           f"{b.file}:{t.line}")
        for bb, s in b.stmts():
            if s.rv == "Cast" and ("PointerExposeProvenance" in s.detail or "PointerExposeAddress" in s.detail) and not s.exp:
                chk.ob("R-C12-2", f"{b.path}|ptr2int", False, f"{b.path} casts a pointer to an integer (addresses differ between runs)", f"{b.file}:{s.line}")
    chk.ob("R-C12-2", "scan", True, f"scanned {sum(1 for b in mir.fns.values() for _ in b.calls())} calls; {n} touch a nondeterminism source")

    # ---------------- R-C12-3 ----------------
    pairs = 0
    by_ty = {}
    for im in syn.impls:
        tr = (im.get("trait") or "").split("<")[0].strip()
        if tr in ("Hash", "PartialEq") and not any("automatically_derived" in a for a in im.get("attrs", [])):
            by_ty.setdefault((im["mod"], im["self_ty"]), {})[tr] = im
    for (mod, ty), d in sorted(by_ty.items()):
        if "Hash" not in d:
            continue
        hfn = [i for i in d["Hash"]["items"] if i.get("k") == "fn" and i["name"] == "hash"]
        if not hfn:
            continue
        hashed = _self_fields(hfn[0]["body"])
        if "PartialEq" in d:
            efn = [i for i in d["PartialEq"]["items"] if i.get("k") == "fn" and i["name"] == "eq"]
            compared = _self_fields(efn[0]["body"]) if efn else set()
            derived_eq = False
        else:
            # PartialEq derived: compares every field
            compared = None
            derived_eq = True
        pairs += 1
        if derived_eq:
            # derived Eq compares all fields; a manual Hash over a subset is consistent (a == b => hash(a) == hash(b))
            ok = True
            why = f"Hash uses {sorted(hashed)}; Eq is derived (all fields): equal values hash equally"
        else:
            ok = hashed <= compared or not hashed
            why = f"Hash uses {sorted(hashed)}, Eq compares {sorted(compared)}"
        chk.ob("R-C12-3", f"{mod}::{ty}", ok, f"{mod}::{ty}: {why}" + ("" if ok else " - values that compare equal can hash differently: set membership becomes unpredictable"))
    chk.floor("R-C12-3", pairs, 6, "manual Hash implementations")

    # ---------------- R-C12-8 ----------------
    # sorting is what makes hash-ordered data deterministic, and a stable sort leaves elements that compare Equal in their incoming (hash)
    # order: a hand-written Ord must therefore distinguish whatever Eq distinguishes.  For every manual `impl Ord` / `impl PartialOrd`:
    # the fields of self that `cmp` reads cover the fields that `eq` compares (all fields when Eq is derived), and nothing projects
    # the compared values onto a part of them (`.map(|n| &n.variant)`, `_by_key(..)`) before they are compared
    chk.rule("R-C12-8", "manual Ord is at least as fine as Eq: compared fields cover the Eq fields, no projection before comparing")
    n_ord = 0
    eq_fields = {}
    for im in syn.impls:
        tr = (im.get("trait") or "").split("<")[0].strip()
        if tr == "PartialEq" and not any("automatically_derived" in a for a in im.get("attrs", [])):
            efn = [i for i in im["items"] if i.get("k") == "fn" and i["name"] == "eq"]
            if efn:
                eq_fields[(im["mod"], im["self_ty"])] = _self_fields(efn[0]["body"])
    for im in syn.impls:
        tr = (im.get("trait") or "").split("<")[0].strip()
        if tr not in ("Ord", "PartialOrd") or any("automatically_derived" in a for a in im.get("attrs", [])):
            continue
        fn_ = [i for i in im["items"] if i.get("k") == "fn" and i["name"] in ("cmp", "partial_cmp")]
        if not fn_:
            continue
        body = fn_[0]["body"]
        # PartialOrd that only delegates to Ord (`Some(self.cmp(other))`) is judged through the Ord impl
        if tr == "PartialOrd" and "self.cmp(other)" in src(body, -30).replace(" ", ""):
            continue
        n_ord += 1
        key = (im["mod"], im["self_ty"])
        st = syn.structs.get(f"{im['mod']}::{im['self_ty']}") or syn.structs.get(im["self_ty"])
        all_fields = {n_ for n_, _ in st["fields"]} if st else set()
        need = eq_fields.get(key, all_fields)
        read = _self_fields(body)
        # a comparison of the whole values (`self == other`, `self.eq(other)`) looks at everything Eq compares; a sibling method of the same
        # impl called on self (`self.lt(other)`) contributes what it reads
        for n in walk(body):
            if n.get("k") == "binary" and n["op"] in ("==", "!=") and {src(strip(n["l"])), src(strip(n["r"]))} == {"self", "other"}:
                read |= need
            elif n.get("k") == "mcall" and src(strip(n["recv"])) == "self" and n["m"] in ("eq", "ne") and len(n["args"]) == 1 and src(strip(n["args"][0])) == "other":
                read |= need
            elif n.get("k") == "mcall" and src(strip(n["recv"])) == "self" and n["m"] not in ("cmp", "partial_cmp"):
                for sib in im["items"]:
                    if sib.get("k") == "fn" and sib["name"] == n["m"] and sib.get("body"):
                        read |= _self_fields(sib["body"])
        missing = sorted(need - read)
        proj = [src(n, -30)[:60] for n in walk(body) if n.get("k") == "mcall" and n["m"] in ("map", "filter", "filter_map", "flat_map", "sorted_by_key", "sort_by_key", "take", "skip", "first", "last", "next")
                and "self" in idents_in(n["recv"])]
        ok = not missing and not proj
        chk.ob("R-C12-8", f"{im['mod']}::{im['self_ty']}|{tr}", ok,
               f"{im['self_ty']}: {tr} reads {sorted(read)} - everything Eq compares" if ok else
               f"{im['self_ty']}: {tr} is coarser than Eq (" + (f"does not look at {missing}" if missing else f"compares a projection: `{proj[0]}`") +
               "): values that are different can compare Equal, a stable sort leaves them in hash order, and what is emitted from the sorted sequence differs between runs",
               facts.loc_of(fn_[0]) if hasattr(facts, "loc_of") else None)
    chk.floor("R-C12-8", n_ord, 2, "manual Ord / PartialOrd implementations")

    # ---------------- R-C12-4 ----------------
    for s in mir.statics:
        bad = s["mutable"] or re.search(r"Cell|Mutex|RwLock|Atomic|Once|Lazy|LocalKey", s["ty"])
        chk.ob("R-C12-4", f"static:{s['path']}", not bad, f"static {s['path']}: {s['ty']}" + (" - mutable or interior-mutable global state survives between runs in one process" if bad else " (immutable)"), f"{s['file']}:{s['line']}")
    tl = [b.path for b in mir.fns.values() for bb, t in b.calls() if "thread::local" in t.callee or "LocalKey" in t.callee or "OnceLock" in t.callee or "lazy_static" in t.callee]
    chk.ob("R-C12-4", "no-thread-local-or-lazy", not tl, "no thread_local / OnceLock / lazy_static use" if not tl else f"thread-local or lazily initialised state used in {sorted(set(tl))[:3]}")

    # ---------------- R-C12-5 ----------------
    # the stubs are "Python-like" (parameter names such as `in`, a class called None), so they are scanned line by line
    files = sorted(glob.glob(os.path.join(REPO, "src/check/resource/**/*.py"), recursive=True))
    ncls = 0
    all_classes = Counter()
    all_tops = Counter()
    for fpath in files:
        rel = os.path.relpath(fpath, REPO)
        cur = None
        methods = {}
        for ln, line in enumerate(open(fpath, encoding="utf-8", errors="replace").read().split("\n"), 1):
            m = re.match(r"^class\s+([A-Za-z_][A-Za-z0-9_]*)", line)
            if m:
                cur = m.group(1)
                methods[cur] = (Counter(), ln)
                all_classes[cur] += 1
                continue
            m = re.match(r"^(\s*)def\s+([A-Za-z_][A-Za-z0-9_]*)\s*\(", line)
            if m:
                if m.group(1) == "":
                    cur = None
                    all_tops[m.group(2)] += 1
                elif cur is not None:
                    methods[cur][0][m.group(2)] += 1
                continue
            if line and not line[0].isspace() and not line.startswith("#"):
                cur = None
        for cname, (names, ln) in methods.items():
            ncls += 1
            dups = sorted(k for k, v in names.items() if v > 1)
            chk.ob("R-C12-5", f"{rel}:{cname}", not dups,
                   f"stub class {cname}: method names are unique" if not dups else
                   f"stub class {cname} defines {dups} more than once: methods are looked up by name in a hash set, so which signature is found depends on the hash seed",
                   f"{rel}:{ln}")
    dups = sorted(k for k, v in all_classes.items() if v > 1)
    chk.ob("R-C12-5", "classes-unique-across-stubs", not dups, "stub class names are unique across all stub files" if not dups else f"stub classes {dups} are defined more than once (files are read in directory order, definitions go into hash sets)")
    dups = sorted(k for k, v in all_tops.items() if v > 1)
    chk.ob("R-C12-5", "functions-unique-across-stubs", not dups, "top-level stub functions are unique by name" if not dups else f"top-level stub functions {dups} are defined more than once")
    chk.floor("R-C12-5", ncls, 10, "stub classes")

    # ---------------- R-C12-6 ----------------
    try:
        ec = syn.one_fn("extract_class", mod="generate::convert::class")
        loc = facts.loc_of(ec)
        sk = [n for n in walk(ec["body"]) if n.get("k") == "mcall" and n["m"] in ("sorted_by_key", "sorted_by", "sorted", "sort_by_key", "sort_by", "sort_by_cached_key")]
        if len(sk) != 1:
            raise AnchorError(f"extract_class: {len(sk)} sorts")
        cl = strip(sk[0]["args"][0]) if sk[0]["args"] else None
        key = src(strip(cl["body"])).replace(" ", "") if cl else ""
        params = src(cl["params"]).replace(" ", "") if cl else ""
        # the key must be a tuple of the position and the index component, and the index must be unique: i + 1 from enumerate, 0 for the synthesised init
        tuple_key = cl is not None and strip(cl["body"]).get("k") == "tuple" and len(strip(cl["body"])["elems"]) >= 2
        idx_unique = any(n.get("k") == "tuple" and "i+1" in src(n).replace(" ", "").replace("(", "").replace(")", "") for n in walk(ec["body"]))
        ok = tuple_key and idx_unique
        chk.ob("R-C12-6", "extract_class:total-sort-key", ok,
               f"class members are sorted by `{key}` over `{params}`: position plus a unique index - a total order" if ok else
               f"class members are sorted by `{key}`: not a (position, unique index) key, ties are emitted in hash order", loc)
    except AnchorError as e:
        chk.anchor_fail("R-C12-6", e)
    # ---------------- R-C12-7 ----------------
    # `Class.fields` / `Class.functions` are hash sets of structs whose derived equality compares every member, but they are *looked
    # up by name* (GetField::field, GetFun::fun: `iter().find(|f| f.name == name)`). That lookup is deterministic only while a name
    # occurs once, and the one place that merges two such sets - Class::inherit - keeps it so by dropping inherited members whose
    # *name* the class already has. An equality-based test (`contains`, set difference) lets `Base.label: Int` and
    # `Derived.label: Str` coexist, and which one `d.label` finds depends on the hash seed.
    chk.rule("R-C12-7", "Class::inherit filters inherited fields and functions by name against the class's own (not by struct equality)")
    try:
        inh = syn.one_fn("inherit", mod="check::context::clss", impl_of="Class")
        loc = facts.loc_of(inh)
        for setname, proj in (("fields", r"\.name"), ("functions", r"\.name(\.name)?")):
            flt = [n for n in walk(inh["body"]) if n.get("k") == "mcall" and n["m"] in ("filter", "filter_map") and f"other.{setname}" in src(n["recv"]).replace(" ", "")]
            ok = False
            how = "no filter on the inherited members"
            for f_ in flt:
                cl = strip(f_["args"][0])
                b_ = src(strip(cl["body"]), -20).replace(" ", "") if cl.get("k") == "closure" else ""
                by_name = re.search(r"self\." + setname + r"\.iter\(\)\.(all|any)\(\|(\w+)\|\(?\(?\2" + proj + r"\)?(!=|==)\(?(\w+)" + proj + r"\)?\)?\)", b_) or \
                    re.search(r"self\." + setname + r"\.iter\(\)\.(all|any)\(\|(\w+)\|\(?\(?\w+" + proj + r"\)?(!=|==)\(?\2" + proj + r"\)?\)?\)", b_)     # either side first
                if by_name and ".contains(" not in b_ and ((by_name.group(1) == "all" and "!=" in by_name.group(0)) or (by_name.group(1) == "any" and b_.startswith("!"))):
                    ok = True
                else:
                    how = f"the filter is `{b_[:80]}`"
            chk.ob("R-C12-7", f"inherit:{setname}:by-name", ok, f"inherited {setname} are dropped when the class has a member of the same name" if ok else
                   f"Class::inherit no longer excludes inherited {setname} by *name* ({how}): two members of one name can coexist in the set, and the by-name lookup "
                   "returns whichever the hash order yields first", loc)
    except AnchorError as e:
        chk.anchor_fail("R-C12-7", e)
    chk.assume("third-party crates (itertools sorted/unique, glob, python_parser) are deterministic")
    chk.notes.append(f"C12: {n_sources} hash iterations followed to {len(cnt)} order-sensitive consumers on MIR.")


def _self_fields(body):
    out = set()
    for n in walk(body):
        if n.get("k") == "field" and src(strip(n["base"])) == "self":
            out.add(n["name"])
    return out
