"""C19 - diagnostics are well-formed and point into the offending file and line.

R-C19-1  (syntax, provenance) every error that `mamba_to_python` renders (`format!("{err}")`) has passed `with_source` with the
         (source, path) of the file it belongs to - traced from the rendered variable back through closures, lets and iterator
         chains to the call that produced the error. (MIR cross-check: for each error type, rendering sites vs with_source sites.)
R-C19-2  (syntax) at least one diagnostic: every `Err(..)` built in check:: / parse:: / generate:: from a vector is built from a
         provably non-empty one: a `vec![..]` literal with >= 1 element, a collection guarded by `!is_empty()`, the
         partition idiom, or a propagated error.
R-C19-3  (MIR) rendering cannot fail: the panic obligations inside the renderers (format_err, format_location, the Display impls of
         the error types) are all discharged or reviewed (shared census with C03, restricted to the rendering functions).
R-C19-4  (syntax) the quoted line is the reported line: the renderer splits the source with `str::lines` and indexes it with
         `line - 1`; the lexer starts at line 1 and counts a line exactly at `\\n` and at `\\r\\n` (one newline), which is what `lines`
         splits on; the caret column is `pos - 1` spaces.
"""
import re
from .common import walk, src, strip, AnchorError, Scopes, load_table, format_args_of, text_as_is, TEXT_TRANSFORMS
from .c11 import parents_map
from . import c03

ERR_TYPES = ["parse::result::ParseErr", "check::result::TypeErr", "generate::result::UnimplementedErr"]
RENDERERS = ["common::result::format_err", "common::result::format_location", "LexErr as std::fmt::Display>::fmt", "ParseErr as std::fmt::Display>::fmt",
             "TypeErr as std::fmt::Display>::fmt", "UnimplementedErr as std::fmt::Display>::fmt", "common::position::Position::get_width"]


def run(chk, facts):
    mir, syn = facts.mir, facts.syn
    chk.rule("R-C19-1", "every rendered error passed with_source(src, path) of its own file")
    chk.rule("R-C19-2", "every Err(vector) is built from a provably non-empty vector")
    chk.rule("R-C19-3", "the renderers' panic obligations are discharged or reviewed")
    chk.rule("R-C19-4", "renderer line splitting agrees with the lexer's line counting; indexes are line-1 / pos-1")

    # ---------------- R-C19-1 ----------------
    m2 = syn.one_fn("mamba_to_python")
    loc = facts.loc_of(m2)
    sc = Scopes(m2)
    pm = parents_map(m2["body"])
    renders = []
    for n in walk(m2["body"]):
        if n.get("k") == "macro" and n.get("name", "").endswith("format_args") and "args" in n:
            a = n["args"]
            if len(a) == 2 and a[0].get("k") == "lit" and a[0]["v"] in ("{0}", "{}") and strip(a[1]).get("k") == "path":
                renders.append((n, strip(a[1])))
    n_err = 0
    for mac, var in renders:
        b = sc.resolve(var)
        if b is None:
            continue
        origin, passed, desc = _trace_binding(sc, pm, b, 0)
        if origin == "not-an-error":
            continue
        n_err += 1
        key = desc.split(" <- ")[-1][:70]
        chk.ob("R-C19-1", f"render:{key}", passed,
               f"rendered `{var['p']}` comes from {desc}: with_source attached" if passed else
               f"`{var['p']}` is rendered without with_source: it comes from {desc} - the diagnostic is printed as `<unknown>` without file name and source line", loc)
    chk.floor("R-C19-1", n_err, 4, "error rendering sites in mamba_to_python")
    # (source, path) pairs are attached by position: only lists that have one element per input file may be zipped with `source`.
    # The error half of a partition has one element per *failing* file, so zipping it with `source` pairs errors with the wrong file.
    err_halves = set()
    for n in walk(m2["body"]):
        if n.get("k") == "local" and n.get("init") is not None and ".partition(" in src(n["init"]) and n["pat"].get("k") in ("ptuple", "ptype"):
            tp = n["pat"]["p"] if n["pat"].get("k") == "ptype" else n["pat"]
            if tp.get("k") == "ptuple" and len(tp["elems"]) == 2:
                for p in walk(tp["elems"][1]):
                    if p.get("k") == "pident":
                        err_halves.add(p["name"])
    changed = True
    while changed:
        changed = False
        for n in walk(m2["body"]):
            if n.get("k") == "local" and n.get("init") is not None:
                root = _chain_root(n["init"])
                if root in err_halves:
                    for p in walk(n["pat"]):
                        if p.get("k") == "pident" and p["name"] not in err_halves:
                            err_halves.add(p["name"])
                            changed = True
    nz = 0
    for n in walk(m2["body"]):
        if n.get("k") == "mcall" and n["m"] == "zip" and n["args"] and src(strip(n["args"][0])) in ("source", "source.iter()"):
            nz += 1
            root = _chain_root(n["recv"])
            ok = root not in err_halves
            chk.ob("R-C19-1", f"zip-source:{root}", ok,
                   f"`{root}` (one element per input file) is zipped with `source`" if ok else
                   f"`{root}` holds only the failing files but is zipped with `source`, which holds every file: the i-th error gets the text and path of the i-th project file", loc)
    chk.floor("R-C19-1", nz, 1, "zips with the per-file source list")
    # the text that is attached is the text that was parsed: positions are counted in the parsed text, the quoted line is
    # looked up in the attached one.  (a) with_source gets `Some(<the binding that was parsed>)`, (b) nothing textual is
    # applied to that binding in mamba_to_python, (c) AST::from_str hands its input to the lexer as it is, and the lexer
    # iterates it as it is (shared with R-C18-5)
    text_names = set()
    parsed = [strip(n["recv"]) for n in walk(m2["body"]) if n.get("k") == "mcall" and n["m"] == "parse"]
    attached = []
    for n in walk(m2["body"]):
        if n.get("k") == "mcall" and n["m"] == "with_source" and n["args"]:
            a0 = strip(n["args"][0])
            inner = strip(a0["args"][0]) if a0.get("k") == "call" and src(a0["f"]) == "Some" and a0["args"] else a0
            attached.append(inner)
    okp = len(parsed) == 1 and parsed[0].get("k") == "path"
    chk.ob("R-C19-1", "same-text:parsed", okp, f"the text is parsed as it is (`{src(parsed[0])}.parse()`)" if okp else
           f"what is parsed is not the file's text itself (`{[src(x, -30)[:40] for x in parsed]}`): every position is counted in a text other than the one the quoted lines are taken from", loc)
    oka = bool(attached) and all(a.get("k") == "path" for a in attached) and (not okp or parsed[0]["p"] in {a["p"] for a in attached if a.get("k") == "path"})
    chk.ob("R-C19-1", "same-text:attached", oka, f"with_source attaches the same binding ({sorted({src(a) for a in attached})})" if oka else
           f"with_source attaches `{sorted({src(a, -30)[:40] for a in attached})}`, not the text that was parsed / checked", loc)
    text_names = {a["p"] for a in attached if a.get("k") == "path"} | ({parsed[0]["p"]} if okp else set())
    tr = [src(n, -30)[:50] for n in walk(m2["body"]) if n.get("k") == "mcall" and n["m"] in TEXT_TRANSFORMS and strip(n["recv"]).get("k") == "path" and strip(n["recv"])["p"] in text_names]
    rb = [src(n, -30)[:50] for n in walk(m2["body"]) if n.get("k") == "local" and n.get("init") is not None and
          [p_["name"] for p_ in walk(n["pat"]) if p_.get("k") == "pident"] in [[t] for t in text_names] and src(strip(n["init"])) not in text_names]
    chk.ob("R-C19-1", "same-text:untransformed", not tr and not rb, "nothing textual is applied to the file's text in mamba_to_python" if not tr and not rb else
           f"the file's text is transformed ({tr + rb}) between reading and attaching", loc)
    try:
        fs = [f for f in syn.fns if f["name"] == "from_str" and f["mod"] == "parse" and "AST" in (f.get("impl_of") or "")]
        if len(fs) != 1:
            raise AnchorError(f"expected one AST::from_str, found {len(fs)}")
        pin = fs[0]["sig"]["inputs"][0]["pat"].get("name", "input")
        reached_, bad_ = text_as_is(syn, fs[0], pin)
        okf = not bad_ and len(reached_) == 1
        chk.ob("R-C19-1", "same-text:from_str->lexer", okf, f"AST::from_str lexes its input as it is ({reached_[0]})" if okf else
               f"AST::from_str does not lex its input as it is ({'; '.join(bad_) if bad_ else f'chars() reached {len(reached_)} times'})", facts.loc_of(fs[0]))
    except AnchorError as e:
        chk.anchor_fail("R-C19-1", e)
    # MIR cross-check per error type
    disp = {t: 0 for t in ERR_TYPES}
    wsrc = {t: 0 for t in ERR_TYPES}
    for b in mir.fns.values():
        if not (b.path == "mamba_to_python" or b.parent == "mamba_to_python"):
            continue
        for bb, t in b.calls():
            if t.callee.endswith("Argument::<'_>::new_display"):
                for et in ERR_TYPES:
                    if et in t.gargs:
                        disp[et] += 1
            if t.callee.endswith("WithSource>::with_source"):
                for et in ERR_TYPES:
                    if et in t.callee:
                        wsrc[et] += 1
    chk.sample({"rule": "R-C19-1", "display_sites": disp, "with_source_sites": wsrc})

    # ---------------- R-C19-2 ----------------
    n_sites = 0
    n_lit = 0
    for fn in syn.fns:
        if not fn.get("body") or fn.get("derived"):
            continue
        if not (fn["mod"].startswith("check") or fn["mod"].startswith("parse") or fn["mod"].startswith("generate") or fn["mod"] == ""):
            continue
        ret = fn["sig"]["ret"].replace(" ", "")
        if not any(x in ret for x in ("TypeResult", "Constrained", "Unified", "Vec<TypeErr>", "Vec<String>", "Result<Self,Self::Error>", "Result<Self,Vec<")):
            continue
        fpm = None
        from .common import inline_lets
        body_i = inline_lets(fn["body"])     # `let msg = helper(..); Err(msg)` is `Err(helper(..))`
        for n in walk(body_i):
            if n.get("k") == "call" and n["f"].get("k") == "path" and n["f"]["p"] == "Err" and len(n["args"]) == 1:
                a = strip(n["args"][0])
                kind, why = _nonempty(fn, n, a)
                if kind == "skip":
                    continue
                n_sites += 1
                if kind == "literal":
                    n_lit += 1
                    continue
                if fpm is None:
                    fpm = parents_map(body_i)
                ok = kind in ("guarded", "propagated", "partition")
                if not ok:
                    ok, why = _guarded_by_nonempty(fpm, n, a)
                chk.ob("R-C19-2", f"{fn['qual']}|{src(a)[:50]}", ok,
                       f"{fn['qual']}: Err({src(a)[:50]}) - {why}" if ok else
                       f"{fn['qual']}: Err({src(a)[:70]}) may carry an empty vector ({why}): a rejection without any diagnostic", facts.loc_of(fn))
    chk.ob("R-C19-2", "literals", True, f"{n_lit} Err(vec![..]) sites with at least one element")
    chk.floor("R-C19-2", n_sites, 100, "Err(vector) construction sites")

    # ---------------- R-C19-3 ----------------
    table = load_table("panic_sites.json")
    reviewed = c03.reviewed_sites(mir, syn, table)
    cnt, loc3 = c03.census(mir, syn)
    # the rendering code: the renderers and every function of the crate they can reach
    cg = mir.callgraph()
    roots = [p for p in mir.fns if any(p.endswith(r) or r in p for r in RENDERERS)]
    reach, todo = set(roots), list(roots)
    while todo:
        x = todo.pop()
        for y in cg.get(x, ()):
            if y in mir.fns and y not in reach:
                reach.add(y)
                todo.append(y)
    from .common import owner_root
    reach_owners = {owner_root(mir, syn, p) for p in reach}
    n3 = 0
    for (fn, kind), n in sorted(cnt.items()):
        if fn not in reach_owners:
            continue
        n3 += 1
        r = reviewed.get((fn, kind))
        ok = r is not None and n <= r["count"] and r["disposition"] != "finding"
        chk.ob("R-C19-3", f"{fn}|{kind}", ok, f"{fn}: {n}x `{kind}` - " + (f"{r['disposition']}: {r['reason']}" if ok else "an unreviewed construct that can panic while a diagnostic is rendered"), loc3[(fn, kind)])
    chk.floor("R-C19-3", n3, 4, "panic obligations inside the renderers")
    c03._invariants(chk, facts)

    # ---------------- R-C19-4 ----------------
    try:
        fl = syn.one_fn("format_location", mod="common::result")
        locf = facts.loc_of(fl)
        body_s = src(fl["body"], -30).replace(" ", "")
        uses_lines = ".lines()" in body_s
        # the caret column: evaluated for pos = 1..4, offset = 0 (the indentation added to the fixed gutter is pos - 1)
        lets = {}
        for n in walk(fl["body"]):
            if n.get("k") == "local" and n.get("init") is not None and n["pat"].get("k") in ("pident", "ptype"):
                nm = [p["name"] for p in walk(n["pat"]) if p.get("k") == "pident"]
                if len(nm) == 1:
                    lets[nm[0]] = n["init"]
        carets = []
        for n in walk(fl["body"]):   # vec![b' '; n] (expanded: from_elem(b' ', n)), [b' '; n], " ".repeat(n)
            ln = None
            if n.get("k") == "repeat":
                ln = n["len"]
            elif n.get("k") == "call" and src(n["f"]).endswith("from_elem") and len(n["args"]) == 2:
                ln = n["args"][1]
            elif n.get("k") == "mcall" and n["m"] == "repeat" and len(n["args"]) == 1:
                ln = n["args"][0]
            if ln is not None and "pos.start.pos" in src(ln, -30):
                carets.append({"len": ln})
        caret = False
        cdesc = "no `[b' '; ..pos.start.pos..]` run of blanks before the carets"
        if len(carets) == 1:
            try:
                vals = [_ieval(carets[0]["len"], lets, {"pos.start.pos": c, "pos.start.line": 3, "offset": 0}) for c in (1, 2, 3, 7)]
                caret = vals == [0, 1, 2, 6]
                cdesc = f"columns 1, 2, 3, 7 are indented by {vals}"
            except _NoEval as ex:
                cdesc = f"the indentation `{src(carets[0]['len'], -30)}` could not be evaluated ({ex})"
        chk.ob("R-C19-4", "renderer:caret-col=pos-1", caret, "the caret is indented by `pos - 1` columns" if caret else f"the caret indentation is no longer `pos - 1`: {cdesc}", locf)
        # every quoted line: the 0-based index handed to nth() and the 1-based label printed next to the text are evaluated
        # for every reported line 1..6 (positions are 1-based, obligation caret:start below): the index is either out of
        # reach (>= 2^31: the line is never shown) or label - 1, and a label is never smaller than 1
        quoted = 0
        main_line = False
        # quote sites: `..lines()..nth(<index>)` followed by the rendering closure, written in format_location itself, or a call of a private
        # helper of the module that does the `lines().nth(<its parameter>)` and gets the rendering as a closure
        from .common import local_helpers
        sites = []      # (index expression, [label expressions])

        def labels_in(nodes):
            out_ = []
            for x in nodes:
                for m in walk(x):
                    if m.get("k") == "macro" and m.get("name", "").endswith("format_args") and "args" in m:
                        for a_ in m["args"][1:]:
                            if "pos." in src(a_, -30):
                                out_.append(a_)
            return out_
        for n in walk(fl["body"]):
            if n.get("k") == "mcall" and n["m"] in ("map_or", "map", "map_or_else", "and_then") and strip(n["recv"]).get("k") == "mcall" and strip(n["recv"])["m"] == "nth":
                if "lines" not in src(strip(n["recv"])["recv"], -30):
                    continue
                sites.append((strip(n["recv"])["args"][0], labels_in([n["args"][-1]])))
        helper_lines = False
        for h in local_helpers(syn, fl):
            hp = [i_["pat"].get("name") for i_ in h["sig"]["inputs"]]
            nths = [x for x in walk(h["body"]) if x.get("k") == "mcall" and x["m"] == "nth" and "lines" in src(x["recv"], -30) and x["args"] and src(strip(x["args"][0])) in hp]
            if len(nths) != 1:
                continue
            helper_lines = True
            ipos = hp.index(src(strip(nths[0]["args"][0])))
            for n in walk(fl["body"]):
                if n.get("k") == "call" and n["f"].get("k") == "path" and n["f"]["p"] == h["name"] and len(n["args"]) == len(hp):
                    sites.append((n["args"][ipos], labels_in([a_ for j_, a_ in enumerate(n["args"]) if j_ != ipos])))
        uses_lines = uses_lines or helper_lines
        for idx_e, label_es in sites:
            if True:
                quoted += 1
                bad = []
                shown = []
                try:
                    for L in range(1, 7):
                        env = {"pos.start.line": L, "pos.start.pos": 1, "offset": 0}
                        i = _ieval(idx_e, lets, env)
                        if i >= 2 ** 31:
                            continue
                        shown.append(L)
                        if len(label_es) != 1:
                            bad.append(f"line {L}: {len(label_es)} labels")
                            continue
                        lab = _ieval(label_es[0], lets, env)
                        if lab != i + 1 or lab < 1:
                            bad.append(f"reported line {L}: the text of line {i + 1} is labelled {lab}")
                    if shown and all(_ieval(idx_e, lets, {"pos.start.line": L, "pos.start.pos": 1, "offset": 0}) == L - 1 for L in range(1, 7)):
                        main_line = True
                except _NoEval as ex:
                    bad.append(f"`{src(idx_e, -30)}` / its label could not be evaluated ({ex})")
                chk.ob("R-C19-4", f"quoted-line{quoted}", not bad,
                       (f"quoted line {quoted}: for reported lines 1..6 the printed label is always the number of the printed line" if shown else
                        f"quoted line {quoted}: never shown (index out of reach for every line)") if not bad else
                       f"quoted line {quoted}: nth({src(idx_e, -30)}): " + "; ".join(bad[:3]) + ": the text that is printed is not the line whose number is printed next to it", locf)
        ok = uses_lines and main_line
        chk.ob("R-C19-4", "renderer:lines+nth(line-1)", ok, "the renderer quotes `source.lines().nth(line - 1)` for every reported line" if ok else
               f"the renderer no longer quotes lines().nth(line - 1) (lines={uses_lines}, a quoted line with index line-1 for all lines={main_line}): the quoted line is not the reported one", locf)
        chk.floor("R-C19-4", quoted, 3, "quoted source lines in format_location")
    except AnchorError as e:
        chk.anchor_fail("R-C19-4", e)
    try:
        it = syn.one_fn("into_tokens", mod="parse::lex::tokenize")
        loci = facts.loc_of(it)
        m = [n for n in walk(it["body"]) if n.get("k") == "match" and src(strip(n["e"])) == "c"]
        if not m:
            raise AnchorError("into_tokens: no `match c`")
        arms = {}
        for a in m[0]["arms"]:
            arms[src(a["pat"])] = a
        nl = arms.get("'\\n'")
        cr = arms.get("'\\r'")
        ok_nl = nl is not None and "Token::NL" in src(nl["body"])
        ok_cr = cr is not None and "Token::NL" in src(cr["body"]) and "'\\n'" in src(cr["body"])
        chk.ob("R-C19-4", "lexer:newline-at-LF-and-CRLF", ok_nl and ok_cr, "the lexer produces one NL for `\\n` and one for `\\r\\n` - the places where str::lines splits" if ok_nl and ok_cr else
               "the lexer's newline arms changed: its line numbers no longer agree with str::lines", loci)
        # a lone \\r is not a newline for str::lines: it must not produce NL either
        lone = cr is not None and ("Err(" in src(cr["body"]) or "LexErr" in src(cr["body"]))
        chk.ob("R-C19-4", "lexer:lone-CR-is-error", lone, "a carriage return that is not followed by a line feed is a lexical error (str::lines does not split there)" if lone else
               "a lone carriage return is accepted by the lexer: its line count can differ from str::lines", loci)
        st = syn.one_fn("newline", impl_of="CaretPos")
        ok = "self.line + 1" in src(st["body"]).replace("(", "").replace(")", "") and "pos: 1" in src(st["body"])
        chk.ob("R-C19-4", "caret:newline=line+1,col1", ok, "a newline moves the caret to (line + 1, 1)" if ok else "CaretPos::newline no longer yields (line + 1, 1)", facts.loc_of(st))
        cs = syn.one_fn("start", impl_of="CaretPos")
        ok = src(strip(cs["body"])).replace(" ", "") in ("{CaretPos::new(1,1)}", "CaretPos::new(1,1)")
        chk.ob("R-C19-4", "caret:start=(1,1)", ok, "positions are 1-based: CaretPos::start() = (1, 1)" if ok else f"CaretPos::start() is `{src(cs['body'])}`", facts.loc_of(cs))
    except AnchorError as e:
        chk.anchor_fail("R-C19-4", e)
    # the line a diagnostic names is the line the lexer counted: the two places where a token moves the caret to another line are
    # part of this property too (shared with R-C18-2 / R-C18-5: a token that spans lines ends on line + number of line breaks; interpolation offsets and nested errors)
    from . import c18
    n0 = len(chk.obligations)
    rules0 = dict(chk.rules)
    counts0 = dict(chk.counts)
    c18.run(chk, facts)
    keep = [o for o in chk.obligations[n0:] if o["key"] in ("R-C18-2|Token::end:line-breaks", "R-C18-2|Token::end:no-break", "R-C18-2|State::token:advance", "R-C18-2|Lex::new:end=token.end(start)", "R-C18-2|State::newline",
                                                             "R-C18-5|offset-recorded", "R-C18-5|error-offset-applied", "R-C18-5|offset-function", "R-C18-2|anchor", "R-C18-5|anchor")]
    chk.obligations = chk.obligations[:n0] + keep
    chk.rules = rules0
    chk.rules["R-C18-2"] = "line bookkeeping of the lexer (shared with C18): a token ends on line + number of its line breaks; a newline moves to the next line, column 1; interpolated text and its lexical errors are shifted by the recorded offset"
    chk.counts.clear()
    chk.counts.update(counts0)
    chk.counts["R-C18-2"] = len([o for o in keep if o["key"].startswith("R-C18-2")])
    chk.rules["R-C18-5"] = "interpolated text and the lexical errors inside it are shifted by the recorded offset, which is the position behind the opening brace (shared with C18)"
    chk.counts["R-C18-5"] = len([o for o in keep if o["key"].startswith("R-C18-5")])
    chk.notes = [n_ for n_ in chk.notes if not n_.startswith("C18")]
    chk.notes.append("C19: provenance of every rendered error; non-emptiness of every Err(vector); renderer obligations shared with the C03 census.")


class _NoEval(Exception):
    pass


def _ieval(e, lets, env, depth=0):
    """integer value of a small arithmetic expression (casts wrap like Rust's `as`); env: values of the free places"""
    if depth > 20:
        raise _NoEval("too deep")
    e = strip(e)
    k = e.get("k")
    t = src(e, -30).replace(" ", "")
    if t in env:
        return env[t]
    if k == "lit" and e["t"] == "int":
        return int(str(e["v"]).rstrip("iusze_0123456789") or 0) if not str(e["v"])[0].isdigit() else int(re.match(r"\d+", str(e["v"]).replace("_", "")).group(0))
    if k == "path":
        if e["p"] in ("usize::MAX", "u64::MAX", "std::usize::MAX"):
            return 2 ** 64 - 1
        if e["p"] in ("i32::MAX",):
            return 2 ** 31 - 1
        if e["p"] == "OFFSET_WIDTH":
            return 4
        if e["p"] in lets:
            return _ieval(lets[e["p"]], lets, env, depth + 1)
        raise _NoEval(f"free name {e['p']}")
    if k == "cast":
        v = _ieval(e["e"], lets, env, depth + 1)
        ty = e["ty"].replace(" ", "")
        if ty in ("usize", "u64"):
            return v % 2 ** 64
        if ty == "i32":
            v %= 2 ** 32
            return v - 2 ** 32 if v >= 2 ** 31 else v
        if ty in ("i64", "isize"):
            v %= 2 ** 64
            return v - 2 ** 64 if v >= 2 ** 63 else v
        if ty == "u32":
            return v % 2 ** 32
        raise _NoEval(f"cast to {ty}")
    if k == "binary" and e["op"] in ("+", "-", "*"):
        l, r = _ieval(e["l"], lets, env, depth + 1), _ieval(e["r"], lets, env, depth + 1)
        return l + r if e["op"] == "+" else (l - r if e["op"] == "-" else l * r)
    if k == "call" and src(e["f"]).split("::")[-1] in ("max", "min") and len(e["args"]) == 2:
        a, b = (_ieval(x, lets, env, depth + 1) for x in e["args"])
        return max(a, b) if src(e["f"]).endswith("max") else min(a, b)
    if k == "mcall" and len(e["args"]) == 1 and e["m"] in ("saturating_sub", "saturating_add", "max", "min", "wrapping_sub"):
        a, b = _ieval(e["recv"], lets, env, depth + 1), _ieval(e["args"][0], lets, env, depth + 1)
        return {"saturating_sub": max(a - b, 0), "saturating_add": a + b, "max": max(a, b), "min": min(a, b), "wrapping_sub": (a - b) % 2 ** 64}[e["m"]]
    if k == "if" and e.get("else") is not None:
        c = strip(e["c"])
        if c.get("k") == "binary" and c["op"] in ("<", "<=", ">", ">=", "==", "!="):
            l, r = _ieval(c["l"], lets, env, depth + 1), _ieval(c["r"], lets, env, depth + 1)
            t_ = {"<": l < r, "<=": l <= r, ">": l > r, ">=": l >= r, "==": l == r, "!=": l != r}[c["op"]]
            br = e["then"] if t_ else e["else"]
            br = strip(br)
            if br.get("k") == "block" and len(br["stmts"]) == 1:
                br = br["stmts"][0]
            return _ieval(br, lets, env, depth + 1)
    if k == "block" and len(e["stmts"]) == 1:
        return _ieval(e["stmts"][0], lets, env, depth + 1)
    raise _NoEval(f"`{src(e, -30)[:50]}`")


def _trace_binding(sc, pm, b, depth):
    """-> (origin kind, passed_with_source, description)"""
    if depth > 12:
        return "deep", False, "a chain too long to follow"
    if b.kind == "closure":
        # parameter of a closure: what is the closure applied to?
        cl, key = _enclosing(pm, b.node, "closure")
        if cl is None:
            return "param", False, f"closure parameter `{b.name}`"
        par, _ = pm.get(id(cl), (None, None))
        if par is not None and par.get("k") == "mcall":
            o, p, d = _trace_expr(sc, pm, par["recv"], depth + 1)
            return o, p, f"`{b.name}` of .{par['m']}(..) <- {d}"
        return "param", False, f"closure parameter `{b.name}`"
    if b.kind in ("let", "iflet", "arm", "for") and b.init is not None:
        o, p, d = _trace_expr(sc, pm, b.init, depth + 1)
        return o, p, f"`{b.name}` <- {d}"
    if b.kind == "param":
        return "not-an-error", True, f"parameter `{b.name}`"
    return "unknown", False, f"`{b.name}`"


def _trace_expr(sc, pm, e, depth):
    e0 = e
    e = strip(e)
    k = e.get("k")
    if k == "try":
        return _trace_expr(sc, pm, e["e"], depth)
    if k == "mcall":
        # does any step of this chain attach the source?
        cur = e
        steps = []
        while cur.get("k") == "mcall":
            steps.append(cur)
            cur = strip(cur["recv"])
        for s in steps:   # outermost first
            if s["m"] in ("map_err", "map") and s["args"]:
                a0 = strip(s["args"][0])
                if a0.get("k") == "closure" and ".with_source(" in src(a0["body"]):
                    return "chain", True, f"a chain that applies with_source in .{s['m']}(..)"
                if a0.get("k") == "closure":
                    prod = [n for n in walk(a0["body"]) if (n.get("k") == "mcall" and n["m"] == "parse") or
                            (n.get("k") == "call" and n["f"].get("k") == "path" and (n["f"]["p"] in ("check", "gen_arguments") or n["f"]["p"].endswith("::try_from")))]
                    if prod:
                        return "call", False, f"the result of `{src(prod[0])[:40]}` inside .{s['m']}(..), which attaches no source"
            if s["m"] in ("parse", "try_into", "try_from"):
                # the step that produces the error: nothing outside it attached the source
                return "call", False, f"the result of `.{s['m']}(..)`"
        return _trace_expr(sc, pm, cur, depth + 1)
    if k == "path":
        b = sc.resolve(e)
        if b is None:
            return "not-an-error", True, e["p"]
        return _trace_binding(sc, pm, b, depth + 1)
    if k == "call":
        f = src(e["f"])
        if f in ("check", "gen_arguments") or "::try_from" in f or "parse" in f:
            return "call", False, f"the result of `{f}(..)`"
        return "not-an-error", True, f"{f}(..)"
    if k == "closure":
        return _trace_expr(sc, pm, e["body"], depth + 1)
    if k == "macro":
        return "not-an-error", True, "formatted text"
    return "not-an-error", True, src(e)[:40]


def _chain_root(e):
    cur = strip(e)
    while cur.get("k") in ("mcall", "try", "field"):
        cur = strip(cur["recv"] if cur.get("k") == "mcall" else (cur["e"] if cur.get("k") == "try" else cur["base"]))
    return cur["p"] if cur.get("k") == "path" else src(cur)[:30]


def _enclosing(pm, node, kind):
    cur = node
    while True:
        par, key = pm.get(id(cur), (None, None))
        if par is None:
            return None, None
        if par.get("k") == kind:
            return par, key
        cur = par


def _vec_literal_len(a):
    """number of elements of a `vec![..]` expansion, or None"""
    s = src(a)
    if "box_assume_init_into_vec_unsafe" in s or "into_vec" in s:
        for n in walk(a):
            if n.get("k") == "array":
                return len(n["elems"])
    if a.get("k") == "macro" and a.get("name") == "vec":
        return len(a.get("args", []))
    if s.startswith("::alloc::vec::Vec::new(") or s == "Vec::new()":
        return 0
    return None


def _nonempty(fn, err_call, a):
    n = _vec_literal_len(a)
    if n is not None:
        return ("literal", f"{n} elements") if n >= 1 else ("empty", "an empty vector literal")
    k = a.get("k")
    s = src(a).replace(" ", "")
    if k == "call" and a["f"].get("k") == "path" and a["f"]["p"] in ("Box::from", "Box::new", "Self::Error::from", "String::from"):
        return "skip", ""
    if k in ("macro", "lit") or (k == "mcall" and a["m"] in ("to_string", "into", "clone") and "errs" not in s and "err" not in s.split(".")[0] + "x"):
        return "skip", ""
    if k == "path":
        nm = a["p"]
        if nm in ("err", "e", "error", "errs", "errors"):
            # a propagated error of an inner call / a vector guarded elsewhere: decided by the guard search
            return "var", f"variable `{nm}`"
        return "var", f"variable `{nm}`"
    if k == "mcall" and a["m"] == "collect":
        return "collected", "a collected iterator"
    if k == "mcall":
        return "collected", f".{a['m']}(..)"
    if k == "call":
        return "skip", ""
    return "skip", ""


def _guarded_by_nonempty(pm, err_call, a):
    """Err(x) sits in the then-branch of `if !y.is_empty()` / else-branch of `if y.is_empty()`, or x is the Err payload of a
    matched/propagated inner error, or x derives from the error half of a partition"""
    names = {n["p"] for n in walk(a) if n.get("k") == "path" and "::" not in n["p"]}
    cur = err_call
    while True:
        par, key = pm.get(id(cur), (None, None))
        if par is None:
            break
        if par.get("k") == "if":
            c = src(strip(par["c"])).replace(" ", "")
            m = re.fullmatch(r"!(\w+)\.is_empty\(\)", c)
            in_then = _contains(par["then"], err_call)
            if m and in_then:
                return True, f"inside `if !{m.group(1)}.is_empty()`"
            m = re.fullmatch(r"(\w+)\.is_empty\(\)", c)
            if m and par.get("else") is not None and _contains(par["else"], err_call):
                return True, f"in the else branch of `if {m.group(1)}.is_empty()`"
            if "letErr(" in c or "letSome(" in c:
                return True, "payload of a matched inner error"
        if par.get("k") == "match" or (par.get("k") is None and "pat" in par and "body" in par):
            # arm `Err(errs) => Err(..)`
            if "pat" in par and "Err(" in src(par["pat"]):
                return True, "re-wraps the payload of a matched inner error"
        if par.get("k") == "closure":
            gp, _ = pm.get(id(par), (None, None))
            if gp is not None and gp.get("k") == "mcall" and gp["m"] in ("map_err", "or_else", "unwrap_or_else"):
                return True, "maps the payload of an inner error"
        cur = par
    return False, "no `!is_empty()` guard, no inner error it derives from"


def _contains(tree, node):
    return any(n is node for n in walk(tree))
