"""C19 - diagnostics are well-formed and point into the offending file and line.

R-C19-1  (syntax, provenance) every error that `mamba_to_python` renders (`format!("{err}")`) has passed `with_source` with the
         (source, path) of the file it belongs to - traced from the rendered variable back through closures, lets and iterator
         chains to the call that produced the error. (MIR cross-check: for each error type, rendering sites vs with_source sites.)
R-C19-2  (syntax) at least one diagnostic: every `Err(..)` built in check:: / parse:: / generate:: from a vector is built from a
         provably non-empty one: a `vec![..]` literal with >= 1 element, a collection guarded by `!is_empty()`, the
         partition idiom, or a propagated error.
R-C19-3  (MIR) rendering cannot fail: the panic obligations inside the renderers (format_err, format_location, the Display impls of
         the error types) are all discharged or reviewed (shared census with C03, restricted to the rendering functions).
R-C19-4  (syntax) the quoted line is the reported line: the renderer splits the source with `str::lines` and indexes it with
         `line - 1`; the lexer starts at line 1 and counts a line exactly at `\\n` and at `\\r\\n` (one newline), which is what `lines`
         splits on; the caret column is `pos - 1` spaces.
"""
import re
from .common import walk, src, strip, AnchorError, Scopes, load_table, format_args_of
from .c11 import parents_map
from . import c03

ERR_TYPES = ["parse::result::ParseErr", "check::result::TypeErr", "generate::result::UnimplementedErr"]
RENDERERS = ["common::result::format_err", "common::result::format_location", "LexErr as std::fmt::Display>::fmt", "ParseErr as std::fmt::Display>::fmt",
             "TypeErr as std::fmt::Display>::fmt", "UnimplementedErr as std::fmt::Display>::fmt", "common::position::Position::get_width"]


def run(chk, facts):
    mir, syn = facts.mir, facts.syn
    chk.rule("R-C19-1", "every rendered error passed with_source(src, path) of its own file")
    chk.rule("R-C19-2", "every Err(vector) is built from a provably non-empty vector")
    chk.rule("R-C19-3", "the renderers' panic obligations are discharged or reviewed")
    chk.rule("R-C19-4", "renderer line splitting agrees with the lexer's line counting; indexes are line-1 / pos-1")

    # ---------------- R-C19-1 ----------------
    m2 = syn.one_fn("mamba_to_python")
    loc = facts.loc_of(m2)
    sc = Scopes(m2)
    pm = parents_map(m2["body"])
    renders = []
    for n in walk(m2["body"]):
        if n.get("k") == "macro" and n.get("name", "").endswith("format_args") and "args" in n:
            a = n["args"]
            if len(a) == 2 and a[0].get("k") == "lit" and a[0]["v"] in ("{0}", "{}") and strip(a[1]).get("k") == "path":
                renders.append((n, strip(a[1])))
    n_err = 0
    for mac, var in renders:
        b = sc.resolve(var)
        if b is None:
            continue
        origin, passed, desc = _trace_binding(sc, pm, b, 0)
        if origin == "not-an-error":
            continue
        n_err += 1
        key = desc.split(" <- ")[-1][:70]
        chk.ob("R-C19-1", f"render:{key}", passed,
               f"rendered `{var['p']}` comes from {desc}: with_source attached" if passed else
               f"`{var['p']}` is rendered without with_source: it comes from {desc} - the diagnostic is printed as `<unknown>` without file name and source line", loc)
    chk.floor("R-C19-1", n_err, 4, "error rendering sites in mamba_to_python")
    # (source, path) pairs are attached by position: only lists that have one element per input file may be zipped with `source`.
    # The error half of a partition has one element per *failing* file, so zipping it with `source` pairs errors with the wrong file.
    err_halves = set()
    for n in walk(m2["body"]):
        if n.get("k") == "local" and n.get("init") is not None and ".partition(" in src(n["init"]) and n["pat"].get("k") in ("ptuple", "ptype"):
            tp = n["pat"]["p"] if n["pat"].get("k") == "ptype" else n["pat"]
            if tp.get("k") == "ptuple" and len(tp["elems"]) == 2:
                for p in walk(tp["elems"][1]):
                    if p.get("k") == "pident":
                        err_halves.add(p["name"])
    changed = True
    while changed:
        changed = False
        for n in walk(m2["body"]):
            if n.get("k") == "local" and n.get("init") is not None:
                root = _chain_root(n["init"])
                if root in err_halves:
                    for p in walk(n["pat"]):
                        if p.get("k") == "pident" and p["name"] not in err_halves:
                            err_halves.add(p["name"])
                            changed = True
    nz = 0
    for n in walk(m2["body"]):
        if n.get("k") == "mcall" and n["m"] == "zip" and n["args"] and src(strip(n["args"][0])) in ("source", "source.iter()"):
            nz += 1
            root = _chain_root(n["recv"])
            ok = root not in err_halves
            chk.ob("R-C19-1", f"zip-source:{root}", ok,
                   f"`{root}` (one element per input file) is zipped with `source`" if ok else
                   f"`{root}` holds only the failing files but is zipped with `source`, which holds every file: the i-th error gets the text and path of the i-th project file", loc)
    chk.floor("R-C19-1", nz, 2, "zips with the per-file source list")
    # MIR cross-check per error type
    disp = {t: 0 for t in ERR_TYPES}
    wsrc = {t: 0 for t in ERR_TYPES}
    for b in mir.fns.values():
        if not (b.path == "mamba_to_python" or b.parent == "mamba_to_python"):
            continue
        for bb, t in b.calls():
            if t.callee.endswith("Argument::<'_>::new_display"):
                for et in ERR_TYPES:
                    if et in t.gargs:
                        disp[et] += 1
            if t.callee.endswith("WithSource>::with_source"):
                for et in ERR_TYPES:
                    if et in t.callee:
                        wsrc[et] += 1
    chk.sample({"rule": "R-C19-1", "display_sites": disp, "with_source_sites": wsrc})

    # ---------------- R-C19-2 ----------------
    n_sites = 0
    n_lit = 0
    for fn in syn.fns:
        if not fn.get("body") or fn.get("derived"):
            continue
        if not (fn["mod"].startswith("check") or fn["mod"].startswith("parse") or fn["mod"].startswith("generate") or fn["mod"] == ""):
            continue
        ret = fn["sig"]["ret"].replace(" ", "")
        if not any(x in ret for x in ("TypeResult", "Constrained", "Unified", "Vec<TypeErr>", "Vec<String>", "Result<Self,Self::Error>", "Result<Self,Vec<")):
            continue
        fpm = None
        from .common import inline_lets
        body_i = inline_lets(fn["body"])     # `let msg = helper(..); Err(msg)` is `Err(helper(..))`
        for n in walk(body_i):
            if n.get("k") == "call" and n["f"].get("k") == "path" and n["f"]["p"] == "Err" and len(n["args"]) == 1:
                a = strip(n["args"][0])
                kind, why = _nonempty(fn, n, a)
                if kind == "skip":
                    continue
                n_sites += 1
                if kind == "literal":
                    n_lit += 1
                    continue
                if fpm is None:
                    fpm = parents_map(body_i)
                ok = kind in ("guarded", "propagated", "partition")
                if not ok:
                    ok, why = _guarded_by_nonempty(fpm, n, a)
                chk.ob("R-C19-2", f"{fn['qual']}|{src(a)[:50]}", ok,
                       f"{fn['qual']}: Err({src(a)[:50]}) - {why}" if ok else
                       f"{fn['qual']}: Err({src(a)[:70]}) may carry an empty vector ({why}): a rejection without any diagnostic", facts.loc_of(fn))
    chk.ob("R-C19-2", "literals", True, f"{n_lit} Err(vec![..]) sites with at least one element")
    chk.floor("R-C19-2", n_sites, 100, "Err(vector) construction sites")

    # ---------------- R-C19-3 ----------------
    table = load_table("panic_sites.json")
    reviewed = {(r["fn"], r["kind"]): r for r in table["sites"]}
    cnt, loc3 = c03.census(mir)
    n3 = 0
    for (fn, kind), n in sorted(cnt.items()):
        if not any(fn.endswith(r) or r in fn for r in RENDERERS):
            continue
        n3 += 1
        r = reviewed.get((fn, kind))
        ok = r is not None and n <= r["count"] and r["disposition"] != "finding"
        chk.ob("R-C19-3", f"{fn}|{kind}", ok, f"{fn}: {n}x `{kind}` - " + (f"{r['disposition']}: {r['reason']}" if ok else "an unreviewed construct that can panic while a diagnostic is rendered"), loc3[(fn, kind)])
    chk.floor("R-C19-3", n3, 6, "panic obligations inside the renderers")
    c03._invariants(chk, facts)

    # ---------------- R-C19-4 ----------------
    try:
        fl = syn.one_fn("format_location", mod="common::result")
        locf = facts.loc_of(fl)
        body_s = src(fl["body"]).replace(" ", "")
        uses_lines = ".lines()" in body_s
        idx = re.findall(r"\.nth\(([a-z_]+)\)", body_s)
        lp = [n for n in walk(fl["body"]) if n.get("k") == "local" and [p["name"] for p in walk(n["pat"]) if p.get("k") == "pident"] == ["line_pos"]]
        lp_ok = len(lp) == 1 and "pos.start.lineasi32)-1" in src(lp[0]["init"]).replace(" ", "")
        ok = uses_lines and "line_pos" in idx and lp_ok
        chk.ob("R-C19-4", "renderer:lines+nth(line-1)", ok, "the renderer quotes `source.lines().nth(line - 1)`" if ok else
               f"the renderer no longer quotes lines().nth(line - 1) (lines={uses_lines}, nth over {idx}, line_pos ok={lp_ok}): the quoted line is not the reported one", locf)
        caret = "pos.start.pos)-1" in body_s or "pos.start.pos-1" in body_s
        chk.ob("R-C19-4", "renderer:caret-col=pos-1", caret, "the caret is indented by `pos - 1` columns" if caret else "the caret indentation is no longer `pos - 1`", locf)
        # the label of the quoted line is the reported line number
        # each quoted line: 0-based index handed to nth() must be (1-based label) - 1, both relative to pos.start.line
        lets = {}
        for n in walk(fl["body"]):
            if n.get("k") == "local" and n.get("init") is not None and n["pat"].get("k") in ("pident", "ptype"):
                nm = [p["name"] for p in walk(n["pat"]) if p.get("k") == "pident"]
                if len(nm) == 1:
                    lets[nm[0]] = n["init"]
        quoted = 0
        for n in walk(fl["body"]):
            if n.get("k") == "mcall" and n["m"] == "map_or" and strip(n["recv"]).get("k") == "mcall" and strip(n["recv"])["m"] == "nth":
                idx_e = strip(strip(n["recv"])["args"][0])
                idx = _affine(lets.get(src(idx_e), idx_e) if idx_e.get("k") == "path" else idx_e)
                labels = []
                for m in walk(n["args"][1]):
                    if m.get("k") == "macro" and m.get("name", "").endswith("format_args") and "args" in m:
                        for a in m["args"][1:]:
                            if "pos." in src(a):
                                labels.append(_affine(a))
                quoted += 1
                if idx == "never":
                    chk.ob("R-C19-4", f"quoted-line{quoted}", True, f"quoted line {quoted}: never shown (index usize::MAX)", locf)
                    continue
                ok = isinstance(idx, int) and len(labels) == 1 and isinstance(labels[0], int) and labels[0] == idx + 1
                chk.ob("R-C19-4", f"quoted-line{quoted}", ok,
                       f"quoted line {quoted}: text of line start{idx + 1:+d} is labelled start{labels[0]:+d}" if ok else
                       f"quoted line {quoted}: nth({src(idx_e)}) = {idx}, label {labels}: the text that is printed is not the line whose number is printed next to it", locf)
        chk.floor("R-C19-4", quoted, 3, "quoted source lines in format_location")
    except AnchorError as e:
        chk.anchor_fail("R-C19-4", e)
    try:
        it = syn.one_fn("into_tokens", mod="parse::lex::tokenize")
        loci = facts.loc_of(it)
        m = [n for n in walk(it["body"]) if n.get("k") == "match" and src(strip(n["e"])) == "c"]
        if not m:
            raise AnchorError("into_tokens: no `match c`")
        arms = {}
        for a in m[0]["arms"]:
            arms[src(a["pat"])] = a
        nl = arms.get("'\\n'")
        cr = arms.get("'\\r'")
        ok_nl = nl is not None and "Token::NL" in src(nl["body"])
        ok_cr = cr is not None and "Token::NL" in src(cr["body"]) and "'\\n'" in src(cr["body"])
        chk.ob("R-C19-4", "lexer:newline-at-LF-and-CRLF", ok_nl and ok_cr, "the lexer produces one NL for `\\n` and one for `\\r\\n` - the places where str::lines splits" if ok_nl and ok_cr else
               "the lexer's newline arms changed: its line numbers no longer agree with str::lines", loci)
        # a lone \\r is not a newline for str::lines: it must not produce NL either
        lone = cr is not None and ("Err(" in src(cr["body"]) or "LexErr" in src(cr["body"]))
        chk.ob("R-C19-4", "lexer:lone-CR-is-error", lone, "a carriage return that is not followed by a line feed is a lexical error (str::lines does not split there)" if lone else
               "a lone carriage return is accepted by the lexer: its line count can differ from str::lines", loci)
        st = syn.one_fn("newline", impl_of="CaretPos")
        ok = "self.line + 1" in src(st["body"]).replace("(", "").replace(")", "") and "pos: 1" in src(st["body"])
        chk.ob("R-C19-4", "caret:newline=line+1,col1", ok, "a newline moves the caret to (line + 1, 1)" if ok else "CaretPos::newline no longer yields (line + 1, 1)", facts.loc_of(st))
        cs = syn.one_fn("start", impl_of="CaretPos")
        ok = src(strip(cs["body"])).replace(" ", "") in ("{CaretPos::new(1,1)}", "CaretPos::new(1,1)")
        chk.ob("R-C19-4", "caret:start=(1,1)", ok, "positions are 1-based: CaretPos::start() = (1, 1)" if ok else f"CaretPos::start() is `{src(cs['body'])}`", facts.loc_of(cs))
    except AnchorError as e:
        chk.anchor_fail("R-C19-4", e)
    # the line a diagnostic names is the line the lexer counted: the two places where a token moves the caret to another line are
    # part of this property too (shared with R-C18-2: a string moves the line by lines().count().saturating_sub(1))
    from . import c18
    n0 = len(chk.obligations)
    rules0 = dict(chk.rules)
    counts0 = dict(chk.counts)
    c18.run(chk, facts)
    keep = [o for o in chk.obligations[n0:] if o["key"] in ("R-C18-2|State::token:lines", "R-C18-2|Lex::new:end=start+width", "R-C18-2|State::newline")]
    chk.obligations = chk.obligations[:n0] + keep
    chk.rules = rules0
    chk.rules["R-C18-2"] = "line bookkeeping of the lexer (shared with C18): strings move the line by lines().count().saturating_sub(1); a newline moves to the next line, column 1"
    chk.counts.clear()
    chk.counts.update(counts0)
    chk.counts["R-C18-2"] = len(keep)
    chk.notes = [n_ for n_ in chk.notes if not n_.startswith("C18")]
    chk.notes.append("C19: provenance of every rendered error; non-emptiness of every Err(vector); renderer obligations shared with the C03 census.")


def _affine(e):
    """`pos.start.line (as i32) +/- K` (optionally inside max(.., usize::MAX as i32) as usize) -> K ; 'never' ; 'unknown'"""
    t = src(strip(e)).replace(" ", "").replace("(", "").replace(")", "").replace("asi32", "").replace("asusize", "")
    if t in ("maxpos.start.line,usize::MAX",):
        return "never"
    m = re.fullmatch(r"max(pos\.start\.line(?:[-+]\d+)?),usize::MAX", t)
    if m:
        t = m.group(1)
    m = re.fullmatch(r"pos\.start\.line(?:([-+])(\d+))?", t)
    if m:
        return 0 if m.group(1) is None else (int(m.group(2)) if m.group(1) == "+" else -int(m.group(2)))
    return "unknown"


def _trace_binding(sc, pm, b, depth):
    """-> (origin kind, passed_with_source, description)"""
    if depth > 12:
        return "deep", False, "a chain too long to follow"
    if b.kind == "closure":
        # parameter of a closure: what is the closure applied to?
        cl, key = _enclosing(pm, b.node, "closure")
        if cl is None:
            return "param", False, f"closure parameter `{b.name}`"
        par, _ = pm.get(id(cl), (None, None))
        if par is not None and par.get("k") == "mcall":
            o, p, d = _trace_expr(sc, pm, par["recv"], depth + 1)
            return o, p, f"`{b.name}` of .{par['m']}(..) <- {d}"
        return "param", False, f"closure parameter `{b.name}`"
    if b.kind in ("let", "iflet", "arm", "for") and b.init is not None:
        o, p, d = _trace_expr(sc, pm, b.init, depth + 1)
        return o, p, f"`{b.name}` <- {d}"
    if b.kind == "param":
        return "not-an-error", True, f"parameter `{b.name}`"
    return "unknown", False, f"`{b.name}`"


def _trace_expr(sc, pm, e, depth):
    e0 = e
    e = strip(e)
    k = e.get("k")
    if k == "try":
        return _trace_expr(sc, pm, e["e"], depth)
    if k == "mcall":
        # does any step of this chain attach the source?
        cur = e
        steps = []
        while cur.get("k") == "mcall":
            steps.append(cur)
            cur = strip(cur["recv"])
        for s in steps:   # outermost first
            if s["m"] in ("map_err", "map") and s["args"]:
                a0 = strip(s["args"][0])
                if a0.get("k") == "closure" and ".with_source(" in src(a0["body"]):
                    return "chain", True, f"a chain that applies with_source in .{s['m']}(..)"
                if a0.get("k") == "closure":
                    prod = [n for n in walk(a0["body"]) if (n.get("k") == "mcall" and n["m"] == "parse") or
                            (n.get("k") == "call" and n["f"].get("k") == "path" and (n["f"]["p"] in ("check", "gen_arguments") or n["f"]["p"].endswith("::try_from")))]
                    if prod:
                        return "call", False, f"the result of `{src(prod[0])[:40]}` inside .{s['m']}(..), which attaches no source"
            if s["m"] in ("parse", "try_into", "try_from"):
                # the step that produces the error: nothing outside it attached the source
                return "call", False, f"the result of `.{s['m']}(..)`"
        return _trace_expr(sc, pm, cur, depth + 1)
    if k == "path":
        b = sc.resolve(e)
        if b is None:
            return "not-an-error", True, e["p"]
        return _trace_binding(sc, pm, b, depth + 1)
    if k == "call":
        f = src(e["f"])
        if f in ("check", "gen_arguments") or "::try_from" in f or "parse" in f:
            return "call", False, f"the result of `{f}(..)`"
        return "not-an-error", True, f"{f}(..)"
    if k == "closure":
        return _trace_expr(sc, pm, e["body"], depth + 1)
    if k == "macro":
        return "not-an-error", True, "formatted text"
    return "not-an-error", True, src(e)[:40]


def _chain_root(e):
    cur = strip(e)
    while cur.get("k") in ("mcall", "try", "field"):
        cur = strip(cur["recv"] if cur.get("k") == "mcall" else (cur["e"] if cur.get("k") == "try" else cur["base"]))
    return cur["p"] if cur.get("k") == "path" else src(cur)[:30]


def _enclosing(pm, node, kind):
    cur = node
    while True:
        par, key = pm.get(id(cur), (None, None))
        if par is None:
            return None, None
        if par.get("k") == kind:
            return par, key
        cur = par


def _vec_literal_len(a):
    """number of elements of a `vec![..]` expansion, or None"""
    s = src(a)
    if "box_assume_init_into_vec_unsafe" in s or "into_vec" in s:
        for n in walk(a):
            if n.get("k") == "array":
                return len(n["elems"])
    if a.get("k") == "macro" and a.get("name") == "vec":
        return len(a.get("args", []))
    if s.startswith("::alloc::vec::Vec::new(") or s == "Vec::new()":
        return 0
    return None


def _nonempty(fn, err_call, a):
    n = _vec_literal_len(a)
    if n is not None:
        return ("literal", f"{n} elements") if n >= 1 else ("empty", "an empty vector literal")
    k = a.get("k")
    s = src(a).replace(" ", "")
    if k == "call" and a["f"].get("k") == "path" and a["f"]["p"] in ("Box::from", "Box::new", "Self::Error::from", "String::from"):
        return "skip", ""
    if k in ("macro", "lit") or (k == "mcall" and a["m"] in ("to_string", "into", "clone") and "errs" not in s and "err" not in s.split(".")[0] + "x"):
        return "skip", ""
    if k == "path":
        nm = a["p"]
        if nm in ("err", "e", "error", "errs", "errors"):
            # a propagated error of an inner call / a vector guarded elsewhere: decided by the guard search
            return "var", f"variable `{nm}`"
        return "var", f"variable `{nm}`"
    if k == "mcall" and a["m"] == "collect":
        return "collected", "a collected iterator"
    if k == "mcall":
        return "collected", f".{a['m']}(..)"
    if k == "call":
        return "skip", ""
    return "skip", ""


def _guarded_by_nonempty(pm, err_call, a):
    """Err(x) sits in the then-branch of `if !y.is_empty()` / else-branch of `if y.is_empty()`, or x is the Err payload of a
    matched/propagated inner error, or x derives from the error half of a partition"""
    names = {n["p"] for n in walk(a) if n.get("k") == "path" and "::" not in n["p"]}
    cur = err_call
    while True:
        par, key = pm.get(id(cur), (None, None))
        if par is None:
            break
        if par.get("k") == "if":
            c = src(strip(par["c"])).replace(" ", "")
            m = re.fullmatch(r"!(\w+)\.is_empty\(\)", c)
            in_then = _contains(par["then"], err_call)
            if m and in_then:
                return True, f"inside `if !{m.group(1)}.is_empty()`"
            m = re.fullmatch(r"(\w+)\.is_empty\(\)", c)
            if m and par.get("else") is not None and _contains(par["else"], err_call):
                return True, f"in the else branch of `if {m.group(1)}.is_empty()`"
            if "letErr(" in c or "letSome(" in c:
                return True, "payload of a matched inner error"
        if par.get("k") == "match" or (par.get("k") is None and "pat" in par and "body" in par):
            # arm `Err(errs) => Err(..)`
            if "pat" in par and "Err(" in src(par["pat"]):
                return True, "re-wraps the payload of a matched inner error"
        if par.get("k") == "closure":
            gp, _ = pm.get(id(par), (None, None))
            if gp is not None and gp.get("k") == "mcall" and gp["m"] in ("map_err", "or_else", "unwrap_or_else"):
                return True, "maps the payload of an inner error"
        cur = par
    return False, "no `!is_empty()` guard, no inner error it derives from"


def _contains(tree, node):
    return any(n is node for n in walk(tree))
