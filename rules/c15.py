"""C15 - renaming user identifiers commutes with transpilation.

R-C15-1  (syntax, census) no undocumented special names: every string (literal or constant) that check:: or generate:: compares
         with, matches against or looks up as an identifier is in tables/special_names.json = the documented set (self, init, print,
         None/True/False, the built-in type names and their Python counterparts, operator method names, stub-parsing names).
         A new literal (the historical `"size"`) is reported.
R-C15-2  (lexer model) internal names cannot collide: identifiers are `[A-Za-z_][A-Za-z0-9_]*`; the marker of temporary and
         shadowed names (`@`) is not accepted by any lexer arm.
R-C15-3  (tables) every keyword of the lexer is documented in docs/spec/keywords.md.
R-C15-4  (syntax) user definitions shadow built-ins: in the checker's call resolution a variable of the environment is tried before
         the global context (which always contains the bundled stubs), so naming a callable like a stub function does not change
         the verdict.
R-C15-5  (syntax) identifiers are compared structurally, never through their printed text: generate::convert does not decide
         anything by substring / prefix matching on rendered code.
"""
import re
import os
from collections import Counter
from .common import walk, src, strip, AnchorError, load_table, REPO
from .c11 import parents_map
from .lexer import LexerModel
from .c08 import _arm


def run(chk, facts):
    syn = facts.syn
    chk.rule("R-C15-1", "strings compared with identifiers are the documented special names")
    chk.rule("R-C15-2", "identifier charset excludes the internal marker `@`")
    chk.rule("R-C15-3", "lexer keywords are documented")
    chk.rule("R-C15-4", "environment variables are resolved before context functions in call resolution")
    chk.rule("R-C15-5", "no textual (substring/prefix) matching on rendered identifiers in generate::convert")
    table = load_table("special_names.json")
    allowed = {}
    for cat, names in table["allowed"].items():
        for n in names:
            allowed[n] = cat
    consts = {}
    for name, c in syn.consts.items():
        e = c["e"]
        if e.get("k") == "lit" and e.get("t") in ("str", "char"):
            consts[name] = e["v"]

    def resolve_const(path, mod):
        last = path.split("::")[-1]
        cands = []
        if "::" in path:
            # qualified: try suffix match on the const's full name
            cands = [k for k in consts if k.endswith("::" + path) or k.endswith(path)]
        if not cands:
            # unqualified: prefer a const of the same module tree, else any unique one
            same = [k for k in consts if k.endswith("::" + last) and k.rsplit("::", 1)[0] and mod.startswith(k.rsplit("::", 1)[0].rsplit("::", 1)[0])]
            cands = same or [k for k in consts if k.endswith("::" + last)]
        vals = {consts[k] for k in cands}
        return vals

    # ---------------- R-C15-1 ----------------
    found = {}   # value -> set of fn
    for fn in syn.fns:
        if not fn.get("body") or fn.get("derived"):
            continue
        if not (fn["mod"].startswith("check") or fn["mod"].startswith("generate")):
            continue
        for n in walk(fn["body"]):
            vals = set()
            if n.get("k") == "plit" and n["e"].get("t") == "str":
                vals.add(n["e"]["v"])
            elif n.get("k") in ("ppath", "pident") and _is_const_name(src(n)):
                vals |= resolve_const(src(n), fn["mod"])
            elif n.get("k") == "binary" and n["op"] in ("==", "!="):
                for side in (n["l"], n["r"]):
                    s = strip(side)
                    if s.get("k") == "lit" and s.get("t") == "str":
                        vals.add(s["v"])
                    elif s.get("k") == "path" and _is_const_name(s["p"]):
                        vals |= resolve_const(s["p"], fn["mod"])
                    elif s.get("k") == "call" and s["f"].get("k") == "path" and s["f"]["p"].endswith("::from") and len(s["args"]) == 1:
                        a = strip(s["args"][0])
                        if a.get("k") == "lit" and a.get("t") == "str":
                            vals.add(a["v"])
                        elif a.get("k") == "path" and _is_const_name(a["p"]):
                            vals |= resolve_const(a["p"], fn["mod"])
            elif n.get("k") == "mcall" and n["m"] == "contains" and strip(n["recv"]).get("k") == "path" and _is_const_name(strip(n["recv"])["p"]):
                # `FROM_TYPING.contains(&name)`: a name is compared with every element of a constant table
                cname = strip(n["recv"])["p"].split("::")[-1]
                for key_, c_ in syn.consts.items():
                    if key_.split("::")[-1] == cname and c_["e"].get("k") == "array" and (key_.startswith(fn["mod"].split("::")[0]) or "::" not in key_):
                        for el in c_["e"]["elems"]:
                            el = strip(el)
                            if el.get("k") == "lit" and el.get("t") == "str":
                                vals.add(el["v"])
                            elif el.get("k") == "path" and _is_const_name(el["p"]):
                                vals |= resolve_const(el["p"], c_.get("mod", fn["mod"]))
            elif n.get("k") == "mcall" and n["m"] in ("starts_with", "ends_with", "contains") and n["args"]:
                a = strip(n["args"][0])
                if a.get("k") == "lit" and a.get("t") in ("str", "char"):
                    vals.add(a["v"])
                elif a.get("k") == "path" and _is_const_name(a["p"]):
                    vals |= resolve_const(a["p"], fn["mod"])
            for v in vals:
                found.setdefault(v, set()).add(fn["qual"])
    for v, fns in sorted(found.items()):
        ok = v in allowed
        if not ok and v and any(not (ch.isalnum() or ch == "_") for ch in v):
            # no identifier is equal to, starts or ends with, or contains a spelling with a character that identifiers cannot have
            chk.ob("R-C15-1", f"name:{v}", True, f"`{v}` (in {sorted(fns)[:2]}) has a character no identifier can contain: it cannot coincide with a user-chosen name", None)
            continue
        chk.ob("R-C15-1", f"name:{v}", ok,
               f"`{v}` is special-cased in {sorted(fns)[:3]}: {allowed[v]}" if ok else
               f"`{v}` is compared with identifiers in {sorted(fns)[:3]} but is not a documented special name: a user who happens to choose it gets a different treatment", None)
    chk.floor("R-C15-1", len(found), 40, "strings compared with identifiers")

    # ---------------- R-C15-2 ----------------
    lm = LexerModel(facts)
    loc = facts.loc_of(lm.fn)
    id_arm = None
    for firsts_, arm in lm.arms:
        if "id_or_operation" in src(arm["body"]):
            id_arm = (firsts_, arm)
    if id_arm is None:
        chk.anchor_fail("R-C15-2", "identifier arm not found")
    else:
        start = {x if isinstance(x, str) else x[1].replace(" ", "") for x in id_arm[0]}
        ok = start == {"'a'..='z'", "'A'..='Z'", "_"}
        cont = None
        for n in walk(id_arm[1]["body"]):
            if n.get("k") == "match":
                for a in n["arms"]:
                    if "push" in src(a["body"]):
                        cont = src(a["pat"]).replace(" ", "")
        ok2 = cont is not None and set(cont.split("|")) == {"'a'..='z'", "'A'..='Z'", "'_'", "'0'..='9'"}
        chk.ob("R-C15-2", "identifier-charset", ok and ok2, "identifiers are [A-Za-z_][A-Za-z0-9_]*" if ok and ok2 else f"identifier charset is `{sorted(start)}` then `{cont}`", loc)
    temp = consts.get("check::name::TEMP")
    firsts = set()
    for f_, a in lm.arms:
        for x in f_:
            if isinstance(x, str):
                firsts.add(x)
    ok = temp is not None and temp not in firsts and not (temp.isalnum() or temp == "_")
    chk.ob("R-C15-2", "marker-not-lexable", ok, f"the internal marker `{temp}` (temporary names, shadowing index) cannot appear in a user identifier" if ok else
           f"the internal marker `{temp}` is accepted by the lexer: a user name can collide with a generated one", loc)

    # ---------------- R-C15-3 ----------------
    doc = open(os.path.join(REPO, "docs/spec/keywords.md"), encoding="utf-8").read()
    documented = set(re.findall(r"^`([^`]+)`\s*\|", doc, flags=re.M))
    extra_ok = set(table["undocumented_keywords_reviewed"])
    n_kw = 0
    for kw in sorted(lm.keywords):
        n_kw += 1
        ok = kw in documented or kw in extra_ok
        chk.ob("R-C15-3", f"keyword:{kw}", ok, f"keyword `{kw}` is documented" + (" (reviewed)" if kw in extra_ok and kw not in documented else "") if ok else
               f"`{kw}` is a keyword of the lexer but docs/spec/keywords.md does not list it: a user cannot know that this identifier is taken", loc)
    chk.floor("R-C15-3", n_kw, 35, "lexer keywords")
    # words the lexer refuses as names (reserved for the target language) must be documented as well
    try:
        from .c02 import rejected_words
        rej, _tk = rejected_words(facts)
        doc_words = set(re.findall(r"`([A-Za-z_]+)`", doc))
        for w in sorted(rej):
            ok = w in doc_words
            chk.ob("R-C15-3", f"reserved:{w}", ok, f"reserved word `{w}` is documented" if ok else
                   f"the lexer refuses `{w}` as a name but docs/spec/keywords.md does not mention it", loc)
    except AnchorError as e:
        chk.anchor_fail("R-C15-3", e)

    # ---------------- R-C15-4 ----------------
    try:
        gc = syn.one_fn("gen_call", mod="check::constrain::generate::call")
        arm = _arm(gc, "Node::FunctionCall")
        order = {id(n): i for i, n in enumerate(walk(arm["body"]))}
        getvar = [n for n in walk(arm["body"]) if n.get("k") == "mcall" and n["m"] == "get_var"]
        ctxfun = [n for n in walk(arm["body"]) if n.get("k") == "mcall" and n["m"] == "function" and src(strip(n["recv"])) == "ctx"]
        pm = parents_map(arm["body"])
        ok = len(getvar) == 1 and len(ctxfun) == 1 and order[id(getvar[0])] < order[id(ctxfun[0])]
        # the context lookup sits in the else-branch of the variable test
        in_else = False
        if ok:
            cur = ctxfun[0]
            while True:
                par, key = pm.get(id(cur), (None, None))
                if par is None:
                    break
                if par.get("k") == "if" and key == "else" and "get_var" in src(par["c"]):
                    in_else = True
                cur = par
        chk.ob("R-C15-4", "call-resolution-order", ok and in_else,
               "a call is resolved as print, then as a variable of the environment, and only then in the global context" if ok and in_else else
               "gen_call no longer tries the environment before the global context: a parameter or variable named like a built-in stub (input, range ..) is checked against the stub's signature", facts.loc_of(gc))
    except AnchorError as e:
        chk.anchor_fail("R-C15-4", e)

    # ---------------- R-C15-5 ----------------
    n_conv = 0
    for fn in syn.fns:
        if not fn["mod"].startswith("generate::convert") or not fn.get("body") or fn.get("derived") or fn["mod"].endswith("::state"):
            continue
        n_conv += 1
        lit_only = _literal_only_helper(syn, fn)
        if lit_only:
            chk.ob("R-C15-5", f"{fn['qual']}|literal-text", True, f"{fn['qual']} works on the text of literals only ({lit_only}): not identifiers")
            continue
        for n in walk(fn["body"]):
            if n.get("k") == "mcall" and n["m"] in ("starts_with", "ends_with", "find", "matches", "rfind", "split", "trim", "trim_start_matches", "trim_end_matches", "replace", "to_lowercase", "to_uppercase", "eq_ignore_ascii_case"):
                recv = src(strip(n["recv"]))
                if n["m"] == "find" and ".iter()" in src(n["recv"]):
                    continue
                chk.ob("R-C15-5", f"{fn['qual']}|{n['m']}", False,
                       f"{fn['qual']} decides something by `.{n['m']}(..)` on text (`{src(n)[:70]}`): identifiers must be compared structurally, a name that happens to be a substring of another changes the output", facts.loc_of(fn))
            if n.get("k") == "mcall" and n["m"] == "contains" and n["args"]:
                # Vec::contains(&core) is structural; String::contains(text) is textual: the receiver was rendered
                r = src(n["recv"])
                if "to_string()" in r or "format" in r or _is_rendered_local(fn, n):
                    chk.ob("R-C15-5", f"{fn['qual']}|contains", False,
                           f"{fn['qual']} tests `{src(n)[:80]}` on rendered text: a name that is a substring of another expression is treated as if it occurred in it", facts.loc_of(fn))
    chk.ob("R-C15-5", "scan", True, f"{n_conv} functions of generate::convert scanned for textual matching")
    chk.floor("R-C15-5", n_conv, 15, "functions of generate::convert")
    # ---------------- R-C15-6 ----------------
    # names are compared as wholes: every *textual* operation (prefix / suffix / trimming / splitting / replacing / case folding) in the
    # checker and the generator is reviewed - none of them may be applied to a user-chosen name. (`retain(|name, _| !name.starts_with(var))`
    # removes `log_level` together with `log`.)
    chk.rule("R-C15-6", "textual operations in check:: and generate:: are the reviewed ones; none works on user-chosen names")
    TEXT_OPS = {"starts_with", "ends_with", "matches", "rfind", "split", "rsplit", "split_once", "trim", "trim_start_matches", "trim_end_matches", "trim_matches",
                "strip_prefix", "strip_suffix", "replace", "replacen", "to_lowercase", "to_uppercase", "eq_ignore_ascii_case", "to_ascii_lowercase",
                "to_ascii_uppercase", "char_indices", "chars", "bytes", "as_bytes", "find", "contains"}
    REVIEWED_TEXT = {
        ("check::constrain::generate::collection::gen_builder", "strip_prefix"): (1, "slice operation on a list of AST nodes, not text"),
        ("generate::convert::builder::convert_builder", "strip_prefix"): (3, "slice operation on a list of AST nodes, not text"),
        ("check::constrain::generate::operation::gen_op", "starts_with"): (1, "sign of the exponent of a number lexeme"),
        ("check::context::arg::generic::GenericFunctionArg::try_from", "starts_with"): (1, "sign of the exponent of a number lexeme"),
        ("check::constrain::unify::finished::Finished::push_ty", "trim"): (1, "Name::trim - removes a *type* from a union, not characters"),
        ("check::name::string_name::StringName::trim", "trim"): (1, "Name::trim - removes a type from a union"),
        ("check::name::true_name::TrueName::trim", "trim"): (1, "Name::trim - removes a type from a union"),
        ("check::name::Name::trim", "trim"): (1, "Name::trim - removes a type from a union"),
        ("check::context::python::python_files", "replace"): (1, "CRLF -> LF in the text of a bundled stub file"),
        ("check::name::string_name::StringName::is_temp", "starts_with"): (1, "the `@` marker of generated temporary names: not lexable, so never in a user name (R-C15-2)"),
        ("check::name::string_name::StringName::temp_map", "starts_with"): (1, "the `@` marker of generated temporary names (R-C15-2)"),
        ("check::constrain::generate::operation::gen_op", "contains"): (1, "decimal point in the mantissa of a number lexeme"),
        ("check::context::arg::generic::GenericFunctionArg::try_from", "contains"): (1, "decimal point in the mantissa of a number lexeme"),
        ("generate::convert::convert_node", "contains"): (1, "decimal point in the mantissa of a number lexeme (ENum)"),
        ("generate::convert::single_line", "replace"): (2, "line breaks inside the text of a string literal"),
        ("generate::convert::without_leading_zeros", "strip_prefix"): (1, "sign of a digit string"),
        ("generate::convert::without_leading_zeros", "trim_start_matches"): (1, "leading zeros of a digit string"),
    }
    from .common import syn_owner, normalise_review
    REVIEWED_TEXT = normalise_review(syn, REVIEWED_TEXT)
    got_t = {}
    for fn in syn.fns:
        if not fn.get("body") or fn.get("derived") or "test" in fn["mod"] or not (fn["mod"].startswith("check") or fn["mod"].startswith("generate")):
            continue
        for n in walk(fn["body"]):
            if n.get("k") != "mcall" or n["m"] not in TEXT_OPS:
                continue
            if n["m"] in ("find", "contains"):
                # only the textual forms: a string / char pattern argument (iterator `find(|x| ..)` and `Vec::contains(&x)` are structural)
                a = strip(n["args"][0]) if n["args"] else {}
                if not (a.get("k") == "lit" and a.get("t") in ("str", "char")):
                    continue
            got_t[(syn_owner(syn, fn), n["m"])] = got_t.get((syn_owner(syn, fn), n["m"]), 0) + 1
    for k_, cnt in sorted(got_t.items()):
        rev = REVIEWED_TEXT.get(k_)
        ok = rev is not None and cnt <= rev[0]
        f_ = next((x for x in syn.fns if x["qual"] == k_[0]), None)
        chk.ob("R-C15-6", f"text-op:{k_[0]}|{k_[1]}", ok, f"{k_[0]}: .{k_[1]}(..) x{cnt} - reviewed: {rev[1]}" if ok else
               f"{k_[0]} applies `.{k_[1]}(..)` to text ({cnt} site(s), {rev[0] if rev else 0} reviewed): if that text is a user-chosen name, a name that merely begins / ends with "
               "or contains another one is treated as if it were that name", facts.loc_of(f_) if f_ else None)
    chk.floor("R-C15-6", len(got_t), 10, "textual operations in check:: / generate::")
    # ---------------- R-C15-7 ----------------
    # the order of what is emitted does not depend on how the user spelled a name: every ordering decision in the generator (sort, max/min,
    # ordered map / set, cmp) is found on MIR with the *type* of its key; a key type that can carry a name (String, str, StringName,
    # TrueName, Name, Core) must be reviewed below - benign when only generator-chosen names reach it, a finding otherwise
    chk.rule("R-C15-7", "ordering decisions in the generator do not look at user-chosen names (key types on MIR; name-carrying keys reviewed)")
    from .common import owner_root
    mir = facts.mir
    ORDER = re.compile(r"(Itertools::sorted(_by(_key)?|_unstable(_by(_key)?)?)?$|::sort(_unstable)?(_by(_key)?|_by_cached_key)?$|BTree(Map|Set)::<[^>]*>::(insert|entry)$|Iterator::(max|min)(_by(_key)?)?$|"
                       r"::cmp$|::partial_cmp$|::is_sorted)")
    NAMEY = re.compile(r"String\b|\bstr\b|StringName|TrueName|check::name::Name|node::Core\b|OsString|PathBuf")
    REVIEWED_ORDER = {
        ("generate::convert::state::Imports::add_from_import", "sorted_by_key"): ("benign", 1, "the names imported from one support module (`from typing import Optional, Union`): "
                                                                                  "all registrations pass literals of the generator (R-C16-1), never a user name"),
        ("generate::convert::state::Imports::add_from_import", "insert"): ("benign", 2, "ordered map keyed by the support module name (`typing`, `abc`): generator literals (R-C16-1)"),
        ("<check::name::Name as generate::name::ToPy>::to_py", "sorted"): ("finding", 1, "the members of a union are emitted in the order of their *names*: `Union[Abc, Zed]` becomes `Union[Zed, Zzz]` after "
                                                                           "renaming Abc to Zzz, where the renamed output of the original is `Union[Zzz, Zed]`"),
        ("<check::name::string_name::StringName as generate::name::ToPy>::to_py", "sorted"): ("finding", 1, "the members of a written `Union[..]` type are re-ordered by name before they are emitted"),
    }

    def split_top(s_):
        s_ = s_.strip()
        if s_.startswith("[") and s_.endswith("]"):
            s_ = s_[1:-1]
        out_, depth_, cur_ = [], 0, ""
        for ch in s_:
            if ch in "<([{":
                depth_ += 1
            elif ch in ">)]}":
                depth_ -= 1
            if ch == "," and depth_ == 0:
                out_.append(cur_.strip())
                cur_ = ""
            else:
                cur_ += ch
        if cur_.strip():
            out_.append(cur_.strip())
        return out_
    n_order = 0
    seen_order = Counter()
    loc_order = {}
    for b in mir.fns.values():
        if not b.file.startswith("src/generate/"):
            continue
        for bb, t in b.calls():
            m_ = ORDER.search(t.callee)
            if not m_:
                continue
            short = t.callee.split("::")[-1]
            ga = split_top(t.gargs or "")
            if short.endswith("_by_key") or short.endswith("_by_cached_key"):
                key_ty = ga[1] if len(ga) > 1 else "?"
            elif "BTree" in t.callee:
                key_ty = ga[0] if ga else "?"
            elif short in ("sorted", "sorted_unstable", "max", "min"):
                key_ty = b.locals[t.dst.local] if t.dst is not None and t.dst.local < len(b.locals) else "?"
            elif short in ("sort", "sort_unstable", "cmp", "partial_cmp", "is_sorted"):
                key_ty = t.argt[0] if t.argt else "?"
            else:
                key_ty = "comparator:" + (ga[-1] if ga else "?")
            n_order += 1
            owner = owner_root(mir, syn, b.path)
            namey = bool(NAMEY.search(key_ty)) or key_ty.startswith("comparator:") or key_ty == "?"
            if not namey:
                chk.ob("R-C15-7", f"order:{owner}|{short}|{n_order}", True, f"{owner}: {short} over a key of type `{key_ty[:60]}` - no name in it", f"{b.file}:{t.line}")
                continue
            seen_order[(owner, short)] += 1
            loc_order[(owner, short)] = (f"{b.file}:{t.line}", key_ty)
    for k_, cnt in sorted(seen_order.items()):
        rev = REVIEWED_ORDER.get(k_)
        loc_, kt = loc_order[k_]
        if rev is None or cnt > rev[1]:
            chk.ob("R-C15-7", f"order:{k_[0]}|{k_[1]}", False,
                   f"{k_[0]}: `{k_[1]}` orders by a key of type `{kt[:80]}` ({cnt} site(s), {rev[1] if rev else 0} reviewed): if a user-chosen name reaches that key, the order of the "
                   "emitted code depends on how the user spelled it (renaming a field or a method can move it)", loc_)
        elif rev[0] == "finding":
            chk.ob("R-C15-7", f"order:{k_[0]}|{k_[1]}", False, f"{k_[0]}: `{k_[1]}`: {rev[2]}", loc_)
        else:
            chk.ob("R-C15-7", f"order:{k_[0]}|{k_[1]}", True, f"{k_[0]}: `{k_[1]}` over `{kt[:50]}` - reviewed: {rev[2]}", loc_)
    chk.floor("R-C15-7", n_order, 4, "ordering decisions in the generator")
    chk.notes.append("C15: census of special strings against the documented table; lexer charset; call-resolution order.")


LITERAL_VARIANTS = ("Int", "Real", "ENum", "Str", "DocStr")


def _literal_only_helper(syn, fn):
    """a helper of generate::convert whose every call passes nothing but lexeme fields of literal nodes (NodeTy::Int { lit },
    ENum { num, exp }, Str { lit } ..): the text it inspects is a number or a string body, never an identifier.
    -> description of the call sites, or None"""
    if fn.get("impl_of"):
        return None
    sites = []
    for caller in syn.fns:
        if not caller["mod"].startswith("generate::convert") or not caller.get("body") or caller is fn:
            continue
        # arm-scoped bindings of literal lexeme fields
        for m in walk(caller["body"]):
            if m.get("k") != "match":
                continue
            for a in m["arms"]:
                bound = {}
                for p in walk(a["pat"]):
                    if p.get("k") == "pstruct" and p["p"].startswith("NodeTy::"):
                        v = p["p"].split("::")[1]
                        for fname, fp in p["fields"]:
                            for x in walk(fp):
                                if x.get("k") == "pident":
                                    bound[x["name"]] = v
                for c in walk(a["body"]):
                    if c.get("k") == "call" and c["f"].get("k") == "path" and c["f"]["p"].split("::")[-1] == fn["name"]:
                        ids = set()
                        for arg in c["args"]:
                            for x in walk(arg):
                                if x.get("k") == "path" and "::" not in x["p"]:
                                    ids.add(x["p"])
                        sites.append(all(bound.get(i) in LITERAL_VARIANTS for i in ids) and bool(ids))
    # calls outside any match arm (or from elsewhere) are not accepted
    total = 0
    for caller in syn.fns:
        if caller is fn or not caller.get("body"):
            continue
        for c in walk(caller["body"]):
            if c.get("k") == "call" and c["f"].get("k") == "path" and c["f"]["p"].split("::")[-1] == fn["name"]:
                total += 1
    if sites and all(sites) and total == len(sites):
        return f"{len(sites)} call site(s), all on lexeme fields of literal nodes"
    return None


def _is_const_name(p):
    last = p.split("::")[-1]
    return len(last) > 1 and last.upper() == last and re.fullmatch(r"[A-Z][A-Z0-9_]*", last) is not None


def _is_rendered_local(fn, n):
    """receiver (or the closure parameter it stands for) comes from a collection of `to_string()` / format! results"""
    r = strip(n["recv"])
    if r.get("k") != "path":
        return False
    name = r["p"]
    for m in walk(fn["body"]):
        if m.get("k") == "local" and m.get("init") is not None and ("to_string()" in src(m["init"]) or "format_args" in src(m["init"])):
            names = [p["name"] for p in walk(m["pat"]) if p.get("k") == "pident"]
            if name in names:
                return True
            # closure parameter iterating that local
            for c in walk(fn["body"]):
                if c.get("k") == "mcall" and c["args"] and strip(c["args"][0]).get("k") == "closure":
                    root = strip(c["recv"])
                    while root.get("k") == "mcall":
                        root = strip(root["recv"])
                    if root.get("k") == "path" and root["p"] in names:
                        ps = [p["name"] for q in strip(c["args"][0])["params"] for p in walk(q) if p.get("k") == "pident"]
                        if name in ps:
                            return True
    return False
