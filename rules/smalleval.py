"""A small evaluator for *decision functions*: functions whose result depends on a handful of enum-like / Option-like
inputs through `if`, `match` (with guards and bindings), comparisons and boolean connectives.

It does not run the program.  It folds the syntax tree of one function over a finite table of abstract inputs that the
rule supplies (every side x every chain level ..), so that a rule can state *which decision is taken for which inputs*
instead of matching the text of the function.  Anything outside the fragment raises NoEval: the rule then fails closed.

Values: Python ints / bools / strs; `None` is Rust's `None`; ("Some", v); ("tuple", [..]); a bare path that is not bound
(`Side::Right`, a constant) evaluates to the string of the path (or to the value the rule supplies in `consts`).
Calls are resolved through `funcs` (name -> Python callable over evaluated arguments)."""
from .common import strip, src


class NoEval(Exception):
    pass


class _Return(Exception):
    def __init__(self, v):
        self.v = v


class _Continue(Exception):
    pass


class _Break(Exception):
    pass


class Scope(dict):
    """variables of one lexical scope; lookups fall through to the enclosing scopes, assignments update the scope that defines the name"""

    def __init__(self, parent=None, init=None):
        super().__init__(init or {})
        self.parent = parent

    def __contains__(self, k):
        return dict.__contains__(self, k) or (self.parent is not None and k in self.parent)

    def __getitem__(self, k):
        if dict.__contains__(self, k):
            return dict.__getitem__(self, k)
        if self.parent is not None:
            return self.parent[k]
        raise KeyError(k)

    def get(self, k, d=None):
        return self[k] if k in self else d

    def assign(self, k, v):
        s_ = self
        while s_ is not None:
            if dict.__contains__(s_, k):
                dict.__setitem__(s_, k, v)
                return True
            s_ = s_.parent if isinstance(s_, Scope) else None
        return False


def _child(env):
    return Scope(env) if isinstance(env, Scope) else Scope(None, env)


class SmallEval:
    def __init__(self, funcs=None, consts=None, methods=None, local_fns=None):
        self.funcs = funcs or {}
        self.consts = consts or {}
        self.methods = methods or {}
        self.local_fns = local_fns      # name -> syntactic fn node: private helpers that may be folded as well
        self.local_methods = {}         # name -> syntactic fn node with a `self` receiver (set by the rule)
        self.const_nodes = {}           # name -> expression node of a const item (evaluated on demand)
        self._depth = 0
        self.cov = set()                # (id(node), outcome): branches taken so far, over all folds of this evaluator
        self.entered = {}               # id(fn node) -> fn node: every function whose body was evaluated

    # ---- entry ----
    def call(self, fn, args):
        """evaluate the body of syntactic fn node with positional argument values"""
        names = []
        for inp in fn["sig"]["inputs"]:
            pat = inp.get("pat") or {}
            if pat.get("k") != "pident":
                raise NoEval(f"parameter pattern `{src(pat)}`")
            names.append(pat["name"])
        if len(names) != len(args):
            raise NoEval("arity")
        env = Scope(None, dict(zip(names, args)))
        self.entered[id(fn)] = fn
        try:
            v = self.ev(fn["body"], env)
        except _Return as r:
            return r.v
        if "Result" in str(fn["sig"].get("ret", "")):
            v = self._collected(v)
        return v

    @staticmethod
    def _collected(v):
        """a list of Results where the types demand a Result (`?` applied to it, or the value a Result-returning function ends with) was
        collected into `Result<Vec<_>, _>`: the first error, else the list of the payloads"""
        if isinstance(v, tuple) and len(v) == 2 and v[0] == "list" and all(isinstance(x, tuple) and len(x) == 2 and x[0] in ("Ok", "Err") for x in v[1]):
            for x in v[1]:
                if x[0] == "Err":
                    return x
            return ("Ok", ("list", [x[1] for x in v[1]]))
        return v

    # ---- expressions ----
    def ev(self, e, env):
        if e is None:
            return ("unit",)
        k = e.get("k")
        if k == "block":
            env = _child(env)
            last = ("unit",)
            for i, s in enumerate(e["stmts"]):
                sk = s.get("k")
                if sk == "local":
                    if s.get("init") is None:
                        raise NoEval("let without initialiser")
                    v = self.ev(s["init"], env)
                    if not self.bind(s["pat"], v, env):
                        raise NoEval(f"refutable let `{src(s['pat'])}`")
                    last = ("unit",)
                elif sk == "expr":
                    v = self.ev(s["e"], env)
                    last = ("unit",) if s.get("semi") else v
                else:
                    raise NoEval(f"statement {sk}")
            return last
        if k == "expr":
            return self.ev(e["e"], env)
        if k in ("ref",):
            return self.ev(e["e"], env)
        if k == "unary":
            v = self.ev(e["e"], env)
            if e["op"] == "*":
                return v
            if e["op"] == "!":
                if not isinstance(v, bool):
                    raise NoEval("! on a non-boolean")
                return not v
            if e["op"] == "-" and isinstance(v, int):
                return -v
            raise NoEval(f"unary {e['op']}")
        if k == "lit":
            if e["t"] == "int":
                import re
                m = re.match(r"\d+", str(e["v"]).replace("_", ""))
                if not m:
                    raise NoEval("int literal")
                return int(m.group(0))
            return e["v"]
        if k == "path":
            p = e["p"]
            if p in env:
                return env[p]
            if p in self.consts:
                return self.consts[p]
            if self.const_nodes:
                node = self.const_nodes.get(p) or self.const_nodes.get(p.split("::")[-1])
                if node is not None and self._depth < 10:
                    self._depth += 1
                    try:
                        return self.ev(node, Scope(None, {}))
                    finally:
                        self._depth -= 1
            if p == "None":
                return None
            if p in ("true", "false"):
                return p == "true"
            return p
        if k == "field":
            b = self.ev(e["base"], env)
            if isinstance(b, dict) and e["name"] in b:
                return b[e["name"]]
            if isinstance(b, tuple) and b and b[0] == "tuple" and str(e["name"]).isdigit():
                return b[1][int(e["name"])]
            raise NoEval(f"field {e['name']}")
        if k == "index":
            base = self.ev(e["e"], env)
            i_ = self.ev(e["i"], env)
            if isinstance(base, tuple) and base and base[0] == "list" and isinstance(i_, int) and 0 <= i_ < len(base[1]):
                return base[1][i_]
            raise NoEval("index out of the modelled range")
        if k == "tuple":
            return ("tuple", [self.ev(x, env) for x in e["elems"]])
        if k == "struct":
            d = {"__struct__": e["p"].split("::")[-1]}
            for fname, fv in e["fields"]:
                d[fname] = self.ev(fv, env)
            if e.get("rest"):
                base = self.ev(e["rest"], env)
                if isinstance(base, dict):
                    for kk, vv in base.items():
                        d.setdefault(kk, vv)
            return d
        if k == "closure":
            return ("closure", e, env)
        if k == "for":
            it = self.ev(e["iter"], env)
            if not (isinstance(it, tuple) and it and it[0] == "list"):
                raise NoEval("for over a non-collection")
            for x in list(it[1]):
                env2 = _child(env)
                if not self.bind(e["pat"], x, env2):
                    raise NoEval("refutable for pattern")
                try:
                    self.ev(e["body"], env2)
                except _Continue:
                    continue
                except _Break:
                    break
            return ("unit",)
        if k == "continue":
            raise _Continue()
        if k == "break":
            raise _Break()
        if k == "try":
            v = self._collected(self.ev(e["e"], env))
            if isinstance(v, tuple) and v and v[0] == "Err":
                raise _Return(v)
            if isinstance(v, tuple) and v and v[0] == "Ok":
                return v[1]
            if v is None:
                raise _Return(None)
            if isinstance(v, tuple) and v and v[0] == "Some":
                return v[1]
            raise NoEval("`?` on a value that is neither Result nor Option")
        if k == "binary" and e["op"] in ("+=", "-=", "*="):
            cur, rhs = self.ev(e["l"], env), self.ev(e["r"], env)
            if not (isinstance(cur, int) and isinstance(rhs, int)) or isinstance(cur, bool) or isinstance(rhs, bool):
                raise NoEval(f"`{e['op']}` on values that are not numbers")
            val = cur + rhs if e["op"] == "+=" else (cur - rhs if e["op"] == "-=" else cur * rhs)
            return self.ev({"k": "assign", "l": e["l"], "r": {"k": "__value__", "v": val}}, env)
        if k == "__value__":
            return e["v"]
        if k == "assign":
            val = self.ev(e["r"], env)
            tgt = strip(e["l"])
            if tgt.get("k") == "path" and "::" not in tgt["p"]:
                if not (isinstance(env, Scope) and env.assign(tgt["p"], val)):
                    env[tgt["p"]] = val
                return ("unit",)
            if tgt.get("k") == "field":
                base = self.ev(tgt["base"], env)
                if isinstance(base, dict):
                    base[tgt["name"]] = val
                    return ("unit",)
            if tgt.get("k") == "index":
                base = self.ev(tgt["e"], env)
                i_ = self.ev(tgt["i"], env)
                if isinstance(base, tuple) and base and base[0] == "list" and isinstance(i_, int) and 0 <= i_ < len(base[1]):
                    base[1][i_] = val
                    return ("unit",)
                raise NoEval("index assignment out of the modelled range")
            raise NoEval(f"assignment to `{src(tgt)[:30]}`")
        if k == "return":
            raise _Return(self.ev(e.get("e"), env) if e.get("e") else ("unit",))
        if k == "binary":
            op = e["op"]
            if op == "&&":
                l = self.ev(e["l"], env)
                self._bool(l)
                return l and self._bool(self.ev(e["r"], env))
            if op == "||":
                l = self.ev(e["l"], env)
                self._bool(l)
                return l or self._bool(self.ev(e["r"], env))
            l, r = self.ev(e["l"], env), self.ev(e["r"], env)
            if op in ("==", "!="):
                l = l[1] if isinstance(l, tuple) and l and l[0] == "text" else l
                r = r[1] if isinstance(r, tuple) and r and r[0] == "text" else r
            if op == "==":
                return l == r
            if op == "!=":
                return l != r
            if op in ("<", "<=", ">", ">="):
                l2, r2 = self._ord(l), self._ord(r)
                return {"<": l2 < r2, "<=": l2 <= r2, ">": l2 > r2, ">=": l2 >= r2}[op]
            if op in ("+", "-", "*") and isinstance(l, int) and isinstance(r, int) and not isinstance(l, bool):
                return l + r if op == "+" else (l - r if op == "-" else l * r)
            if op in ("/", "%") and isinstance(l, int) and isinstance(r, int) and not isinstance(l, bool):
                if r == 0:
                    raise NoEval("division by zero")
                q = abs(l) // abs(r) * (1 if (l >= 0) == (r >= 0) else -1)     # Rust: truncation towards zero
                return q if op == "/" else l - q * r
            raise NoEval(f"binary {op}")
        if k == "if":
            c = e["c"]
            if c.get("k") == "let":
                v = self.ev(c["e"], env)
                env2 = _child(env)
                if self.bind(c["pat"], v, env2):
                    self.cov.add((id(e), True))
                    return self.ev(e["then"], env2)
                self.cov.add((id(e), False))
                return self.ev(e["else"], env) if e.get("else") else ("unit",)
            if self._bool(self.ev(c, env)):
                self.cov.add((id(e), True))
                return self.ev(e["then"], env)
            self.cov.add((id(e), False))
            return self.ev(e["else"], env) if e.get("else") else ("unit",)
        if k == "match":
            v = self.ev(e["e"], env)
            for ai, a in enumerate(e["arms"]):
                env2 = _child(env)
                if self.bind(a["pat"], v, env2):
                    if a.get("guard") is not None and not self._bool(self.ev(a["guard"], env2)):
                        continue
                    self.cov.add((id(e), ai))
                    return self.ev(a["body"], env2)
            raise NoEval("no match arm applies")
        if k == "call" and (src(e["f"]).endswith("into_vec") or src(e["f"]).endswith("box_assume_init_into_vec_unsafe")):
            from .common import walk as _walk
            arrs = [n for n in _walk(e) if n.get("k") == "array"]
            if arrs:
                return ("list", [self.ev(a, env) for a in arrs[0]["elems"]])
            raise NoEval("vec! expansion without an array")
        if k == "array":
            return ("list", [self.ev(a, env) for a in e["elems"]])
        if k == "call":
            f = e["f"]
            if f.get("k") == "path" and f["p"] in env and isinstance(env[f["p"]], tuple) and env[f["p"]] and env[f["p"]][0] == "closure":
                _, cl, cenv = env[f["p"]]
                args = [self.ev(a, env) for a in e["args"]]
                env2 = _child(cenv)
                if len(cl["params"]) != len(args) or not all(self.bind(p_, a_, env2) for p_, a_ in zip(cl["params"], args)):
                    raise NoEval("closure call")
                return self.ev(cl["body"], env2)
            if f.get("k") == "path":
                name = f["p"]
                args = [self.ev(a, env) for a in e["args"]]
                if name in ("::alloc::fmt::format", "::alloc::__export::must_use", "alloc::fmt::format", "std::fmt::format") and len(args) == 1:
                    return args[0]          # the plumbing of `format!`
                if name == "String::from" and name not in self.funcs and len(args) == 1 and isinstance(args[0], tuple) and len(args[0]) == 2 and args[0][0] == "text":
                    return args[0]
                if name == "Some" and len(args) == 1:
                    return ("Some", args[0])
                if name in ("Ok", "Err") and len(args) == 1:
                    return (name, args[0])
                if name == "Option::from" and len(args) == 1:
                    return ("Some", args[0])
                if name.split("<")[0].endswith(("BTreeMap::new", "HashMap::new")) and not args:
                    return ("map", {})
                if name.endswith("Vec::new") and not args:
                    return ("list", [])
                if name.endswith("Vec::from") and len(args) == 1 and isinstance(args[0], tuple) and args[0] and args[0][0] == "list":
                    return ("list", list(args[0][1]))
                if name.endswith("Vec::with_capacity") and len(args) == 1:
                    return ("list", [])
                if name in ("Box::from", "Box::new", "String::from") and len(args) == 1:
                    return args[0]
                last = name.split("::")[-1]
                fn_ = self.funcs.get(name) or self.funcs.get(last)
                if fn_ is not None:
                    return fn_(*args)
                if name.startswith("Self::") and self._depth < 10:
                    # an associated function of the type being folded: by name among the methods / local functions the rule supplied
                    cand = [f_ for k_, f_ in self.local_methods.items() if (k_[1] if isinstance(k_, tuple) else k_) == last]
                    if not cand and self.local_fns and last in self.local_fns:
                        cand = [self.local_fns[last]]
                    if len(cand) == 1:
                        self._depth += 1
                        try:
                            return self.call(cand[0], args)
                        finally:
                            self._depth -= 1
                if "::" in name and (name.split("::")[-2], last) in self.local_methods and self._depth < 10:
                    self._depth += 1
                    try:
                        return self.call(self.local_methods[(name.split("::")[-2], last)], args)
                    finally:
                        self._depth -= 1
                if self.local_fns is not None and "::" not in name and name in self.local_fns and self._depth < 10:
                    self._depth += 1
                    try:
                        return self.call(self.local_fns[name], args)
                    finally:
                        self._depth -= 1
            raise NoEval(f"call `{src(f)[:40]}`")
        if k == "mcall":
            m = e["m"]
            recv = self.ev(e["recv"], env)
            args = e["args"]
            if m in ("clone", "to_owned") and not args and isinstance(recv, dict):
                return dict(recv)
            if m in ("clone", "to_owned", "to_vec") and not args and isinstance(recv, tuple) and recv and recv[0] == "list":
                return ("list", list(recv[1]))
            if m in ("clone",) and not args and isinstance(recv, tuple) and recv and recv[0] == "map":
                return ("map", dict(recv[1]))
            if m in ("clone", "as_ref", "to_owned", "deref", "borrow", "copied", "cloned", "as_deref", "as_mut", "borrow_mut") and not args:
                return recv
            if (isinstance(recv, dict) or (isinstance(recv, tuple) and recv and recv[0] == "sym") or (isinstance(recv, str) and "::" in recv)) \
                    and m in self.local_methods and self._depth < 10:
                fn_ = self.local_methods[m]
                self._depth += 1
                try:
                    return self.call(fn_, [recv] + [self.ev(a, env) for a in args])
                finally:
                    self._depth -= 1
            if isinstance(recv, tuple) and recv and recv[0] in ("Ok", "Err") and m in ("map", "map_err", "and_then", "ok", "is_ok", "is_err") and len(args) <= 1:
                if m == "is_ok":
                    return recv[0] == "Ok"
                if m == "is_err":
                    return recv[0] == "Err"
                if m == "ok":
                    return ("Some", recv[1]) if recv[0] == "Ok" else None
                a0 = strip(args[0])
                applies = (m in ("map", "and_then") and recv[0] == "Ok") or (m == "map_err" and recv[0] == "Err")
                if not applies:
                    return recv
                if a0.get("k") == "closure":
                    env2 = _child(env)
                    if len(a0["params"]) != 1 or not self.bind(a0["params"][0], recv[1], env2):
                        raise NoEval("closure parameter")
                    r = self.ev(a0["body"], env2)
                elif a0.get("k") == "path":
                    f_ = self.funcs.get(a0["p"]) or self.funcs.get(a0["p"].split("::")[-1])
                    r = f_(recv[1]) if f_ is not None else recv[1]          # a conversion function (`ParseErr::from`): identity on abstract values
                else:
                    raise NoEval(f"argument of .{m}()")
                return r if m == "and_then" else (recv[0], r)
            if m == "repeat" and len(args) == 1 and (isinstance(recv, str) or (isinstance(recv, tuple) and len(recv) == 2 and recv[0] == "text")):
                n_ = self.ev(args[0], env)
                if isinstance(n_, int) and not isinstance(n_, bool) and 0 <= n_ < 10000:
                    return ("text", (recv if isinstance(recv, str) else recv[1]) * n_)
                raise NoEval("repeat count")
            if isinstance(recv, dict) and (recv.get("__struct__"), m) in self.local_methods and self._depth < 10:
                fn_ = self.local_methods[(recv.get("__struct__"), m)]
                self._depth += 1
                try:
                    return self.call(fn_, [recv] + [self.ev(a, env) for a in args])
                finally:
                    self._depth -= 1
            if isinstance(recv, str) and not recv.startswith(("Token::", "Core::", "Side::", "CoreFunOp::")) or (isinstance(recv, tuple) and recv and recv[0] == "text"):
                text = recv[1] if isinstance(recv, tuple) else recv
                if m in ("to_string", "as_str", "to_owned", "clone", "as_ref") and not args and m not in self.methods:
                    return recv         # the same text in the same representation: `x.to_string()` and `String::from(x)` must compare equal
                if m == "rsplit_once" and len(args) == 1:
                    sep = self.ev(args[0], env)
                    sep = sep[1] if isinstance(sep, tuple) else sep
                    if sep in text:
                        a_, b_ = text.rsplit(sep, 1)
                        return ("Some", ("tuple", [("text", a_), ("text", b_)]))
                    return None
                if m == "split_once" and len(args) == 1:
                    sep = self.ev(args[0], env)
                    sep = sep[1] if isinstance(sep, tuple) else sep
                    if sep in text:
                        a_, b_ = text.split(sep, 1)
                        return ("Some", ("tuple", [("text", a_), ("text", b_)]))
                    return None
                if m == "matches" and len(args) == 1:
                    pat = self.ev(args[0], env)
                    pat = pat[1] if isinstance(pat, tuple) else pat
                    return ("list", [("text", pat)] * text.count(pat))
                if m == "chars" and not args:
                    return ("list", [("text", c_) for c_ in text])
                if m == "lines" and not args:
                    return ("list", [("text", l_) for l_ in text.replace("\r\n", "\n").split("\n")[: -1 if text.endswith("\n") else None]] if text else [])
                if m == "len" and not args:
                    return len(text.encode("utf-8"))
                if m == "is_empty" and not args:
                    return text == ""
                if m in ("contains", "starts_with", "ends_with") and len(args) == 1:
                    pat = self.ev(args[0], env)
                    pat = pat[1] if isinstance(pat, tuple) else pat
                    return {"contains": pat in text, "starts_with": text.startswith(pat), "ends_with": text.endswith(pat)}[m]
            if isinstance(recv, tuple) and recv and recv[0] == "map":
                if m == "get" and len(args) == 1:
                    k_ = self.ev(args[0], env)
                    return ("Some", recv[1][k_]) if k_ in recv[1] else None
                if m == "contains_key" and len(args) == 1:
                    return self.ev(args[0], env) in recv[1]
                if m == "insert" and len(args) == 2:
                    k_, v_ = self.ev(args[0], env), self.ev(args[1], env)
                    old_ = ("Some", recv[1][k_]) if k_ in recv[1] else None
                    recv[1][k_] = v_
                    return old_
                if m in ("values", "into_values") and not args:
                    return ("list", [recv[1][k_] for k_ in sorted(recv[1], key=repr)])
                if m in ("clone",) and not args:
                    return ("map", dict(recv[1]))
                if m == "is_empty" and not args:
                    return not recv[1]
                if m == "len" and not args:
                    return len(recv[1])
                raise NoEval(f"map method .{m}()")
            if isinstance(recv, tuple) and recv and recv[0] == "list":
                if m in ("to_vec", "clone", "to_owned") and not args:
                    return ("list", list(recv[1]))
                if m == "contains" and len(args) == 1:
                    return self.ev(args[0], env) in recv[1]
                if m == "chain" and len(args) == 1:
                    o = self.ev(args[0], env)
                    if not (isinstance(o, tuple) and o and o[0] == "list"):
                        raise NoEval("chain with a non-collection")
                    return ("list", list(recv[1]) + list(o[1]))
                if m in ("sorted_by_key", "sorted_by_cached_key") and len(args) == 1 and strip(args[0]).get("k") == "closure":
                    cl = strip(args[0])

                    def key_(x, cl=cl):
                        env2 = _child(env)
                        if len(cl["params"]) != 1 or not self.bind(cl["params"][0], x, env2):
                            raise NoEval("closure parameter")
                        return repr(self.ev(cl["body"], env2))
                    return ("list", sorted(recv[1], key=key_))
                if m in ("iter", "into_iter", "collect", "peekable", "iter_mut", "drain") and len(args) <= 0:
                    return recv
                if m == "push" and len(args) == 1:
                    recv[1].append(self.ev(args[0], env))
                    return ("unit",)
                if m == "append" and len(args) == 1:
                    o = self.ev(args[0], env)
                    if not (isinstance(o, tuple) and o and o[0] == "list"):
                        raise NoEval("append of a non-collection")
                    recv[1].extend(o[1])
                    if o[1] is not recv[1]:
                        del o[1][:]          # Vec::append empties its argument
                    return ("unit",)
                if m == "unzip" and not args:
                    if not all(isinstance(x, tuple) and x and x[0] == "tuple" and len(x[1]) == 2 for x in recv[1]):
                        raise NoEval("unzip of non-pairs")
                    return ("tuple", [("list", [x[1][0] for x in recv[1]]), ("list", [x[1][1] for x in recv[1]])])
                if m in ("flat_map", "filter_map") and len(args) == 1 and strip(args[0]).get("k") == "closure":
                    cl = strip(args[0])
                    out = []
                    for x in recv[1]:
                        env2 = _child(env)
                        if len(cl["params"]) != 1 or not self.bind(cl["params"][0], x, env2):
                            raise NoEval("closure parameter")
                        r = self.ev(cl["body"], env2)
                        if r is None:
                            continue
                        if isinstance(r, tuple) and r and r[0] == "Some":
                            out.append(r[1])
                        elif isinstance(r, tuple) and r and r[0] == "list":
                            out.extend(r[1])
                        else:
                            raise NoEval("flat_map of something that is neither Option nor collection")
                    return ("list", out)
                if m == "enumerate" and not args:
                    return ("list", [("tuple", [i_, x]) for i_, x in enumerate(recv[1])])
                if m == "zip" and len(args) == 1:
                    o = self.ev(args[0], env)
                    if not (isinstance(o, tuple) and o and o[0] == "list"):
                        raise NoEval("zip with a non-collection")
                    return ("list", [("tuple", [a_, b_]) for a_, b_ in zip(recv[1], o[1])])
                if m == "extend" and len(args) == 1:
                    o = self.ev(args[0], env)
                    if not (isinstance(o, tuple) and o and o[0] == "list"):
                        raise NoEval("extend with a non-collection")
                    recv[1].extend(o[1])
                    return ("unit",)
                if m in ("find", "position") and len(args) == 1 and strip(args[0]).get("k") == "closure":
                    cl = strip(args[0])
                    for i_, x in enumerate(recv[1]):
                        env2 = _child(env)
                        if len(cl["params"]) != 1 or not self.bind(cl["params"][0], x, env2):
                            raise NoEval("closure parameter")
                        if self._bool(self.ev(cl["body"], env2)):
                            return ("Some", x if m == "find" else i_)
                    return None
                if m in ("first", "last") and not args:
                    return ("Some", recv[1][0 if m == "first" else -1]) if recv[1] else None
                if m == "map" and len(args) == 1 and strip(args[0]).get("k") == "closure":
                    cl = strip(args[0])
                    out = []
                    for x in recv[1]:
                        env2 = _child(env)
                        if len(cl["params"]) != 1 or not self.bind(cl["params"][0], x, env2):
                            raise NoEval("closure parameter")
                        out.append(self.ev(cl["body"], env2))
                    return ("list", out)
                if m in ("len", "count") and not args:
                    return len(recv[1])
                if m == "is_empty" and not args:
                    return len(recv[1]) == 0
                if m in ("cloned", "copied") and not args:
                    return recv
                if m == "union" and len(args) == 1:
                    o = self.ev(args[0], env)
                    if not (isinstance(o, tuple) and o and o[0] == "list"):
                        raise NoEval("union with a non-collection")
                    out = list(recv[1])
                    for x in o[1]:
                        if x not in out:
                            out.append(x)
                    return ("list", out)
                if m in ("any", "all", "filter", "map") and len(args) == 1:
                    a0 = strip(args[0])
                    if a0.get("k") == "closure":
                        def ap(x, cl=a0):
                            env2 = _child(env)
                            if len(cl["params"]) != 1 or not self.bind(cl["params"][0], x, env2):
                                raise NoEval("closure parameter")
                            return self.ev(cl["body"], env2)
                    elif a0.get("k") == "path" and (a0["p"] in self.funcs or a0["p"].split("::")[-1] in self.funcs):
                        f_ = self.funcs.get(a0["p"]) or self.funcs[a0["p"].split("::")[-1]]
                        ap = f_
                    elif a0.get("k") == "path" and self.local_fns and a0["p"] in self.local_fns:
                        def ap(x, fn_=self.local_fns[a0["p"]]):
                            return self.call(fn_, [x])
                    else:
                        raise NoEval(f"argument of .{m}()")
                    if m == "any":
                        return any(self._bool(ap(x)) for x in recv[1])
                    if m == "all":
                        return all(self._bool(ap(x)) for x in recv[1])
                    if m == "filter":
                        return ("list", [x for x in recv[1] if self._bool(ap(x))])
                    return ("list", [ap(x) for x in recv[1]])
            if m == "is_some" and not args:
                self._opt(recv)
                return recv is not None
            if m == "is_none" and not args:
                self._opt(recv)
                return recv is None
            if m in ("unwrap_or", "unwrap_or_default") and len(args) <= 1:
                self._opt(recv)
                return recv[1] if recv is not None else (self.ev(args[0], env) if args else 0)
            if m in ("map_or", "is_some_and", "map", "and_then", "filter") and args and strip(args[-1]).get("k") == "closure":
                self._opt(recv)
                cl = strip(args[-1])
                if recv is None:
                    if m == "map_or":
                        return self.ev(args[0], env)
                    return False if m == "is_some_and" else None
                env2 = _child(env)
                if len(cl["params"]) != 1 or not self.bind(cl["params"][0], recv[1], env2):
                    raise NoEval("closure parameter")
                r = self.ev(cl["body"], env2)
                if m == "map":
                    return ("Some", r)
                if m == "filter":
                    return recv if self._bool(r) else None
                return r
            if m in ("eq", "ne") and len(args) == 1:
                o = self.ev(args[0], env)
                return (recv == o) if m == "eq" else (recv != o)
            if m in self.methods:
                return self.methods[m](recv, *[self.ev(a, env) for a in args])
            raise NoEval(f"method .{m}()")
        if k == "macro" and e.get("name", "").endswith("format_args") and e.get("args") and e["args"][0].get("k") == "lit":
            import re as _re
            tmpl = e["args"][0]["v"]
            vals = [self.ev(a, env) for a in e["args"][1:]]

            def as_text(v_):
                if isinstance(v_, tuple) and len(v_) == 2 and v_[0] == "text":
                    return v_[1]
                if isinstance(v_, str) or (isinstance(v_, int) and not isinstance(v_, bool)):
                    return str(v_)
                raise NoEval("format argument that is not text")
            out_, pos_, nxt_ = "", 0, 0
            for m_ in _re.finditer(r"\{\{|\}\}|\{(\d*)(?::[^}]*)?\}", tmpl):
                out_ += tmpl[pos_:m_.start()]
                if m_.group(0) in ("{{", "}}"):
                    out_ += m_.group(0)[0]
                else:
                    if m_.group(0).count(":"):
                        raise NoEval("format specification")
                    i_ = int(m_.group(1)) if m_.group(1) else nxt_
                    nxt_ = nxt_ if m_.group(1) else i_ + 1
                    if i_ >= len(vals):
                        raise NoEval("format argument index")
                    out_ += as_text(vals[i_])
                pos_ = m_.end()
            out_ += tmpl[pos_:]
            return ("text", out_)
        if k == "macro" and e.get("name", "").endswith("matches") and "args" in e:
            raise NoEval("matches! (unexpanded)")
        if k == "range":
            lo = self.ev(e["lo"], env) if e.get("lo") else 0
            hi = self.ev(e["hi"], env) if e.get("hi") else None
            if not isinstance(lo, int) or not isinstance(hi, int) or hi - lo > 64:
                raise NoEval("range bounds")
            return ("list", list(range(lo, hi + (1 if e.get("closed") else 0))))
        if k == "cast":
            v = self.ev(e["e"], env)
            ty = str(e.get("ty", "")).replace(" ", "")
            if isinstance(v, int) and not isinstance(v, bool) and ty in ("usize", "u64", "u32", "u8", "u16") and v < 0:
                return v % (2 ** {"usize": 64, "u64": 64, "u32": 32, "u16": 16, "u8": 8}[ty])      # `as` wraps
            return v
        if k == "paren":
            return self.ev(e["e"], env)
        raise NoEval(f"expression kind {k}: `{src(e)[:50]}`")

    # ---- coverage of the case table ----
    def uncovered(self, only=None):
        """branches of the functions that were folded which no case of the table took: ["fn: what"].  A fold states what a function does
        on a table of cases; the statement is only as good as the table, so a branch that no case reaches (e.g. one added later) is
        reported instead of being silently left out."""
        from .common import walk as _walk
        out = []
        for fn in self.entered.values():
            if only is not None and fn.get("name") not in only:
                continue
            for n in _walk(fn["body"]):
                k = n.get("k")
                if k == "if":
                    for oc, what in ((True, "taken"), (False, "not taken")):
                        if (id(n), oc) not in self.cov:
                            out.append(f"{fn['name']}: `if {src(n['c'], -30)[:50]}` never {what}")
                elif k == "match":
                    for ai, a in enumerate(n["arms"]):
                        if (id(n), ai) not in self.cov:
                            out.append(f"{fn['name']}: arm `{src(a['pat'], -30)[:50]}` of `match {src(n['e'], -30)[:30]}` never taken")
        return out

    # ---- patterns ----
    def bind(self, p, v, env):
        k = p.get("k")
        if k == "pwild":
            return True
        if k == "ptype":
            return self.bind(p["p"], v, env)
        if k == "pref":
            return self.bind(p["p"], v, env)
        if k == "pident":
            name = p["name"]
            if name == "None" or name in self.consts or name[:1].isupper():
                want = None if name == "None" else self.consts.get(name, name)
                return v == want
            if p.get("sub") is not None and not self.bind(p["sub"], v, env):
                return False
            env[name] = v
            return True
        if k == "ppath":
            if p["p"] == "None":
                return v is None
            if isinstance(v, tuple) and v and v[0] == "variant":
                return v[1] == p["p"] or v[1].split("::")[-1] == p["p"].split("::")[-1]
            return v == self.consts.get(p["p"], p["p"])
        if k == "plit":
            lit = self.ev(p["e"], {})
            return (v[1] if isinstance(v, tuple) and v and v[0] == "text" else v) == (lit[1] if isinstance(lit, tuple) and lit and lit[0] == "text" else lit)
        if k == "pstruct":
            # an enum variant / struct pattern against ("variant", "Core::Or", {fields}) or a dict with __struct__
            want = p["p"]
            if isinstance(v, tuple) and v and v[0] == "variant":
                if v[1] != want and v[1].split("::")[-1] != want.split("::")[-1]:
                    return False
                fields = v[2] if len(v) > 2 else {}
            elif isinstance(v, dict) and v.get("__struct__") == want.split("::")[-1]:
                fields = v
            elif isinstance(v, dict) or (isinstance(v, tuple) and v and v[0] in ("Some", "tuple", "list", "sym", "map")) or v is None:
                return False
            elif isinstance(v, str) and "::" in v and v.split("::")[-1][:1].isupper():
                return False        # a unit variant (`Core::Break`) never matches a struct pattern
            else:
                raise NoEval(f"pattern `{src(p)[:40]}` against `{str(v)[:30]}`")
            for fname, fp in p["fields"]:
                if fname in fields:
                    if not self.bind(fp, fields[fname], env):
                        return False
                elif fp.get("k") == "pwild":
                    continue
                else:
                    for m_ in [fp] if fp.get("k") == "pident" else []:
                        env[m_["name"]] = ("unknown", fname)
                    if fp.get("k") not in ("pident", "pwild"):
                        raise NoEval(f"field pattern `{src(fp)[:30]}` on an abstract value")
            return True
        if k == "ptstruct":
            if p["p"] == "Some" and len(p["elems"]) == 1:
                if v is None:
                    return False
                if not (isinstance(v, tuple) and v and v[0] == "Some"):
                    raise NoEval("Some(..) pattern against a non-Option")
                return self.bind(p["elems"][0], v[1], env)
            if isinstance(v, tuple) and v and v[0] == "variant":
                if v[1] != p["p"] and v[1].split("::")[-1] != p["p"].split("::")[-1]:
                    return False
                payload = v[2] if len(v) > 2 and isinstance(v[2], list) else []
                for i_, pe in enumerate(p["elems"]):
                    if pe.get("k") == "pwild" or pe.get("k") == "prest":
                        continue
                    if i_ < len(payload):
                        if not self.bind(pe, payload[i_], env):
                            return False
                    elif pe.get("k") == "pident":
                        env[pe["name"]] = ("unknown", i_)
                    else:
                        raise NoEval(f"pattern `{src(p)[:40]}` on an abstract payload")
                return True
            if p["p"] in ("Ok", "Err") and len(p["elems"]) == 1:
                if not (isinstance(v, tuple) and v and v[0] in ("Ok", "Err")):
                    raise NoEval("Ok/Err pattern against a non-Result")
                return v[0] == p["p"] and self.bind(p["elems"][0], v[1], env)
            if v is None or isinstance(v, (dict, str, int)):
                return False
            raise NoEval(f"pattern `{src(p)}`")
        if k == "ptuple":
            if not (isinstance(v, tuple) and v and v[0] == "tuple" and len(v[1]) == len(p["elems"])):
                raise NoEval("tuple pattern against a non-tuple")
            return all(self.bind(pe, ve, env) for pe, ve in zip(p["elems"], v[1]))
        if k == "por":
            for c in p["cases"]:
                e2 = _child(env)
                if self.bind(c, v, e2):
                    env.update(e2)
                    return True
            return False
        if k == "prange":
            lo, hi = self.ev(p["lo"], {}) if p.get("lo") else None, self.ev(p["hi"], {}) if p.get("hi") else None
            return (lo is None or lo <= v) and (hi is None or v <= hi)
        raise NoEval(f"pattern kind {k}")

    # ---- helpers ----
    @staticmethod
    def _bool(v):
        if not isinstance(v, bool):
            raise NoEval("a non-boolean where a condition is expected")
        return v

    @staticmethod
    def _opt(v):
        if v is not None and not (isinstance(v, tuple) and v and v[0] == "Some"):
            raise NoEval("Option method on a non-Option")

    @staticmethod
    def _ord(v):
        # Option ordering: None < Some(_)
        if v is None:
            return (0, 0)
        if isinstance(v, tuple) and v and v[0] == "Some":
            return (1, v[1])
        return (1, v)
