"""Shared fact model and analyses for the rule layer (Python 3, stdlib only).

Nothing in /repo is executed by anything in this package: the rules read
  * mir.jsonl   - resolved MIR of crate `mamba` (engines/mirfacts)
  * syn.json    - syntax tree of the macro-expanded crate (engines/synfacts)
  * raw files under /repo (stub .py files read with `ast`, docs, sources for locations)
"""
import json
import os
import re
import sys
import time
from collections import Counter, defaultdict, deque

VERIF = os.path.dirname(os.path.dirname(os.path.abspath(__file__)))
REPO = os.environ.get("MAMBA_REPO", "/repo")

# --------------------------------------------------------------------------------------------
# MIR model
# --------------------------------------------------------------------------------------------

_TY_NOISE = [
    (re.compile(r"'\{erased\} "), ""),
    (re.compile(r", std::alloc::Global"), ""),
    (re.compile(r"Closure\(DefId\([^~]*~ mamba\[[0-9a-f]+\]::((?:[^(){}]|\{[^{}]*\})*)\)"), r"{closure:\1}"),
]


def norm_ty(s):
    for rx, rep in _TY_NOISE:
        s = rx.sub(rep, s)
    return s


class Place:
    __slots__ = ("local", "proj", "raw")

    def __init__(self, raw):
        self.raw = raw
        parts = raw.split("|")
        self.local = int(parts[0])
        self.proj = parts[1:]

    def fields(self):
        """names of the field projections, outermost last"""
        out = []
        for p in self.proj:
            if p.startswith("."):
                bits = p.split(":")
                out.append(bits[1] if len(bits) > 1 else bits[0][1:])
        return out

    def __repr__(self):
        return "_" + self.raw


class Op:
    """operand: copy/move of a place, or a constant"""
    __slots__ = ("kind", "place", "const", "raw")

    def __init__(self, raw):
        self.raw = raw
        self.place = None
        self.const = None
        if raw[:1] in ("c", "m") and (len(raw) > 1 and raw[1].isdigit()):
            self.kind = "copy" if raw[0] == "c" else "move"
            self.place = Place(raw[1:])
        elif raw.startswith("F:"):
            self.kind = "fn"
            self.const = raw[2:]
        elif raw.startswith("K:"):
            self.kind = "const"
            self.const = raw[2:]
        else:
            self.kind = "other"

    @property
    def local(self):
        return self.place.local if self.place else None

    def const_value(self):
        """(type, value-string) for K: constants"""
        if self.kind != "const":
            return None
        ty, _, val = self.const.rpartition(":")
        return ty, val

    def __repr__(self):
        return self.raw


class Stmt:
    __slots__ = ("dst", "rv", "detail", "ops", "line", "exp")

    def __init__(self, arr):
        self.dst = Place(arr[0])
        self.rv = arr[1]
        self.detail = arr[2]
        self.ops = [Op(o) for o in arr[3]]
        self.line = arr[4]
        self.exp = bool(arr[5])

    def __repr__(self):
        return f"{self.dst} = {self.rv}({self.detail}; {self.ops}) @{self.line}"


class Term:
    def __init__(self, d):
        self.d = d
        self.k = d["k"]
        self.succ = d.get("succ", [])
        self.line = d.get("line", 0)
        if self.k == "call":
            self.callee = d["callee"]
            self.decl = d["decl"]
            self.args = [Op(a) for a in d["args"]]
            self.argt = [norm_ty(t) for t in d["argt"]]
            self.dst = Place(d["dst"])
            self.dty = norm_ty(d["dty"])
            self.target = d["target"]
            self.gargs = norm_ty(d["gargs"])
            self.exp = bool(d["exp"])
            self.fop = Op(d["fop"]) if d["fop"] else None
        elif self.k == "switch":
            self.discr = Op(d["discr"])
            self.targets = d["targets"]
            self.otherwise = d["otherwise"]
            self.dty = d["dty"]
        elif self.k == "assert":
            self.kind = d["kind"]
            self.cond = Op(d["cond"])
            self.expected = d["expected"]
            self.msg = d["msg"]
            self.target = d["target"]
            self.exp = bool(d["exp"])
        elif self.k == "drop":
            self.place = Place(d["place"])

    def __repr__(self):
        if self.k == "call":
            return f"call {self.callee}({self.args}) -> {self.dst} @{self.line}"
        return f"{self.k} {self.succ}"


class BB:
    __slots__ = ("idx", "cleanup", "stmts", "term")

    def __init__(self, idx, d):
        self.idx = idx
        self.cleanup = bool(d["c"])
        self.stmts = [Stmt(s) for s in d["s"]]
        self.term = Term(d["t"])


class Body:
    def __init__(self, d):
        self.path = d["fn"]
        self.kind = d["kind"]
        self.file = d["file"]
        self.line = d["line"]
        self.end_line = d["end_line"]
        self.parent = d["parent"]
        self.argc = d["argc"]
        self.mentions = d.get("mentions", [])
        self.locals = [norm_ty(t) for t in d["locals"]]
        self.names = {}
        for pl, nm in d["names"]:
            self.names.setdefault(pl, nm)
        self._raw_bbs = d["bbs"]
        self._bbs = None

    @property
    def bbs(self):
        if self._bbs is None:
            self._bbs = [BB(i, b) for i, b in enumerate(self._raw_bbs)]
        return self._bbs

    @property
    def loc(self):
        return f"{self.file}:{self.line}"

    def fn_mentions(self):
        """fn items mentioned as values in this body (promoted constants, temporaries, call arguments)"""
        out = list(self.mentions)
        for bb in self.bbs:
            for st in bb.stmts:
                for o in st.ops:
                    if o.kind == "fn":
                        out.append(o.const)
            if bb.term.k == "call":
                for a in bb.term.args:
                    if a.kind == "fn":
                        out.append(a.const)
        return out

    def local_name(self, l):
        return self.names.get(str(l))

    def calls(self, include_cleanup=False):
        for bb in self.bbs:
            if bb.cleanup and not include_cleanup:
                continue
            if bb.term.k == "call":
                yield bb, bb.term

    def stmts(self, include_cleanup=False):
        for bb in self.bbs:
            if bb.cleanup and not include_cleanup:
                continue
            for s in bb.stmts:
                yield bb, s

    # ---- CFG helpers (cleanup blocks = unwinding paths are ignored throughout) ----
    def succs(self, i):
        return [s for s in self.bbs[i].term.succ if not self.bbs[s].cleanup]

    def preds(self):
        p = defaultdict(list)
        for bb in self.bbs:
            if bb.cleanup:
                continue
            for s in self.succs(bb.idx):
                p[s].append(bb.idx)
        return p

    def reachable_from(self, start, blocked=()):
        blocked = set(blocked)
        seen = set()
        dq = deque([start])
        while dq:
            b = dq.popleft()
            if b in seen or b in blocked:
                continue
            seen.add(b)
            for s in self.succs(b):
                dq.append(s)
        return seen

    def return_blocks(self):
        return [bb.idx for bb in self.bbs if not bb.cleanup and bb.term.k == "return"]

    def dominators(self):
        """immediate-dominator-free simple iterative dominator sets (bodies are small)"""
        nodes = [bb.idx for bb in self.bbs if not bb.cleanup]
        reach = self.reachable_from(0)
        nodes = [n for n in nodes if n in reach]
        preds = self.preds()
        dom = {n: set(nodes) for n in nodes}
        dom[0] = {0}
        changed = True
        while changed:
            changed = False
            for n in nodes:
                if n == 0:
                    continue
                ps = [p for p in preds[n] if p in dom]
                new = set.intersection(*(dom[p] for p in ps)) if ps else set()
                new = new | {n}
                if new != dom[n]:
                    dom[n] = new
                    changed = True
        return dom

    def error_exit_blocks(self):
        """blocks that build the error result: `?` residual conversion, or `_0 = Err(..)` / `_0 = None`."""
        out = set()
        for bb in self.bbs:
            if bb.cleanup:
                continue
            t = bb.term
            if t.k == "call" and t.decl.endswith("FromResidual::from_residual") and t.dst.local == 0:
                out.add(bb.idx)
            for s in bb.stmts:
                if s.dst.local == 0 and not s.dst.proj and s.rv == "Aggregate":
                    bits = s.detail.split("|")
                    if bits[0] == "Adt" and bits[1] in ("std::result::Result",) and bits[3] == "Err":
                        out.add(bb.idx)
                    if bits[0] == "Adt" and bits[1] in ("std::option::Option",) and bits[3] == "None":
                        out.add(bb.idx)
        return out

    def natural_loops(self):
        """list of (header, set(body blocks)) from back edges (target dominates source)"""
        dom = self.dominators()
        preds = self.preds()
        loops = {}
        for n in dom:
            for s in self.succs(n):
                if s in dom[n]:
                    # back edge n -> s
                    body = {s, n}
                    stack = [n]
                    while stack:
                        x = stack.pop()
                        if x == s:
                            continue
                        for p in preds[x]:
                            if p not in body and p in dom:
                                body.add(p)
                                stack.append(p)
                    loops.setdefault(s, set()).update(body)
        return sorted(loops.items())


class Mir:
    def __init__(self, path, rename=()):
        self.fns = {}
        self.adts = {}
        self.impls = []
        self.statics = []
        with open(path) as fh:
            for line in fh:
                for rx_, to_ in rename:         # private functions that were renamed get their pinned names back (see restore_private_fn_names)
                    line = rx_.sub(to_, line)
                o = json.loads(line)
                k = o["k"]
                if k == "fn":
                    b = Body(o)
                    self.fns[b.path] = b
                elif k == "adt":
                    self.adts[o["path"]] = o
                elif k == "impl":
                    self.impls.append(o)
                elif k == "static":
                    self.statics.append(o)
        self._cg = None

    def find(self, suffix, exact=False):
        """bodies whose def-path equals or ends with `::suffix` (closures excluded)"""
        out = []
        for p, b in self.fns.items():
            if b.kind == "Closure":
                continue
            if p == suffix or (not exact and p.endswith("::" + suffix)):
                out.append(b)
        return out

    def one(self, suffix):
        r = self.find(suffix)
        if len(r) != 1:
            raise AnchorError(f"expected exactly one function `{suffix}`, found {[b.path for b in r]}")
        return r[0]

    def closures_of(self, path):
        return [b for b in self.fns.values() if b.kind == "Closure" and b.parent == path]

    def with_closures(self, body):
        return [body] + self.closures_of(body.path)

    # ---- call graph ----
    def callgraph(self):
        """edges: caller -> set(callee def-path); includes fn items mentioned as values and closures created"""
        if self._cg is not None:
            return self._cg
        cg = defaultdict(set)
        trait_impls = defaultdict(set)  # trait method decl path -> local impl fn paths (for unresolved dyn/generic calls)
        for b in self.fns.values():
            for m in b.mentions:
                cg[b.path].add(m)
            for bb in b.bbs:
                t = bb.term
                if t.k == "call":
                    cg[b.path].add(t.callee)
                    for a in t.args:
                        if a.kind == "fn":
                            cg[b.path].add(a.const)
                    if t.fop is not None and t.fop.kind == "fn":
                        cg[b.path].add(t.fop.const)
                for s in bb.stmts:
                    if s.rv == "Aggregate" and s.detail.startswith("Closure|"):
                        cg[b.path].add(s.detail.split("|", 1)[1])
                    for o in s.ops:
                        if o.kind == "fn":
                            cg[b.path].add(o.const)
        self._cg = cg
        return cg

    def reachable_fns(self, roots):
        cg = self.callgraph()
        seen = set()
        dq = deque(roots)
        while dq:
            f = dq.popleft()
            if f in seen:
                continue
            seen.add(f)
            for c in cg.get(f, ()):
                if c not in seen:
                    dq.append(c)
        return seen

    def callers_of(self, pred):
        """yield (body, bb, term) for every call whose resolved callee satisfies pred(callee)"""
        for b in self.fns.values():
            for bb, t in b.calls():
                if pred(t.callee):
                    yield b, bb, t

    def sccs(self, nodes=None):
        cg = self.callgraph()
        nodes = list(nodes if nodes is not None else self.fns.keys())
        nodeset = set(nodes)
        index = {}
        low = {}
        onstack = set()
        stack = []
        out = []
        counter = [0]
        sys.setrecursionlimit(100000)

        def strong(v):
            index[v] = low[v] = counter[0]
            counter[0] += 1
            stack.append(v)
            onstack.add(v)
            for w in cg.get(v, ()):
                if w not in nodeset:
                    continue
                if w not in index:
                    strong(w)
                    low[v] = min(low[v], low[w])
                elif w in onstack:
                    low[v] = min(low[v], index[w])
            if low[v] == index[v]:
                comp = []
                while True:
                    w = stack.pop()
                    onstack.discard(w)
                    comp.append(w)
                    if w == v:
                        break
                out.append(comp)

        for v in nodes:
            if v not in index:
                strong(v)
        return out


class AnchorError(Exception):
    """an anchor the rule depends on is missing or left the analysable fragment: the check fails closed"""


# ---- must-call (Ok-path) -------------------------------------------------------------------

def must_call_blocks(body, start, is_target_call, extra_block=()):
    """True iff every path in `body` from block `start` to a Return that avoids error exits passes a block whose
    call terminator satisfies is_target_call(term).  Returns (holds, witness_path_or_None)."""
    errs = body.error_exit_blocks()
    targets = set(extra_block)
    for bb, t in body.calls():
        if is_target_call(t):
            targets.add(bb.idx)
    rets = set(body.return_blocks())
    # BFS avoiding targets and error exits
    prev = {start: None}
    dq = deque([start])
    while dq:
        b = dq.popleft()
        if b in targets or b in errs:
            continue
        if b in rets:
            path = []
            x = b
            while x is not None:
                path.append(x)
                x = prev[x]
            return False, list(reversed(path))
        for s in body.succs(b):
            if s not in prev:
                prev[s] = b
                dq.append(s)
    return True, None


def owner_root(mir, syn, path, depth=4):
    """the function a reviewed site is attributed to: closures belong to the function they are written in, and a private free
    function with exactly one caller belongs to that caller - so that moving code into a local helper (or a closure into a
    private fn) does not turn a reviewed site into a new one"""
    cache = mir.__dict__.setdefault("_owner_root", {})
    if path in cache:
        return cache[path]
    cg = mir.callgraph()
    callers = mir.__dict__.get("_callers")
    if callers is None:
        callers = defaultdict(set)
        for a, bs in cg.items():
            for b in bs:
                callers[b].add(a)
        mir.__dict__["_callers"] = callers
    private = mir.__dict__.get("_private_free")
    if private is None:
        private = {f["qual"] for f in syn.fns if f.get("vis", "").replace(" ", "") in ("", "pub(super)", "pub(self)") and f.get("qual") and not f.get("impl_trait") and
                   (f.get("impl_of") is None or f["name"] not in ("new", "from", "default"))}      # private free functions and private inherent methods
        mir.__dict__["_private_free"] = private

    def unclosure(p):
        b = mir.fns.get(p)
        n = 0
        while b is not None and b.kind == "Closure" and b.parent and n < 8:
            p = b.parent
            b = mir.fns.get(p)
            n += 1
        return p
    def chain_root(p, steps=depth):
        """follow single-caller private helpers upwards (no branching)"""
        c_ = unclosure(p)
        for _ in range(steps):
            if c_ not in private:
                break
            up = {unclosure(x) for x in callers.get(c_, ())} - {c_}
            if len(up) != 1:
                break
            c_ = next(iter(up))
        return c_
    cur = unclosure(path)
    for _ in range(depth):
        if cur not in private:
            break
        cs = {unclosure(c) for c in callers.get(cur, ())} - {cur}
        if len(cs) > 1:
            # several callers that all belong to one function (two private helpers of the same caller share a third)
            cs = {chain_root(c) for c in cs} - {cur}
        if len(cs) != 1:
            break
        cur = next(iter(cs))
    cache[path] = cur
    return cur


def local_helpers(syn, fn, depth=2):
    """private free functions of the same module that `fn` calls by name (transitively, bounded): code moved into such a helper
    is still part of what `fn` does"""
    out, seen, todo = [], {fn.get("qual")}, [(fn, 0)]
    while todo:
        f, d = todo.pop(0)
        if d >= depth:
            continue
        for n in walk(f["body"]):
            if n.get("k") == "call" and n["f"].get("k") == "path" and "::" not in n["f"]["p"]:
                for c in syn.fns:
                    if c["name"] == n["f"]["p"] and c["mod"] == fn["mod"] and c.get("impl_of") is None and c.get("vis", "") == "" and c.get("qual") not in seen and c.get("body"):
                        seen.add(c.get("qual"))
                        out.append(c)
                        todo.append((c, d + 1))
    return out



def is_node_scrutinee(e, fn=None):
    """`match &<x>.node` / `match <x>.node` where <x> is a plain name - the dispatch on the kind of a syntax node; when `fn` is given,
    <x> has to be one of its parameters (whatever it is called)"""
    e = strip(e)
    while isinstance(e, dict) and e.get("k") in ("ref", "paren"):
        e = strip(e["e"])
    if not (isinstance(e, dict) and e.get("k") == "field" and e.get("name") == "node"):
        return False
    b = strip(e["base"])
    if not (isinstance(b, dict) and b.get("k") == "path" and "::" not in b["p"]):
        return False
    if fn is not None:
        params = {i_["pat"]["name"] for i_ in fn["sig"]["inputs"] if i_.get("pat", {}).get("k") == "pident"}
        return b["p"] in params
    return True


def ast_params(fn):
    """names of the parameters of `fn` that are syntax nodes (`&AST`, `&ASTTy`, `&Box<AST>`) - whatever they are called"""
    out = set()
    for i_ in fn["sig"]["inputs"]:
        if i_.get("pat", {}).get("k") == "pident" and re.search(r"\bAST(Ty)?\b", str(i_.get("ty", ""))) and "[" not in str(i_.get("ty", "")) and "Vec" not in str(i_.get("ty", "")):
            out.add(i_["pat"]["name"])
    return out

def syn_owner(syn, f, depth=3):
    """syntactic counterpart of owner_root: the qualified name of the function a site in `f` is attributed to - a private free
    function that exactly one other function of its module calls (by bare name) belongs to that caller"""
    cache = syn.__dict__.setdefault("_syn_owner", {})
    q0 = f.get("qual")
    if q0 in cache:
        return cache[q0]
    cur = f
    for _ in range(depth):
        vis = cur.get("vis", "").replace(" ", "")
        if vis not in ("", "pub(self)", "pub(super)") or not cur.get("qual") or cur.get("impl_trait"):
            break
        if cur.get("impl_of") is None and vis == "pub(super)":
            # a function of a private nested module, visible in the module around it: called as `name(..)` after a `use`, or as `inner::name(..)`;
            # its name must be unique among the free functions below that module
            scope = cur["mod"].rsplit("::", 1)[0]
            below = [g for g in syn.fns if (g["mod"] == scope or g["mod"].startswith(scope + "::"))]
            if sum(1 for g in below if g["name"] == cur["name"] and g.get("impl_of") is None) != 1:
                break
            callers = [g for g in below if g is not cur and g.get("body") and
                       any(n.get("k") == "call" and n["f"].get("k") == "path" and n["f"]["p"].split("::")[-1] == cur["name"] for n in walk(g["body"]))]
        elif cur.get("impl_of") is None:
            callers = [g for g in syn.fns if g is not cur and g["mod"] == cur["mod"] and g.get("body") and
                       any(n.get("k") == "call" and n["f"].get("k") == "path" and n["f"]["p"] == cur["name"] for n in walk(g["body"]))]
        else:
            # a private inherent method: called as `x.name(..)` or `Self::name(..)` / `Type::name(..)` from the same module; its name must not be
            # shared with another method of the module (the receiver's type is not known here)
            if sum(1 for g in syn.fns if g["mod"] == cur["mod"] and g["name"] == cur["name"]) != 1 or cur["name"] in ("new", "from", "default", "fmt", "clone", "eq", "hash"):
                break
            callers = [g for g in syn.fns if g is not cur and g["mod"] == cur["mod"] and g.get("body") and
                       any((n.get("k") == "mcall" and n["m"] == cur["name"]) or
                           (n.get("k") == "call" and n["f"].get("k") == "path" and n["f"]["p"].split("::")[-1] == cur["name"] and "::" in n["f"]["p"]) for n in walk(g["body"]))]
        if len(callers) != 1:
            break
        cur = callers[0]
    cache[q0] = cur.get("qual")
    return cache[q0]


def normalise_review(syn, table):
    """{(fn qual, kind): (count, reason)} with the function attributed by syn_owner; entries that fall together add up"""
    by_qual = {f.get("qual"): f for f in syn.fns if f.get("qual")}
    out = {}
    for (fn, kind), (cnt, why) in table.items():
        f = by_qual.get(fn)
        if f is None and "::" in fn:
            # the reviewed function is not where it was: the same name, once, in a module nested in the old one (or around it)
            mod_, name_ = fn.rsplit("::", 1)
            same = [g for g in syn.fns if g["name"] == name_ and g.get("qual") and g.get("impl_of") is None and
                    (g["mod"].startswith(mod_ + "::") or mod_.startswith(g["mod"] + "::"))]
            if len(same) == 1 and "::" not in name_:
                f = same[0]
        key = (syn_owner(syn, f) if f is not None else fn, kind)
        if key in out:
            out[key] = (out[key][0] + cnt, out[key][1] + "; " + why)
        else:
            out[key] = (cnt, why)
    return out


def borrow(chk, facts, module, keep, rule_texts):
    """run the rules of another property's module and keep only the obligations whose key starts with one of `keep` (they are a
    necessary condition of this property as well); everything else the other module registered is dropped again"""
    n0 = len(chk.obligations)
    rules0, counts0, notes0 = dict(chk.rules), dict(chk.counts), list(chk.notes)
    samples0, assumptions0 = list(chk.samples), list(chk.assumptions)
    module.run(chk, facts)
    kept = [o for o in chk.obligations[n0:] if any(o["key"].startswith(k) for k in keep)]
    chk.obligations = chk.obligations[:n0] + kept
    chk.rules = rules0
    chk.counts.clear()
    chk.counts.update(counts0)
    for r, text in rule_texts.items():
        chk.rules[r] = text
        chk.counts[r] = len([o for o in kept if o["key"].startswith(r + "|")])
    chk.notes[:] = notes0
    chk.samples[:] = samples0
    chk.assumptions[:] = assumptions0
    return kept


def error_guards(syn, fn, depth=2):
    """conditions (normalised source, in terms of fn's own names) under which `fn` returns an error before anything else happens:
    leading `if C { return Err(..) }` statements and leading `helper(args)?` statements whose private helper returns Err exactly on
    its own guard paths (the helper's parameters are replaced by the arguments)."""
    out = []
    body = fn.get("body") or {}
    helpers = {h["name"]: h for h in local_helpers(syn, fn, depth=1)}
    for st in body.get("stmts", []):
        e = strip(st.get("e", {})) if st.get("k") == "expr" else (strip(st.get("init")) if st.get("k") == "local" and st.get("init") is not None else {})
        if not isinstance(e, dict):
            break
        if e.get("k") == "if" and e.get("else") is None and e["c"].get("k") != "let":
            then_s = src(e["then"], -30).replace(" ", "")
            if "returnErr(" in then_s:
                out.append(src(strip(e["c"]), -30).replace(" ", ""))
                continue
            break
        t = e
        if t.get("k") == "try":
            c = strip(t["e"])
            if c.get("k") == "call" and c["f"].get("k") == "path" and c["f"]["p"] in helpers and depth > 0:
                h = helpers[c["f"]["p"]]
                params = [inp["pat"].get("name") for inp in h["sig"]["inputs"] if inp.get("pat", {}).get("k") == "pident"]
                if len(params) == len(c["args"]):
                    for g in error_guards(syn, h, depth - 1):
                        for pn, a in zip(params, c["args"]):
                            g = re.sub(r"(?<![\w.])" + re.escape(pn) + r"(?!\w)", src(strip(a), -30).replace(" ", ""), g)
                        out.append(g)
                    continue
            break
        if st.get("k") == "local":
            continue      # a plain let does nothing observable
        break
    return out


def crossed_arguments(fns, scope=lambda f: True):
    """calls that hand two parameters of the enclosing function to a callee *crosswise*: f(a, b) calls g(b, a) where g's parameters at those
    positions are called a and b (all candidates for g by name and arity agree on the parameter names).  -> [(caller qual, callee, a, b)]"""
    by_name = {}
    for g in fns:
        if g.get("sig"):
            by_name.setdefault(g["name"], []).append(g)

    def pnames(g, method):
        ps = [i.get("pat", {}).get("name") for i in g["sig"]["inputs"]]
        return ps[1:] if method and ps and ps[0] == "self" else ps
    out = []
    for F in fns:
        if not F.get("body") or not scope(F):
            continue
        fp = {p_ for p_ in pnames(F, False) if p_ and p_ != "self"}
        if len(fp) < 2:
            continue
        for n in walk(F["body"]):
            k = n.get("k")
            if k == "call" and n["f"].get("k") == "path":
                name, args, method = n["f"]["p"].split("::")[-1], n["args"], False
            elif k == "mcall":
                name, args, method = n["m"], n["args"], True
            else:
                continue
            sigs = {tuple(pnames(g, method)) for g in by_name.get(name, []) if len(pnames(g, method)) == len(args)}
            if len(sigs) != 1:
                continue
            gp = next(iter(sigs))
            argn = [src(strip(a)) if strip(a).get("k") == "path" else None for a in args]
            for i, a in enumerate(argn):
                if a in fp and gp[i] in fp and gp[i] != a:
                    for j, b in enumerate(argn):
                        if j != i and b == gp[i] and gp[j] == a:
                            out.append((F.get("qual") or F["name"], name, a, b))
    return sorted(set(out))


def option_match_as_iflet(m):
    """`match e { Some(p) => A, None | _ => B }` (either order) as the equivalent `if let Some(p) = e { A } else { B }` node; else None"""
    if not isinstance(m, dict) or m.get("k") != "match" or len(m.get("arms", [])) != 2 or any(a.get("guard") for a in m["arms"]):
        return None
    some = [a for a in m["arms"] if src(a["pat"]).replace(" ", "").startswith("Some(")]
    none = [a for a in m["arms"] if src(a["pat"]).replace(" ", "") in ("None", "_")]
    if len(some) != 1 or len(none) != 1:
        return None
    return {"k": "if", "c": {"k": "let", "pat": some[0]["pat"], "e": m["e"], "ln": m.get("ln")}, "then": some[0]["body"], "else": none[0]["body"], "ln": m.get("ln"), "from_match": True}


TEXT_TRANSFORMS = ("trim", "trim_start", "trim_end", "trim_matches", "trim_start_matches", "trim_end_matches", "replace", "replacen", "strip_prefix",
                   "strip_suffix", "to_lowercase", "to_uppercase", "to_ascii_lowercase", "to_ascii_uppercase", "split", "split_whitespace", "lines", "skip",
                   "take", "filter", "rev", "get", "split_at", "trim_left", "trim_right", "truncate", "drain", "remove", "retain", "pop", "split_off",
                   "rsplit", "splitn", "split_once", "rsplit_once", "escape_default", "escape_debug", "char_indices", "bytes", "skip_while", "take_while")


def text_as_is(syn, fn, param, consumers=("chars",), depth=3):
    """does the text bound to `param` reach one of the consumer methods / functions as it is?  Follows bare hand-overs to
    other functions of the crate (by name; same module first).  -> (reached: [where], bad: [what])"""
    reached, bad = [], []
    for n in walk(fn["body"]):
        k = n.get("k")
        if k == "mcall":
            recv = strip(n["recv"])
            if n["m"] in TEXT_TRANSFORMS and param in idents_in(n["recv"]) and not (n["m"] in consumers and src(recv) == param):
                bad.append(f"{fn['name']}: `{src(n, -30)[:60]}`")
            elif n["m"] in consumers and src(recv) == param:
                reached.append(f"{fn['name']}: {param}.{n['m']}()")
            elif n["m"] in consumers and param in idents_in(n["recv"]):
                bad.append(f"{fn['name']}: `{src(n, -30)[:60]}` (not the text itself)")
        elif k == "index" and param in idents_in(n["e"]):
            bad.append(f"{fn['name']}: `{src(n, -30)[:60]}` (a slice of the text)")
        elif k == "local" and n.get("init") is not None and n["pat"].get("k") in ("pident", "ptype"):
            nm = [p_["name"] for p_ in walk(n["pat"]) if p_.get("k") == "pident"]
            if nm == [param] and src(strip(n["init"])) != param:
                bad.append(f"{fn['name']}: `{param}` is re-bound to `{src(n['init'], -30)[:50]}`")
        elif k == "call" and n["f"].get("k") == "path":
            name = n["f"]["p"].split("::")[-1]
            for i, a in enumerate(n["args"]):
                if src(strip(a)) != param:
                    continue
                if name in consumers:
                    reached.append(f"{fn['name']}: {name}({param})")
                    continue
                cands = [c for c in syn.fns if c["name"] == name and c.get("impl_of") is None and len(c["sig"]["inputs"]) == len(n["args"])]
                same = [c for c in cands if c["mod"] == fn["mod"]] or cands
                if len(same) == 1 and depth > 0:
                    pat = same[0]["sig"]["inputs"][i]["pat"]
                    if pat.get("k") == "pident":
                        r2, b2 = text_as_is(syn, same[0], pat["name"], consumers, depth - 1)
                        reached += r2
                        bad += b2
    return reached, bad


def must_call_deep(mir, body, start, is_target_call, depth=3, extra_block=(), _seen=None):
    """must_call_blocks, where a call also counts when the (crate-local) callee itself calls the target on every one of
    its own Ok paths - the obligation survives being moved into a helper.  depth bounds the helper nesting."""
    seen = _seen or set()

    def pred(t):
        if is_target_call(t):
            return True
        cb = mir.fns.get(t.callee)
        if cb is None or depth <= 0 or t.callee in seen or cb.kind == "Closure":
            return False
        h, _ = must_call_deep(mir, cb, 0, is_target_call, depth - 1, (), seen | {body.path})
        return h
    return must_call_blocks(body, start, pred, extra_block)


def enum_switch_targets(body, enum_path, variant):
    """blocks that are the SwitchInt target for `variant` of enum `enum_path` (discriminant read + switch)."""
    out = []
    for bb in body.bbs:
        if bb.cleanup or bb.term.k != "switch":
            continue
        d = bb.term.discr
        if d.place is None:
            continue
        # find the Discriminant statement that defines the switched local in this block
        for s in bb.stmts:
            if s.rv == "Discriminant" and s.dst.local == d.place.local and enum_path in s.detail:
                out.append((bb, s))
    return out


# --------------------------------------------------------------------------------------------
# Syntax model
# --------------------------------------------------------------------------------------------


# Parameters that carry one of the pipeline's context objects have conventional names throughout the code base (63 of 63 `&mut LexIterator`
# are `it`, 59 of 59 `&Context` are `ctx`, ..).  Rules name these parameters in conditions and messages; so that renaming one (which cannot
# change behaviour) does not change what a rule sees, every function is alpha-renamed on loading: a parameter of such a type that is the
# only one of its type in the function gets the conventional name back - unless that name is already used in the function.
# ORIGINAL_PARAM_NAMES lists the functions of today's tree whose parameter is *not* called by the convention (they keep their name).
CANONICAL_PARAMS = [(r"^&Environment$", "env"), (r"^&Context$", "ctx"), (r"^&mut ConstrBuilder$", "constr"), (r"^&mut LexIterator$", "it"),
                    (r"^&State$", "state"), (r"^&mut State$", "state"), (r"^&mut Imports$", "imp"), (r"^&(AST|ASTTy)$", "ast"),
                    (r"^&mut Constraints$", "constraints"), (r"^&mut Finished$", "finished")]
ORIGINAL_PARAM_NAMES = None      # tables/param_names.json: {"fn qual|class": name} for the parameters of today's tree that do not follow the convention


def canonicalise_params(syn):
    """-> {fn qual: {current name: conventional name}} for the parameters that were renamed in the facts (see above)"""
    global ORIGINAL_PARAM_NAMES
    if ORIGINAL_PARAM_NAMES is None:
        ORIGINAL_PARAM_NAMES = {tuple(k_.split("|")): v_ for k_, v_ in load_table("param_names.json")["names"].items()}
    done = {}
    for f in syn.fns:
        if not f.get("body") or not f.get("qual"):
            continue
        by_class = defaultdict(list)
        for i_ in f["sig"]["inputs"]:
            if i_.get("pat", {}).get("k") != "pident":
                continue
            ty = re.sub(r"\s+", " ", str(i_.get("ty", "")).strip()).replace("& ", "&")
            for rx, c in CANONICAL_PARAMS:
                if re.match(rx, ty):
                    by_class[c].append(i_["pat"]["name"])
        ren = {}
        # a few functions whose parameters the models name by position
        pos_names = {"generate::ast::to_py": ("core", "ind")}.get(f["qual"])
        if pos_names:
            for i_, want_ in zip(f["sig"]["inputs"], pos_names):
                if i_.get("pat", {}).get("k") == "pident" and i_["pat"]["name"] != want_:
                    ren[i_["pat"]["name"]] = want_
        for c, names in by_class.items():
            if len(names) != 1:
                continue
            want = ORIGINAL_PARAM_NAMES.get((f["qual"], c)) or c
            if names[0] != want:
                ren[names[0]] = want
        if not ren:
            continue
        used = set()
        for n in walk(f["body"]):
            if n.get("k") == "pident":
                used.add(n["name"])
            elif n.get("k") == "path" and "::" not in n["p"]:
                used.add(n["p"])
        for i_ in f["sig"]["inputs"]:
            if i_.get("pat", {}).get("k") == "pident":
                used.add(i_["pat"]["name"])
        ren = {a: b for a, b in ren.items() if b not in used}
        if not ren:
            continue
        for root in (f["body"], [i_.get("pat") for i_ in f["sig"]["inputs"]]):
            for n in walk(root):
                if n.get("k") == "pident" and n["name"] in ren:
                    n["name"] = ren[n["name"]]
                elif n.get("k") == "path" and n["p"] in ren:
                    n["p"] = ren[n["p"]]
        done[f["qual"]] = ren
    return done




# ------------------------------------------------------------------------------------------------------------------------
# Logical re-spellings.  `a == b` and `b == a`, `if !c { A } else { B }` and `if c { B } else { A }`, `match o { Some(x) => A, None => B }`
# and `if let Some(x) = o { A } else { B }`, `x.is_none()` and `!x.is_some()` are the same program.  So that a rule sees the same tree
# for all of them, the facts are brought into one spelling on loading.  Every rewrite is an equivalence of *values*; the order in which
# the operands of `&&` / `||` are evaluated is not kept (rules that care about effects inside conditions look at MIR).
def _is_literalish(e):
    e = strip(e)
    if not isinstance(e, dict):
        return False
    k = e.get("k")
    if k == "lit":
        return True
    if k == "path":
        last = e["p"].split("::")[-1]
        return last[:1].isupper() and (last.isupper() or "::" in e["p"] or last in ("None",))
    if k == "call" and e["f"].get("k") == "path" and not e["args"]:
        return True                                     # `Name::any()`, `TrueName::empty()`
    if k == "struct":
        return True                                     # `Core::Id { lit: .. }`
    if k == "unary" and e.get("op") in ("*", "&", "-"):
        return _is_literalish(e["e"])
    if k == "ref":
        return _is_literalish(e["e"])
    return False


_FLIP = {"<": ">", ">": "<", "<=": ">=", ">=": "<=", "==": "==", "!=": "!="}
_NEG = {"==": "!=", "!=": "==", "<": ">=", ">=": "<", ">": "<=", "<=": ">"}
_OPP_M = {"is_some": "is_none", "is_none": "is_some", "is_ok": "is_err", "is_err": "is_ok"}


def _negate(e):
    """the negation of a condition, pushed inwards one level where that is exact"""
    e0 = e
    while isinstance(e, dict) and e.get("k") == "paren":
        e = e["e"]
    if isinstance(e, dict):
        if e.get("k") == "unary" and e.get("op") == "!":
            return e["e"]
        if e.get("k") == "binary" and e["op"] in ("==", "!="):
            return dict(e, op=_NEG[e["op"]])
        if e.get("k") == "mcall" and e["m"] in _OPP_M and not e["args"]:
            return dict(e, m=_OPP_M[e["m"]])
    return {"k": "unary", "op": "!", "e": e0, "ln": (e0 or {}).get("ln", 0) if isinstance(e0, dict) else 0}


def _flat_chain(n, op):
    n2 = n
    while isinstance(n2, dict) and n2.get("k") == "paren":
        n2 = n2["e"]
    if isinstance(n2, dict) and n2.get("k") == "binary" and n2["op"] == op:
        return _flat_chain(n2["l"], op) + _flat_chain(n2["r"], op)
    return [n]


def _norm_node(n):
    k = n.get("k")
    if k == "binary":
        op = n["op"]
        # constants to the right of a comparison
        if op in _FLIP and _is_literalish(n["l"]) and not _is_literalish(n["r"]):
            n["l"], n["r"], n["op"] = n["r"], n["l"], _FLIP[op]
            op = n["op"]
        if op in ("+", "*") and isinstance(strip(n["l"]), dict) and strip(n["l"]).get("k") == "lit" and strip(n["l"]).get("t") == "int" and not _is_literalish(n["r"]):
            n["l"], n["r"] = n["r"], n["l"]                                      # `1 + ind` is `ind + 1`
        if op in ("&&", "||"):
            # the operands of a conjunction / disjunction in the order of their text (the whole chain)
            parts = _flat_chain(n, op)
            key = [src(strip(p_)).replace(" ", "") for p_ in parts]
            order = sorted(range(len(parts)), key=lambda i_: key[i_])
            if order != list(range(len(parts))):
                ps = [parts[i_] for i_ in order]
                cur = ps[0]
                for p_ in ps[1:]:
                    cur = {"k": "binary", "op": op, "l": cur, "r": p_, "ln": n.get("ln", 0)}
                n.clear()
                n.update(cur)
        elif op in ("==", "!=") and not _is_literalish(n["l"]) and not _is_literalish(n["r"]):
            if src(strip(n["l"])).replace(" ", "") > src(strip(n["r"])).replace(" ", ""):
                n["l"], n["r"] = n["r"], n["l"]
        elif op in (">", ">="):
            n["l"], n["r"], n["op"] = n["r"], n["l"], _FLIP[op]         # only `<` and `<=`
    elif k == "unary" and n.get("op") == "!":
        inner = n["e"]
        while isinstance(inner, dict) and inner.get("k") == "paren":
            inner = inner["e"]
        if isinstance(inner, dict) and inner.get("k") == "binary" and inner["op"] in ("&&", "||"):
            # De Morgan: the negation goes to the operands
            parts = [_negate(p_) for p_ in _flat_chain(inner, inner["op"])]
            op2 = "||" if inner["op"] == "&&" else "&&"
            cur = parts[0]
            for p_ in parts[1:]:
                cur = {"k": "binary", "op": op2, "l": cur, "r": p_, "ln": n.get("ln", 0)}
            n.clear()
            n.update(cur)
            for p_ in parts:
                if isinstance(p_, dict) and p_.get("k") == "unary":
                    _norm_node(p_)
            _norm_node(n)
            return
        if isinstance(inner, dict) and ((inner.get("k") == "binary" and inner["op"] in ("==", "!=")) or
                                        (inner.get("k") == "mcall" and inner["m"] in _OPP_M and not inner["args"]) or
                                        (inner.get("k") == "unary" and inner.get("op") == "!")):
            neg = _negate(inner)
            n.clear()
            n.update(neg)
    elif k == "if" and n.get("else") is not None and isinstance(n.get("c"), dict) and n["c"].get("k") != "let":
        c = n["c"]
        while isinstance(c, dict) and c.get("k") == "paren":
            c = c["e"]
        neg_form = isinstance(c, dict) and ((c.get("k") == "unary" and c.get("op") == "!") or (c.get("k") == "binary" and c["op"] in ("!=", "<=")) or
                                            (c.get("k") == "mcall" and c["m"] in ("is_none", "is_err") and not c["args"]))
        els = n["else"]

        def neg_atom(a_):
            a_ = strip(a_)
            while isinstance(a_, dict) and a_.get("k") == "paren":
                a_ = strip(a_["e"])
            return isinstance(a_, dict) and ((a_.get("k") == "unary" and a_.get("op") == "!") or (a_.get("k") == "binary" and a_["op"] == "!=") or
                                             (a_.get("k") == "mcall" and a_["m"] in ("is_none", "is_err") and not a_["args"]))
        if not neg_form and isinstance(c, dict) and c.get("k") == "binary" and c["op"] in ("&&", "||") and isinstance(els, dict) and els.get("k") == "block":
            parts = _flat_chain(c, c["op"])
            if len(parts) >= 2 and all(neg_atom(p_) for p_ in parts):
                # a chain of negative conditions only: `!a && b != c` with an else is `a || b == c` with the branches swapped
                op2 = "||" if c["op"] == "&&" else "&&"
                cur = None
                for p_ in parts:
                    q_ = strip(p_)
                    while isinstance(q_, dict) and q_.get("k") == "paren":
                        q_ = strip(q_["e"])
                    q_ = _negate(q_)
                    cur = q_ if cur is None else {"k": "binary", "op": op2, "l": cur, "r": q_, "ln": n.get("ln", 0)}
                _norm_node(cur)
                n["c"] = cur
                n["then"], n["else"] = els, n["then"]
                return
        if neg_form and isinstance(els, dict) and els.get("k") == "block":       # not an `else if` chain
            if c.get("k") == "binary" and c["op"] == "<=":
                n["c"] = dict(c, op="<", l=c["r"], r=c["l"])                      # !(a <= b)  =  b < a
            else:
                n["c"] = _negate(c)
            n["then"], n["else"] = els, n["then"]
    elif k == "mcall" and n["m"] == "to_string" and not n["args"] and isinstance(n.get("recv"), dict) and (
            (n["recv"].get("k") == "lit" and n["recv"].get("t") == "str") or
            (n["recv"].get("k") == "path" and n["recv"]["p"].split("::")[-1].isupper()) or
            (n["recv"].get("k") == "mcall" and n["recv"]["m"] in ("trim", "trim_end", "trim_start", "as_str", "trim_matches", "trim_start_matches", "trim_end_matches"))):
        # `x.to_string()` on a `&str` (a literal, a constant, the result of `trim..` / `as_str`) is `String::from(x)`
        new = {"k": "call", "f": {"k": "path", "p": "String::from", "g": "", "ln": n.get("ln", 0)}, "args": [n["recv"]], "ln": n.get("ln", 0)}
        n.clear()
        n.update(new)
    elif k == "match" and len(n.get("arms", [])) == 2 and all(a.get("guard") is None for a in n["arms"]) and \
            all(isinstance(strip(a["body"]), dict) and strip(a["body"]).get("k") == "lit" and strip(a["body"]).get("t") == "bool" for a in n["arms"]) and \
            n["arms"][1]["pat"].get("k") == "pwild" and strip(n["arms"][0]["body"]).get("v") in (True, "true") and strip(n["arms"][1]["body"]).get("v") in (False, "false") and \
            ((n["arms"][0]["pat"].get("k") == "ptstruct" and n["arms"][0]["pat"].get("p") in ("Some", "Ok", "Err") and len(n["arms"][0]["pat"].get("elems", [])) == 1 and
              n["arms"][0]["pat"]["elems"][0].get("k") == "pwild") or
             (n["arms"][0]["pat"].get("k") in ("ppath", "pident") and (n["arms"][0]["pat"].get("p") or n["arms"][0]["pat"].get("name")) == "None")):
        # `matches!(x, Some(_))` (expanded) is `x.is_some()`, `matches!(x, None)` is `x.is_none()`
        p0 = n["arms"][0]["pat"]
        m_ = {"Some": "is_some", "Ok": "is_ok", "Err": "is_err"}.get(p0.get("p"), "is_none") if p0.get("k") == "ptstruct" else "is_none"
        recv = n["e"]
        while isinstance(recv, dict) and recv.get("k") in ("ref", "paren"):
            recv = recv["e"]
        new = {"k": "mcall", "recv": recv, "m": m_, "args": [], "tf": "", "ln": n.get("ln", 0)}
        n.clear()
        n.update(new)
    elif k == "match" and len(n.get("arms", [])) == 2 and all(a.get("guard") is None for a in n["arms"]):
        a0, a1 = n["arms"]
        def is_some(p):
            # `Some(<binding>)` only: `Some('=')` with `_` is a test for one value, not the Some/None alternative
            return p.get("k") == "ptstruct" and p.get("p") in ("Some", "Option::Some", "Ok", "Result::Ok") and len(p.get("elems", [])) == 1 and \
                all(q.get("k") in ("pident", "pwild", "ptuple", "pref") for q in walk(p["elems"][0]) if isinstance(q, dict) and q.get("k", "").startswith("p"))
        def is_none(p):
            return (p.get("k") in ("ppath", "pident") and (p.get("p") or p.get("name")) in ("None", "Option::None")) or p.get("k") == "pwild" or \
                (p.get("k") == "ptstruct" and p.get("p") in ("Err", "Result::Err") and len(p.get("elems", [])) == 1 and p["elems"][0].get("k") == "pwild")
        def is_true(p):
            return p.get("k") == "plit" and p["e"].get("t") == "bool" and p["e"].get("v") in (True, "true")
        def is_false(p):
            return (p.get("k") == "plit" and p["e"].get("t") == "bool" and p["e"].get("v") in (False, "false")) or p.get("k") == "pwild"
        def blk(b):
            return b if isinstance(b, dict) and b.get("k") == "block" else {"k": "block", "stmts": [{"k": "expr", "e": b, "semi": False, "ln": (b or {}).get("ln", 0)}], "ln": (b or {}).get("ln", 0)}
        some, none = (a0, a1) if is_some(a0["pat"]) and is_none(a1["pat"]) else ((a1, a0) if is_some(a1["pat"]) and is_none(a0["pat"]) and a0["pat"].get("k") != "pwild" else (None, None))
        if some is not None:
            new = {"k": "if", "c": {"k": "let", "pat": some["pat"], "e": n["e"], "ln": n.get("ln", 0)}, "then": blk(some["body"]), "else": blk(none["body"]), "ln": n.get("ln", 0)}
            n.clear()
            n.update(new)
        else:
            t, f = (a0, a1) if is_true(a0["pat"]) and is_false(a1["pat"]) else ((a1, a0) if is_true(a1["pat"]) and is_false(a0["pat"]) and a0["pat"].get("k") != "pwild" else (None, None))
            if t is not None:
                new = {"k": "if", "c": n["e"], "then": blk(t["body"]), "else": blk(f["body"]), "ln": n.get("ln", 0)}
                n.clear()
                n.update(new)



def cond_atoms(e, op):
    """the operands of a (possibly nested, parenthesised) `&&` / `||` chain as order-free keys: an equality is keyed by its two sides as a
    set, anything else by its text - so that `a == b || c` and `c || b == a` give the same set"""
    out = set()
    for part in _flat_chain(strip(e), op):
        q = strip(part)
        while isinstance(q, dict) and q.get("k") == "paren":
            q = strip(q["e"])
        if isinstance(q, dict) and q.get("k") == "binary" and q["op"] in ("==", "!="):
            out.add((q["op"], frozenset({src(strip(q["l"])).replace(" ", ""), src(strip(q["r"])).replace(" ", "")})))
        else:
            out.add(src(q).replace(" ", ""))
    return out

def normalise_logic(syn):
    """bring the bodies of all functions into one spelling (see above); -> number of nodes rewritten"""
    if os.environ.get("VERIF_NO_NORMALISE"):
        return 0
    cnt = 0
    for f in syn.fns:
        if not f.get("body"):
            continue
        nodes = list(walk(f["body"]))
        for n in reversed(nodes):           # children before parents
            before = (n.get("k"), n.get("op"), id(n.get("l")), id(n.get("then")), n.get("m"))
            _norm_node(n)
            if before != (n.get("k"), n.get("op"), id(n.get("l")), id(n.get("then")), n.get("m")):
                cnt += 1
    return cnt


# ------------------------------------------------------------------------------------------------------------------------
# Renamed locals.  Rules quote local names of today's tree in conditions, keys and messages.  A function whose parameters, `let`s,
# pattern bindings and closure parameters were merely renamed is the same function: its tree with every locally bound name replaced by
# the number of its first occurrence (`v0`, `v1`, ..) is identical to that of the pinned tree - and only then (using `right` where `left`
# was used changes that form).  For such a function the pinned names are put back on loading (tables/local_names.json holds, per
# function, the hash of that form and the names in order of first occurrence).
def _alpha_form(fn):
    """(hash of the tree with every binding occurrence numbered in source order and every use replaced by the number of the latest
    binding of its name, [name of each binding, by number], [(node, key, number) that carry a name])"""
    import hashlib
    bound = set()
    roots = [[i_.get("pat") for i_ in fn["sig"]["inputs"]], fn["body"]]
    for root in roots:
        for n in walk(root):
            if n.get("k") == "pident":
                bound.add(n["name"])
    latest, names, carriers = {}, [], []
    h = hashlib.sha256()
    PRI = {"e": -1, "init": -1, "iter": -1, "c": -1, "recv": -1, "l": -1, "f": -1, "pat": 1, "params": 1, "guard": 2, "body": 3, "then": 3, "else": 3}

    def visit(n):
        if isinstance(n, list):
            h.update(b"[")
            for x in n:
                visit(x)
            h.update(b"]")
            return
        if not isinstance(n, dict):
            h.update(repr(n).encode())
            return
        k = n.get("k")
        name_key = "name" if k == "pident" else ("p" if k == "path" and "::" not in n.get("p", "::") and n.get("p") in bound else None)
        h.update(b"{")
        for kk in sorted(n, key=lambda x_: (PRI.get(x_, 0), x_)):       # what is evaluated before a binding comes before it, its scope after it
            if kk == "ln":
                continue
            h.update(kk.encode())
            if kk == name_key:
                nm = n[kk]
                if k == "pident":
                    latest[nm] = len(names)
                    names.append(nm)
                num = latest.get(nm)
                if num is None:                                         # used before any binding was seen (cannot happen in Rust; keep the name)
                    h.update(nm.encode())
                else:
                    h.update(f"v{num}".encode())
                    carriers.append((n, kk, num))
            else:
                visit(n[kk])
        h.update(b"}")
    for root in roots:
        visit(root)
    return h.hexdigest()[:24], names, carriers


def _local_names_key(syn, f):
    """the qualified name; for a name that several functions share (the impls of one trait method for several type arguments) with the
    trait and the types of the signature appended"""
    cnt = syn.__dict__.get("_qual_count")
    if cnt is None:
        cnt = Counter(g.get("qual") for g in syn.fns if g.get("qual") and g.get("body"))
        syn.__dict__["_qual_count"] = cnt
    q = f.get("qual") or ""
    if cnt.get(q, 0) <= 1:
        return q
    return q + "|" + re.sub(r"\s+", "", str(f.get("impl_trait") or "")) + "|" + _sig_key(f)


def restore_local_names(syn):
    """-> {fn qual: {current name: pinned name}} for the functions that differ from the pinned tree by the names of their locals only"""
    if os.environ.get("VERIF_NO_NORMALISE"):
        return {}
    try:
        table = load_table("local_names.json")["fns"]
    except Exception:
        return {}
    done = {}
    for f in syn.fns:
        ent = table.get(_local_names_key(syn, f))
        if not ent or not f.get("body"):
            continue
        hsh, names, carriers = _alpha_form(f)
        if hsh != ent["h"] or names == ent["n"] or len(names) != len(ent["n"]):
            continue
        for node, key, num in carriers:
            node[key] = ent["n"][num]
        done[f["qual"]] = {a: b for a, b in zip(names, ent["n"]) if a != b}
    return done


# Renamed private functions.  Per module (and impl type) the private functions of the pinned tree are listed in source order with the
# types of their signatures (tables/private_fns.json).  When the current tree has, for a module, the same number of private functions
# with the same signatures in the same order and some names differ - and the new names are not names of the pinned list - the functions
# were renamed: the pinned names are put back in the syntactic facts (definitions and calls within the crate) and, as path prefixes, in
# the MIR facts, so that anchors and review tables keep finding them.  Anything else (a helper added, removed, reordered, a signature
# changed) leaves the names as they are.
def _sig_key(f):
    tys = [re.sub(r"\s+", "", str(i_.get("ty", ""))) for i_ in f["sig"]["inputs"]]
    return "(" + ",".join(tys) + ")->" + re.sub(r"\s+", "", str(f["sig"].get("ret", "")))


def _private_groups(syn):
    groups = defaultdict(list)
    for f in syn.fns:
        if f.get("vis", "") == "" and f.get("qual") and not f.get("impl_trait") and f.get("body") is not None and "test" not in f["mod"]:
            groups[f["mod"] + "|" + (f.get("impl_of") or "").strip()].append(f)
    for g in groups.values():
        g.sort(key=lambda f_: f_.get("ln", 0))
    return groups


def restore_private_fn_names(syn):
    """-> [(module, impl type or '', current name, pinned name)]"""
    if os.environ.get("VERIF_NO_NORMALISE"):
        return []
    try:
        table = load_table("private_fns.json")["groups"]
    except Exception:
        return []
    out = []
    for key, fs in _private_groups(syn).items():
        pinned = table.get(key)
        if not pinned or len(pinned) != len(fs):
            continue
        if [_sig_key(f) for f in fs] != [p_["sig"] for p_ in pinned]:
            continue
        pinned_names = {p_["name"] for p_ in pinned}
        cur_names = {f["name"] for f in fs}
        pairs = [(f, p_["name"]) for f, p_ in zip(fs, pinned) if f["name"] != p_["name"]]
        if not pairs or any(f["name"] in pinned_names or old in cur_names for f, old in pairs):
            continue        # a permutation of known names is a reordering, not a renaming
        mod_, impl_ = key.split("|")
        for f, old in pairs:
            out.append((mod_, impl_, f["name"], old))
    if not out:
        return out
    by_mod = defaultdict(dict)
    for mod_, impl_, new, old in out:
        by_mod[mod_][new] = (old, impl_)
    top = {m_.split("::")[0] for m_ in by_mod}
    for f in syn.fns:
        ren = None
        for m_, r_ in by_mod.items():
            if f["mod"] == m_ or f["mod"].startswith(m_ + "::"):
                ren = r_ if ren is None else {**ren, **r_}
        if ren is None:
            continue
        if f["mod"] in by_mod and f["name"] in by_mod[f["mod"]] and (f.get("impl_of") or "").strip() == by_mod[f["mod"]][f["name"]][1] and f.get("vis", "") == "":
            old = by_mod[f["mod"]][f["name"]][0]
            f["qual"] = f["qual"][:len(f["qual"]) - len(f["name"])] + old
            f["name"] = old
        if not f.get("body"):
            continue
        for n in walk(f["body"]):
            if n.get("k") == "path":
                last = n["p"].split("::")[-1]
                if last in ren and (("::" not in n["p"] and not ren[last][1]) or ("::" in n["p"] and n["p"].split("::")[-2] in ("Self", "self", "super", ren[last][1] or "\0"))):
                    n["p"] = n["p"][:len(n["p"]) - len(last)] + ren[last][0]
            elif n.get("k") == "mcall" and n["m"] in ren and ren[n["m"]][1]:
                n["m"] = ren[n["m"]][0]
    return out


# Renamed struct fields (same idea as for private functions): per struct of the pinned tree the fields in order with their types
# (tables/struct_fields.json).  Same number of fields, same types in the same order, some names unknown to the pinned list and to every
# other struct: the fields were renamed; the pinned names are put back in field accesses, struct literals and struct patterns of the
# functions below the struct's module (a private field cannot be named anywhere else) and in the field projections of the MIR facts.
def restore_field_names(syn):
    """-> [(struct qual, current name, pinned name)]"""
    if os.environ.get("VERIF_NO_NORMALISE"):
        return []
    try:
        table = load_table("struct_fields.json")["structs"]
    except Exception:
        return []
    all_names = set()
    for q, st in syn.structs.items():
        if "::" in q:
            all_names |= {n_ for n_, _ in st["fields"]}
    for fl in table.values():
        all_names |= {n_ for n_, _ in fl}
    out = []
    for q, st in syn.structs.items():
        if "::" not in q or q not in table:
            continue
        pinned, cur = table[q], st["fields"]
        if len(pinned) != len(cur) or [re.sub(r"\s+", "", t_) for _, t_ in pinned] != [re.sub(r"\s+", "", t_) for _, t_ in cur]:
            continue
        pinned_names = {n_ for n_, _ in pinned}
        pairs = [(c_[0], p_[0]) for c_, p_ in zip(cur, pinned) if c_[0] != p_[0]]
        if not pairs or any(new in pinned_names for new, _ in pairs):
            continue
        # the new name must not be a field name of any other struct (an access `.name` does not say of which struct)
        others = set()
        for q2, st2 in syn.structs.items():
            if "::" in q2 and q2 != q:
                others |= {n_ for n_, _ in st2["fields"]}
        if any(new in others for new, _ in pairs):
            continue
        for new, old in pairs:
            out.append((q, new, old))
    if not out:
        return out
    by_mod = defaultdict(dict)
    for q, new, old in out:
        by_mod[q.rsplit("::", 1)[0]][new] = old
        st = syn.structs[q]
        st["fields"] = [[dict(by_mod[q.rsplit("::", 1)[0]]).get(n_, n_), t_] for n_, t_ in st["fields"]]
    for f in syn.fns:
        ren = {}
        for m_, r_ in by_mod.items():
            if f["mod"] == m_ or f["mod"].startswith(m_ + "::"):
                ren.update(r_)
        if not ren or not f.get("body"):
            continue
        for n in walk(f["body"]):
            k = n.get("k")
            if k == "field" and n.get("name") in ren:
                n["name"] = ren[n["name"]]
            elif k in ("struct", "pstruct") and isinstance(n.get("fields"), list):
                for fld in n["fields"]:
                    if isinstance(fld, list) and fld and fld[0] in ren:
                        fld[0] = ren[fld[0]]
    return out


# Renamed constants (the same positional scheme): per module the `const` items of the pinned tree in order with their types
# (tables/consts.json).  Same number, same types in the same order, some names that the pinned tree does not have anywhere: renamed.
def restore_const_names(syn):
    """-> [(module, current name, pinned name)]"""
    if os.environ.get("VERIF_NO_NORMALISE"):
        return []
    try:
        table = load_table("consts.json")["mods"]
    except Exception:
        return []
    by_mod = defaultdict(list)
    for k_, c_ in syn.consts.items():
        if "::" in k_ and c_.get("k") == "const" and c_.get("mod") is not None and k_ == c_["mod"] + "::" + c_["name"]:
            by_mod[c_["mod"]].append(c_)
    pinned_all = {n_ for l_ in table.values() for n_, _ in l_}
    cur_all = Counter(c_["name"] for l_ in by_mod.values() for c_ in l_)
    out = []
    for mod_, cs in by_mod.items():
        cs.sort(key=lambda c_: c_.get("ln", 0))
        pinned = table.get(mod_)
        if not pinned or len(pinned) != len(cs) or [re.sub(r"\s+", "", t_) for _, t_ in pinned] != [re.sub(r"\s+", "", str(c_.get("ty", ""))) for c_ in cs]:
            continue
        pairs = [(c_, p_[0]) for c_, p_ in zip(cs, pinned) if c_["name"] != p_[0]]
        if not pairs or any(c_["name"] in pinned_all or cur_all[c_["name"]] != 1 or cur_all.get(old, 0) for c_, old in pairs):
            continue
        for c_, old in pairs:
            out.append((mod_, c_["name"], old))
    if not out:
        return out
    ren = {new: old for _, new, old in out}
    for mod_, new, old in out:
        c_ = syn.consts.pop(mod_ + "::" + new)
        if syn.consts.get(new) is c_:
            syn.consts.pop(new)
        c_["name"] = old
        syn.consts[mod_ + "::" + old] = c_
        syn.consts.setdefault(old, c_)
    roots = [f["body"] for f in syn.fns if f.get("body")] + [c_["e"] for c_ in syn.consts.values() if isinstance(c_.get("e"), dict)]
    for root in roots:
        for n in walk(root):
            if n.get("k") in ("path", "ppath") and isinstance(n.get("p"), str):
                last = n["p"].split("::")[-1]
                if last in ren:
                    n["p"] = n["p"][:len(n["p"]) - len(last)] + ren[last]
            elif n.get("k") == "pident" and n.get("name") in ren and n["name"].isupper():
                n["name"] = ren[n["name"]]          # a constant used as a pattern
    return out

class Syn:
    def __init__(self, path):
        with open(path) as fh:
            self.root = json.load(fh)
        self.fns = []          # every fn node (free, impl, trait default), with 'qual' and 'key'
        self.enums = {}        # name -> node (by bare name; also by mod::name)
        self.structs = {}
        self.consts = {}
        self.impls = []
        self._index(self.root["items"], None)
        try:
            self.restored_consts = restore_const_names(self)
        except Exception:           # a device must never take the checks down with it
            self.restored_consts = []
        self.restored_fields = restore_field_names(self)
        self.restored_fns = restore_private_fn_names(self)
        self.restored_locals = restore_local_names(self)
        self.renamed_params = canonicalise_params(self)
        self.normalised_nodes = normalise_logic(self)

    def _index(self, items, impl):
        for it in items:
            k = it.get("k")
            if k == "mod":
                self._index(it["items"], None)
            elif k == "fn":
                self._add_fn(it)
            elif k == "impl":
                self.impls.append(it)
                derived = any("automatically_derived" in a for a in it.get("attrs", []))
                for sub in it["items"]:
                    if sub.get("k") == "fn":
                        sub["impl_trait"] = it.get("trait")
                        sub["derived"] = derived
                        self._add_fn(sub)
                    elif sub.get("k") == "const":
                        self.consts[it["mod"] + "::" + sub["name"]] = sub
                        self.consts.setdefault(sub["name"], sub)
            elif k == "trait":
                for sub in it["items"]:
                    if sub.get("k") == "fn" and sub.get("body"):
                        self._add_fn(sub)
            elif k == "enum":
                self.enums[it["mod"] + "::" + it["name"]] = it
                self.enums.setdefault(it["name"], it)
            elif k == "struct_item":
                self.structs[it["mod"] + "::" + it["name"]] = it
                self.structs.setdefault(it["name"], it)
            elif k == "const":
                self.consts[it["mod"] + "::" + it["name"]] = it
                self.consts.setdefault(it["name"], it)

    def _add_fn(self, f):
        f["qual"] = f["mod"] + "::" + ((f["impl_of"] + "::") if f.get("impl_of") else "") + f["name"]
        self.fns.append(f)
        # nested fns inside bodies (rare) are found by walk() when needed

    def find_fn(self, name, mod=None, impl_of=None, trait=None):
        out = []
        for f in self.fns:
            if f["name"] != name:
                continue
            if mod is not None and not (f["mod"] == mod or f["mod"].endswith("::" + mod) or f["mod"].endswith(mod)):
                continue
            if impl_of is not None and (f.get("impl_of") or "") != impl_of and not re.fullmatch(impl_of, f.get("impl_of") or ""):
                continue
            if trait is not None and not re.search(trait, f.get("impl_trait") or f.get("trait") or ""):
                continue
            out.append(f)
        return out

    def one_fn(self, name, mod=None, impl_of=None, trait=None):
        r = self.find_fn(name, mod, impl_of, trait)
        if len(r) != 1:
            raise AnchorError(f"expected exactly one syntactic fn {name} (mod={mod}, impl_of={impl_of}, trait={trait}); found {[f['qual'] for f in r]}")
        return r[0]

    def enum_variants(self, name):
        e = self.enums.get(name)
        if e is None:
            raise AnchorError(f"enum {name} not found")
        return {v["name"]: v for v in e["variants"]}

    def const_str(self, name):
        c = self.consts.get(name)
        if c is None:
            return None
        e = c["e"]
        if e.get("k") == "lit" and e.get("t") == "str":
            return e["v"]
        return None


def walk(node):
    """pre-order walk over every dict node"""
    stack = [node]
    while stack:
        n = stack.pop()
        if isinstance(n, dict):
            yield n
            for v in reversed(list(n.values())):
                if isinstance(v, (dict, list)):
                    stack.append(v)
        elif isinstance(n, list):
            for v in reversed(n):
                if isinstance(v, (dict, list)):
                    stack.append(v)


def walk_no_closure(node):
    """walk that does not descend into closures or nested fns (for control-flow reasoning)"""
    stack = [node]
    first = True
    while stack:
        n = stack.pop()
        if isinstance(n, dict):
            if not first and n.get("k") in ("closure", "fn"):
                yield n
                continue
            first = False
            yield n
            for v in reversed(list(n.values())):
                if isinstance(v, (dict, list)):
                    stack.append(v)
        elif isinstance(n, list):
            for v in reversed(n):
                if isinstance(v, (dict, list)):
                    stack.append(v)


_TRANSPARENT_METHODS = {"clone", "as_ref", "deref", "as_str", "to_owned", "borrow", "as_mut", "as_slice", "iter", "cloned", "to_vec", "as_deref"}


def strip(e):
    """remove reference/deref/clone/Box::from/paren wrappers that do not change which value an expression denotes"""
    while isinstance(e, dict):
        k = e.get("k")
        if k == "ref":
            e = e["e"]
        elif k == "unary" and e["op"] == "*":
            e = e["e"]
        elif k == "mcall" and e["m"] in ("clone", "as_ref", "deref", "to_owned", "borrow", "as_mut", "as_deref") and not e["args"]:
            e = e["recv"]
        elif k == "call" and e["f"].get("k") == "path" and e["f"]["p"] in ("Box::from", "Box::new", "Some") and len(e["args"]) == 1 and e["f"]["p"] != "Some":
            e = e["args"][0]
        elif k == "block" and len(e["stmts"]) == 1 and e["stmts"][0].get("k") == "expr" and not e["stmts"][0]["semi"]:
            e = e["stmts"][0]["e"]
        else:
            break
    return e


def src(e, depth=0):
    """compact Rust-like rendering of an expression/pattern node (for messages and keys; not a parser input)"""
    if e is None:
        return "∅"
    if isinstance(e, list):
        return ", ".join(src(x, depth) for x in e)
    if not isinstance(e, dict):
        return str(e)
    if depth > 12:
        return "…"
    k = e.get("k")
    d = depth + 1
    if k == "lit":
        v = e["v"]
        if e["t"] == "str":
            return json.dumps(v, ensure_ascii=False)
        if e["t"] == "char":
            return "'" + str(v).replace("\n", "\\n").replace("\r", "\\r").replace("\t", "\\t") + "'"
        if e["t"] == "bool":
            return "true" if v else "false"
        return str(v)
    if k == "path":
        return e["p"]
    if k == "call":
        return f"{src(e['f'], d)}({src(e['args'], d)})"
    if k == "mcall":
        return f"{src(e['recv'], d)}.{e['m']}({src(e['args'], d)})"
    if k == "field":
        return f"{src(e['base'], d)}.{e['name']}"
    if k == "struct":
        fs = ", ".join(f"{n}: {src(v, d)}" for n, v in e["fields"])
        rest = f", ..{src(e['rest'], d)}" if e.get("rest") else ""
        return f"{e['p']} {{ {fs}{rest} }}"
    if k == "match":
        arms = "; ".join(f"{src(a['pat'], d)}{' if ' + src(a['guard'], d) if a.get('guard') else ''} => {src(a['body'], d)}" for a in e["arms"])
        return f"match {src(e['e'], d)} {{ {arms} }}"
    if k == "if":
        el = f" else {src(e['else'], d)}" if e.get("else") else ""
        return f"if {src(e['c'], d)} {src(e['then'], d)}{el}"
    if k == "let":
        return f"let {src(e['pat'], d)} = {src(e['e'], d)}"
    if k == "block":
        return "{ " + "; ".join(src(s, d) for s in e["stmts"]) + " }"
    if k == "local":
        return f"let {src(e['pat'], d)}" + (f" = {src(e['init'], d)}" if e.get("init") else "")
    if k == "expr":
        return src(e["e"], d) + (";" if e.get("semi") else "")
    if k == "closure":
        return f"|{src(e['params'], d)}| {src(e['body'], d)}"
    if k == "unary":
        return f"{e['op']}{src(e['e'], d)}"
    if k == "binary":
        return f"({src(e['l'], d)} {e['op']} {src(e['r'], d)})"
    if k == "ref":
        return ("&mut " if e["mut"] else "&") + src(e["e"], d)
    if k == "try":
        return src(e["e"], d) + "?"
    if k == "return":
        return "return " + src(e.get("e"), d) if e.get("e") else "return"
    if k == "break":
        return "break"
    if k == "continue":
        return "continue"
    if k == "for":
        return f"for {src(e['pat'], d)} in {src(e['iter'], d)} {src(e['body'], d)}"
    if k == "while":
        return f"while {src(e['c'], d)} {src(e['body'], d)}"
    if k == "loop":
        return f"loop {src(e['body'], d)}"
    if k == "tuple":
        return "(" + src(e["elems"], d) + ")"
    if k == "array":
        return "[" + src(e["elems"], d) + "]"
    if k == "repeat":
        return f"[{src(e['e'], d)}; {src(e['len'], d)}]"
    if k == "index":
        return f"{src(e['e'], d)}[{src(e['i'], d)}]"
    if k == "cast":
        return f"({src(e['e'], d)} as {e['ty']})"
    if k == "range":
        return f"{src(e.get('lo'), d) if e.get('lo') else ''}..{'=' if e.get('closed') else ''}{src(e.get('hi'), d) if e.get('hi') else ''}"
    if k == "assign":
        return f"{src(e['l'], d)} = {src(e['r'], d)}"
    if k == "macro":
        if "args" in e:
            return f"{e['name']}!({src(e['args'], d)})"
        return f"{e['name']}!({e.get('raw', '')})"
    if k == "unsafe":
        return "unsafe " + src(e["b"], d)
    # patterns
    if k == "pident":
        s = ("ref " if e.get("ref") else "") + ("mut " if e.get("mut") else "") + e["name"]
        if e.get("sub"):
            s += " @ " + src(e["sub"], d)
        return s
    if k == "pwild":
        return "_"
    if k == "ppath":
        return e["p"]
    if k == "ptstruct":
        return f"{e['p']}({src(e['elems'], d)})"
    if k == "pstruct":
        fs = ", ".join(f"{n}: {src(p, d)}" for n, p in e["fields"])
        return f"{e['p']} {{ {fs}{', ..' if e.get('rest') else ''} }}"
    if k == "ptuple":
        return "(" + src(e["elems"], d) + ")"
    if k == "por":
        return " | ".join(src(c, d) for c in e["cases"])
    if k == "plit":
        return src(e["e"], d)
    if k == "pref":
        return "&" + src(e["p"], d)
    if k == "prest":
        return ".."
    if k == "pslice":
        return "[" + src(e["elems"], d) + "]"
    if k == "ptype":
        return src(e["p"], d)
    if k == "prange":
        return f"{src(e.get('lo'), d)}..={src(e.get('hi'), d)}"
    if k in ("other", "pother"):
        return e.get("src", "?")
    return f"<{k}>"


def pat_alternatives(p):
    """flatten or-patterns: list of alternative patterns"""
    if p.get("k") == "por":
        out = []
        for c in p["cases"]:
            out.extend(pat_alternatives(c))
        return out
    if p.get("k") == "pref":
        return pat_alternatives(p["p"])
    if p.get("k") == "pident" and p.get("sub"):
        return pat_alternatives(p["sub"])
    return [p]


def pat_head(p):
    """the enum-variant (or struct) path a pattern alternative matches, or '_' / 'ident:<name>' / 'lit:<v>'"""
    k = p.get("k")
    if k in ("pstruct", "ptstruct", "ppath"):
        return p["p"]
    if k == "pwild":
        return "_"
    if k == "pident":
        return "ident:" + p["name"]
    if k == "plit":
        return "lit:" + src(p["e"])
    if k == "pref":
        return pat_head(p["p"])
    if k == "ptuple":
        return "tuple"
    return k


def pat_bindings(p):
    """names bound by a pattern -> the field path they bind, e.g. {'left': 'left'}"""
    out = {}
    for n in walk(p):
        if n.get("k") == "pident" and not (n["name"][:1].isupper()):
            out[n["name"]] = True
    return out


def tail_expr(block):
    """the value expression of a block (last statement without semicolon), else None"""
    if block is None:
        return None
    if block.get("k") != "block":
        return block
    if not block["stmts"]:
        return None
    last = block["stmts"][-1]
    if last.get("k") == "expr" and not last.get("semi"):
        return last["e"]
    return None


def format_args_of(e):
    """for a (possibly wrapped) `format!` expansion return (template string, [arg exprs]) or None.
    Expanded form: ::alloc::__export::must_use({ ::alloc::fmt::format(format_args!("..", a, b)) })  (nightly)
    """
    for n in walk(e):
        if n.get("k") == "macro" and n["name"] in ("format_args", "::core::format_args", "format_args_nl") and "args" in n:
            a = n["args"]
            if a and a[0].get("k") == "lit" and a[0].get("t") == "str":
                return a[0]["v"], a[1:]
    return None


def norm_template(t):
    """`{0} + {1:?}` -> `{} + {:?}` (the expansion numbers the placeholders)"""
    return re.sub(r"\{(\d+)(:[^}]*)?\}", lambda m: "{" + (m.group(2) or "") + "}", t)


def template_holes(t):
    """indices of the arguments in the order the placeholders appear"""
    return [int(m.group(1)) for m in re.finditer(r"\{(\d+)(?::[^}]*)?\}", t)]


def calls_in(node, names=None):
    """yield call / mcall nodes under node; names filters on last path segment or method name"""
    for n in walk(node):
        k = n.get("k")
        if k == "mcall":
            if names is None or n["m"] in names:
                yield n
        elif k == "call" and n["f"].get("k") == "path":
            last = n["f"]["p"].split("::")[-1]
            if names is None or last in names:
                yield n


def callee_name(n):
    if n.get("k") == "mcall":
        return n["m"]
    if n.get("k") == "call" and n["f"].get("k") == "path":
        return n["f"]["p"].split("::")[-1]
    return None


def idents_in(node):
    """set of single-segment path names (variables) mentioned in an expression"""
    out = set()
    for n in walk(node):
        if n.get("k") == "path" and "::" not in n["p"]:
            out.add(n["p"])
    return out


# --------------------------------------------------------------------------------------------
# Facts bundle
# --------------------------------------------------------------------------------------------

class Facts:
    def __init__(self, cache_dir):
        self.dir = cache_dir
        self._mir = None
        self._syn = None

    @property
    def mir(self):
        if self._mir is None:
            ren = []
            for mod_, impl_, new, old in getattr(self.syn, "restored_fns", []):
                # def-paths: `mod::new`, `mod::<impl mod::Type>::new` / `mod::Type::new`
                ren.append((re.compile(r"(" + re.escape(mod_) + r"::(?:[^\s\"',;()]*?::)?)" + re.escape(new) + r"(?![A-Za-z0-9_])"), r"\g<1>" + old))
            for q_, new, old in getattr(self.syn, "restored_fields", []):
                # field projections: `.3:<field>:<path of the struct>:..`
                ren.append((re.compile(r":" + re.escape(new) + r":(" + re.escape(q_) + r")(?![A-Za-z0-9_])"), ":" + old + r":\g<1>"))
            self._mir = Mir(os.path.join(self.dir, "mir.jsonl"), ren)
        return self._mir

    @property
    def syn(self):
        if self._syn is None:
            self._syn = Syn(os.path.join(self.dir, "syn.json"))
        return self._syn

    def repo_file(self, rel):
        with open(os.path.join(REPO, rel), encoding="utf-8", errors="replace") as fh:
            return fh.read()

    def loc_of(self, syn_fn):
        """file:line in /repo of a syntactic fn (syn line numbers refer to the expanded file, so ask MIR)"""
        name = syn_fn["name"]
        mod = syn_fn["mod"]
        cands = [b for b in self.mir.fns.values() if b.kind != "Closure" and b.path.split("::")[-1] == name]
        modfile = mod.replace("::", "/")
        best = [b for b in cands if modfile in b.file.replace(".rs", "").replace("/mod", "")]
        if len(best) >= 1:
            if len(best) > 1 and syn_fn.get("impl_of"):
                io = syn_fn["impl_of"].split("<")[0].strip()
                b2 = [b for b in best if io in b.path]
                if b2:
                    best = b2
            return best[0].loc
        return f"src/{modfile}.rs"


# --------------------------------------------------------------------------------------------
# Check / report / evidence
# --------------------------------------------------------------------------------------------

def load_known():
    p = os.path.join(VERIF, "known_findings.json")
    if not os.path.exists(p):
        return {"known": [], "fixed": []}
    with open(p) as fh:
        return json.load(fh)


class Check:
    def __init__(self, pid, tier, facts):
        self.pid = pid
        self.tier = tier
        self.facts = facts
        self.t0 = time.time()
        self.obligations = []   # dict(rule,key,ok,what,loc,detail)
        self.rules = {}         # rule id -> text
        self.counts = defaultdict(int)
        self.samples = []
        self.assumptions = []
        self.notes = []
        self.checker_errors = []
        self.selftest = None    # thorough tier: outcome of the committed must-fire changes on a scratch copy of this tree

    def rule(self, rid, text):
        self.rules[rid] = text

    def ob(self, rule, key, ok, what, loc=None, detail=None):
        """record one obligation; key identifies the instance semantically (never a line number)"""
        self.obligations.append({"rule": rule, "key": f"{rule}|{key}", "ok": bool(ok), "what": what, "loc": loc, "detail": detail})
        self.counts[rule] += 1
        return bool(ok)

    def floor(self, rule, n, minimum, what):
        """a rule that matches fewer instances than were confirmed by hand has gone blind: fail closed"""
        self.ob(rule, f"floor:{what}", n >= minimum, f"{what}: analysed {n} instance(s), floor {minimum}" + ("" if n >= minimum else " — the rule no longer sees the code it was written for"))

    def anchor_fail(self, rule, err):
        self.ob(rule, "anchor", False, f"anchor missing or outside the analysable fragment: {err}")

    def sample(self, s):
        if len(self.samples) < 40:
            self.samples.append(s)

    def assume(self, s):
        self.assumptions.append(s)

    def finish(self):
        known = load_known()
        # an entry is listed under the property whose rule found it; `also` names the properties that reuse that rule
        known_keys = {k["key"]: k for k in known.get("known", []) if k["property"] == self.pid or self.pid in k.get("also", [])}
        viol = [o for o in self.obligations if not o["ok"]]
        new = [o for o in viol if o["key"] not in known_keys]
        kf = [o for o in viol if o["key"] in known_keys]
        replay_root = os.environ.get("VERIF_REPLAY_DIR") or os.path.join(VERIF, "replay")
        os.makedirs(os.path.join(replay_root, self.pid), exist_ok=True)
        for o in kf:
            print(f"KNOWN-FINDING: property={self.pid} {o['key']}: {known_keys[o['key']].get('what', o['what'])}")
        for o in new:
            safe = re.sub(r"[^A-Za-z0-9_.-]+", "_", o["key"])[:120]
            rp = os.path.join(replay_root, self.pid, safe + ".json")
            with open(rp, "w") as fh:
                json.dump({"property": self.pid, "rule": o["rule"], "rule_text": self.rules.get(o["rule"], ""), "instance": o["key"],
                           "what": o["what"], "location": o["loc"], "detail": o["detail"]}, fh, indent=1)
            print(f"VIOLATION property={self.pid} replay={rp}")
            print(f"  rule {o['rule']}: {o['what']}" + (f"  [{o['loc']}]" if o["loc"] else ""))
        wall = time.time() - self.t0
        n_ob = len(self.obligations)
        n_ok = sum(1 for o in self.obligations if o["ok"])
        distinct = len({o["key"] for o in self.obligations})
        samples = self.samples or [{"rule": o["rule"], "instance": o["key"], "what": o["what"], "loc": o["loc"]} for o in self.obligations[:12]]
        ev = {
            "property_id": self.pid,
            "tier": self.tier,
            "seed": int(os.environ.get("VERIF_SEED", "0") or 0),
            "level": "other",
            "coverage": {
                "explanation": "static analysis of /repo's current source (resolved MIR + macro-expanded syntax); nothing is executed. "
                               "Each obligation is one rule instance (a call site, match arm, template hole, table row, CFG path query) "
                               "computed from the tree on this run. " + " ".join(self.notes),
                "obligations": n_ob,
                "discharged": n_ok,
                "known_findings": len(kf),
                "evaluations": n_ob,
                "distinct_nontrivial": distinct,
                "rule": "instances are enumerated from the source by the rule itself (every enum variant, call site, template hole, "
                        "CFG path class); distinct = distinct semantic instance keys; all are non-trivial in that each is a separate "
                        "necessary condition of the property",
                "rules": self.rules,
                "per_rule_instances": dict(self.counts),
                "samples": samples[:40],
                "exhaustive": True,
                **({"selftest": {"what": "committed breaking changes applied to a scratch copy of this tree; each must be reported (thorough tier only; does not affect the verdict)",
                             "applied": sum(1 for x in self.selftest if x["applied"]), "fired": sum(1 for x in self.selftest if x["fired"]),
                             "cases": self.selftest}} if self.selftest is not None else {}),
                "checker_cmd": f"./check {self.pid} --tier {self.tier}",
                "trusted_base": ["rustc MIR construction and callee resolution", "syn parser", "-Zunpretty=expanded", "reviewed tables under /verif/tables"],
            },
            "assumptions": self.assumptions,
            "wall_s": round(wall, 2),
            "violations": len(new),
        }
        # the mutant tools (tools/mut.sh, tools/selftest.sh) analyse other trees: they must not overwrite the evidence of /repo
        evdir = os.environ.get("VERIF_EVIDENCE_DIR") or os.path.join(VERIF, "evidence")
        os.makedirs(evdir, exist_ok=True)
        with open(os.path.join(evdir, self.pid + ".json"), "w") as fh:
            json.dump(ev, fh, indent=1, ensure_ascii=False)
        status = "OK" if not new else "FAIL"
        print(f"{self.pid} {status}: {n_ok}/{n_ob} obligations discharged, {len(kf)} known finding(s), {len(new)} violation(s); "
              f"rules: " + ", ".join(f"{r}={c}" for r, c in sorted(self.counts.items())) + f"; {wall:.1f}s")
        return 1 if new else 0


def load_table(name):
    with open(os.path.join(VERIF, "tables", name)) as fh:
        return json.load(fh)


# --------------------------------------------------------------------------------------------
# Lexical scoping: resolve every variable mention in a fn body to its binding (Rust shadowing is idiomatic here)
# --------------------------------------------------------------------------------------------

class Binding:
    __slots__ = ("name", "kind", "node", "init", "idx")

    def __init__(self, name, kind, node, init, idx):
        self.name = name      # variable name
        self.kind = kind      # param | let | arm | iflet | closure | for
        self.node = node      # the pident node
        self.init = init      # for let/iflet: the initialiser expression; for arm: the scrutinee; else None
        self.idx = idx        # ordinal among bindings of the same name in this fn (stable key)

    def __repr__(self):
        return f"{self.name}#{self.idx}({self.kind})"


class Scopes:
    """resolve(path_node) -> Binding or None (None: not a local variable: a const, fn, unit struct..)"""

    def __init__(self, fn):
        self.fn = fn
        self.use = {}        # id(path node) -> Binding
        self.bindings = []   # all bindings in source order
        self.by_pident = {}  # id(pident node) -> Binding
        self._count = defaultdict(int)
        env = {}
        for inp in fn["sig"]["inputs"]:
            env = self._bind_pat(inp["pat"], env, "param", None)
        if fn.get("body"):
            self._expr(fn["body"], env)

    def _new(self, name, kind, node, init):
        b = Binding(name, kind, node, init, self._count[name])
        self._count[name] += 1
        self.bindings.append(b)
        self.by_pident[id(node)] = b
        return b

    def _bind_pat(self, p, env, kind, init):
        env = dict(env)
        # `let (a, b) = (x, y);` binds a to x and b to y
        p0, i0 = p, strip(init) if isinstance(init, dict) else init
        if kind == "let" and isinstance(p0, dict) and p0.get("k") == "ptuple" and isinstance(i0, dict) and i0.get("k") == "tuple" and \
                len(p0.get("elems", [])) == len(i0.get("elems", [])) and all(isinstance(x, dict) for x in p0["elems"]):
            for pe, ie in zip(p0["elems"], i0["elems"]):
                env = self._bind_pat(pe, env, kind, ie)
            return env
        for n in walk(p):
            if n.get("k") == "pident":
                # an uppercase single identifier pattern is a constant/unit variant, not a binding
                if n["name"][:1].isupper() and not n.get("sub"):
                    continue
                env[n["name"]] = self._new(n["name"], kind, n, init)
        return env

    def _expr(self, e, env):
        if e is None:
            return
        if isinstance(e, list):
            for x in e:
                self._expr(x, env)
            return
        if not isinstance(e, dict):
            return
        k = e.get("k")
        if k == "path":
            if "::" not in e["p"] and e["p"] in env:
                self.use[id(e)] = env[e["p"]]
            return
        if k == "block":
            cur = env
            for s in e["stmts"]:
                sk = s.get("k")
                if sk == "local":
                    self._expr(s.get("init"), cur)
                    if s.get("else"):
                        self._expr(s["else"], cur)
                    cur = self._bind_pat(s["pat"], cur, "let", s.get("init"))
                elif sk == "expr":
                    self._expr(s["e"], cur)
                elif sk == "fn":
                    pass  # nested fn items: separate scope, analysed on their own if needed
                else:
                    self._expr(s, cur)
            return
        if k == "match":
            self._expr(e["e"], env)
            for a in e["arms"]:
                aenv = self._bind_pat(a["pat"], env, "arm", e["e"])
                if a.get("guard"):
                    self._expr(a["guard"], aenv)
                self._expr(a["body"], aenv)
            return
        if k == "if":
            c = e["c"]
            then_env = self._cond(c, env)
            self._expr(e["then"], then_env)
            self._expr(e.get("else"), env)
            return
        if k == "while":
            then_env = self._cond(e["c"], env)
            self._expr(e["body"], then_env)
            return
        if k == "closure":
            cenv = env
            for p in e["params"]:
                cenv = self._bind_pat(p, cenv, "closure", None)
            self._expr(e["body"], cenv)
            return
        if k == "for":
            self._expr(e["iter"], env)
            fenv = self._bind_pat(e["pat"], env, "for", e["iter"])
            self._expr(e["body"], fenv)
            return
        if k == "let":
            # bare let expression outside an if-condition (rare): treat bindings as local to nothing
            self._expr(e["e"], env)
            return
        for key, v in e.items():
            if key in ("pat", "params"):
                continue
            if isinstance(v, (dict, list)):
                self._expr(v, env)

    def _cond(self, c, env):
        """environment for the then-branch of `if c` (handles `let` chains joined by &&)"""
        if c.get("k") == "let":
            self._expr(c["e"], env)
            return self._bind_pat(c["pat"], env, "iflet", c["e"])
        if c.get("k") == "binary" and c["op"] == "&&":
            e1 = self._cond(c["l"], env)
            return self._cond(c["r"], e1)
        self._expr(c, env)
        return env

    def resolve(self, path_node):
        return self.use.get(id(path_node))

    def binding_of_pident(self, pident):
        return self.by_pident.get(id(pident))


# --------------------------------------------------------------------------------------------
# Boolean formulas (A11): a syntactic boolean expression as a function over its atoms
# --------------------------------------------------------------------------------------------

def bool_formula(e, canon=None):
    """-> (evaluate(valuation dict) -> bool, sorted atom texts). Atoms are the maximal sub-expressions that are not &&, ||, !,
    if/else. `canon(text) -> (text, negated)` may map an atom onto (the negation of) another one, e.g. `xs.all(|b| !*b)` onto
    not `xs.any(|b| *b)`."""
    atoms = set()

    def build(x):
        x = strip(x)
        k = x.get("k")
        if k == "if" and x.get("else") is not None and x["c"].get("k") != "let":
            c, t, f = build(x["c"]), build(tail_expr(x["then"]) or x["then"]), build(tail_expr(x["else"]) or x["else"])
            return lambda v: t(v) if c(v) else f(v)
        if k == "binary" and x["op"] in ("&&", "||"):
            l, r = build(x["l"]), build(x["r"])
            if x["op"] == "&&":
                return lambda v: l(v) and r(v)
            return lambda v: l(v) or r(v)
        if k == "unary" and x["op"] == "!":
            inner = build(x["e"])
            return lambda v: not inner(v)
        if k == "lit" and x.get("t") == "bool":
            val = bool(x["v"])
            return lambda v: val
        text = src(x).replace(" ", "")
        # `a != b` is the negation of the atom `a == b`
        if k == "binary" and x["op"] == "!=":
            text = "(" + src(x["l"]).replace(" ", "") + "==" + src(x["r"]).replace(" ", "") + ")"
            atoms.add(text)
            return lambda v, t=text: not v[t]
        if canon is not None:
            text, neg = canon(text)
            atoms.add(text)
            if neg:
                return lambda v, t=text: not v[t]
        atoms.add(text)
        return lambda v, t=text: v[t]

    f = build(e)
    return f, sorted(atoms)


def equivalent(f, atoms, g):
    """f (built by bool_formula over `atoms`) equals the python predicate g(valuation) on every valuation -> (ok, counter-example)"""
    import itertools
    for bits in itertools.product([False, True], repeat=len(atoms)):
        v = dict(zip(atoms, bits))
        if bool(f(v)) != bool(g(v)):
            return False, v
    return True, None


def implies(f, atoms, required_true):
    """for every valuation: f => all atoms in required_true hold. Returns (ok, counter-example valuation)"""
    import itertools
    for bits in itertools.product([False, True], repeat=len(atoms)):
        v = dict(zip(atoms, bits))
        if f(v) and not all(v.get(a, False) for a in required_true):
            return False, v
    return True, None


def decision_function(fn_body, result_wrappers=("Ok",)):
    """A11: a small pure function `stmts..; tail` where stmts are `if C { return Ok(B) } [else if ..]` and boolean `let`s and
    the tail is `Ok(E)` / `E`  ->  (evaluate(valuation) -> bool, atoms).  Raises AnchorError outside the fragment."""
    lets = {}
    atoms = set()

    def unwrap(e):
        e = strip(e)
        while e.get("k") == "call" and e["f"].get("k") == "path" and e["f"]["p"] in result_wrappers and len(e["args"]) == 1:
            e = strip(e["args"][0])
        return e

    def formula(e):
        e = unwrap(e)
        k = e.get("k")
        if k == "binary" and e["op"] in ("&&", "||"):
            l, r = formula(e["l"]), formula(e["r"])
            return (lambda v: l(v) and r(v)) if e["op"] == "&&" else (lambda v: l(v) or r(v))
        if k == "unary" and e["op"] == "!":
            i = formula(e["e"])
            return lambda v: not i(v)
        if k == "lit" and e.get("t") == "bool":
            b = bool(e["v"])
            return lambda v: b
        if k == "path" and e["p"] in lets:
            return lets[e["p"]]
        if k == "try":
            return formula(e["e"])
        if k == "if":
            c = formula(e["c"])
            t = formula(tail_expr(e["then"]))
            el = formula(tail_expr(e["else"]) if e["else"].get("k") == "block" else e["else"]) if e.get("else") else (lambda v: False)
            return lambda v: t(v) if c(v) else el(v)
        text = src(e).replace(" ", "")
        if k == "binary" and e["op"] == "!=":
            text = "(" + src(e["l"]).replace(" ", "") + "==" + src(e["r"]).replace(" ", "") + ")"
            atoms.add(text)
            return lambda v, t=text: not v[t]
        atoms.add(text)
        return lambda v, t=text: v[t]

    def returns_of(block):
        """the single `return X` of a branch block -> formula of X"""
        stmts = block["stmts"] if block.get("k") == "block" else None
        if not stmts or len(stmts) != 1:
            raise AnchorError("early-return branch with more than one statement")
        s = stmts[0]
        e = strip(s["e"]) if s.get("k") == "expr" else None
        if e is None or e.get("k") != "return" or e.get("e") is None:
            raise AnchorError("branch that is not a single `return`")
        return formula(e["e"])

    chain = []  # (cond formula, result formula)
    stmts = fn_body["stmts"]
    for s in stmts[:-1]:
        if s.get("k") == "local" and s.get("init") is not None and s["pat"].get("k") in ("pident", "ptype"):
            nm = [p["name"] for p in walk(s["pat"]) if p.get("k") == "pident"]
            if len(nm) != 1:
                raise AnchorError("destructuring let in a decision function")
            lets[nm[0]] = formula(s["init"])
        elif s.get("k") == "expr" and strip(s["e"]).get("k") == "if":
            cur = strip(s["e"])
            while cur is not None and cur.get("k") == "if":
                chain.append((formula(cur["c"]), returns_of(cur["then"])))
                cur = strip(cur["else"]) if cur.get("else") else None
            if cur is not None:
                raise AnchorError("early-return chain with a final else")
        else:
            raise AnchorError(f"statement outside the decision fragment: `{src(s)[:60]}`")
    last = stmts[-1]
    if last.get("k") != "expr" or last.get("semi"):
        raise AnchorError("no tail expression")
    tail = formula(last["e"])

    def evaluate(v):
        for c, r in chain:
            if c(v):
                return r(v)
        return tail(v)
    return evaluate, sorted(atoms)


# --------------------------------------------------------------------------------------------
# Boolean accumulators: `let mut all_ok = true; for .. { all_ok &= p(x) }` computes a conjunction only if every update is monotone
# --------------------------------------------------------------------------------------------

def accumulator_census(syn, mod_prefixes):
    """rows for every `let mut X = true|false` that is updated inside a loop of the same function:
    dict(fn, name, init, updates=[(op, rhs src)], monotone: bool). An `all` accumulator (init true) may only be updated by `&=` or
    `= false`; an `any` accumulator (init false) only by `|=` or `= true`. A plain `X = <expr>` in the loop makes the result depend
    on the last element only."""
    rows = []
    for f in syn.fns:
        if not any(f["mod"].startswith(m) for m in mod_prefixes) or not f.get("body") or f.get("derived") or "test" in f["mod"]:
            continue
        locals_ = {}
        for n in walk(f["body"]):
            if n.get("k") == "local" and n.get("init") is not None and strip(n["init"]).get("k") == "lit" and strip(n["init"]).get("t") == "bool" \
                    and n["pat"].get("k") == "pident" and n["pat"].get("mut"):
                locals_[n["pat"]["name"]] = bool(strip(n["init"])["v"])
        if not locals_:
            continue
        loops = [n for n in walk(f["body"]) if n.get("k") in ("for", "while", "loop")]
        for name, init in locals_.items():
            ups = []
            for lp in loops:
                for n in walk(lp["body"]):
                    if n.get("k") == "binary" and n["op"] in ("&=", "|=", "^=") and src(strip(n["l"])) == name:
                        ups.append((n["op"], src(strip(n["r"]))[:60]))
                    elif n.get("k") == "assign" and src(strip(n["l"])) == name:
                        ups.append(("=", src(strip(n["r"]))[:60]))
                    elif n.get("k") == "binary" and n["op"] == "=" and src(strip(n["l"])) == name:
                        ups.append(("=", src(strip(n["r"]))[:60]))
            if not ups:
                continue
            ok = True
            for op, rhs in ups:
                if init and not (op == "&=" or (op == "=" and rhs == "false")):
                    ok = False
                if not init and not (op == "|=" or (op == "=" and rhs == "true")):
                    ok = False
            rows.append({"fn": f, "name": name, "init": init, "updates": ups, "monotone": ok})
    return rows


def disjuncts(e):
    """the operands of a (nested, parenthesised) `||` chain as normalised source strings, as a sorted list"""
    out = []
    def go(x):
        x = strip(x)
        while x.get("k") == "paren":
            x = strip(x["e"])
        if x.get("k") == "binary" and x["op"] == "||":
            go(x["l"])
            go(x["r"])
        else:
            t = src(x).replace(" ", "")
            while t.startswith("(") and t.endswith(")") and _balanced(t[1:-1]):
                t = t[1:-1]
            out.append(t)
    go(e)
    return sorted(out)


def _balanced(t):
    d = 0
    for ch in t:
        if ch == "(":
            d += 1
        elif ch == ")":
            d -= 1
            if d < 0:
                return False
    return d == 0


def inline_lets(node, typed=False):
    """copy of a syntax tree in which immutable single-identifier `let x = e;` bindings (no type-changing patterns, no `mut`,
    no `else`) are substituted into the later uses of `x` in the same block and the `let` statements dropped. Text-shaped rules
    apply it first, so that naming an intermediate value (`let width = token.width(); .. offset_pos(width)`) is not a change."""
    import copy

    def subst(n, env):
        if isinstance(n, list):
            return [subst(x, env) for x in n]
        if not isinstance(n, dict):
            return n
        k = n.get("k")
        if k == "path" and n["p"] in env:
            return env[n["p"]]
        if k == "block":
            env2 = dict(env)
            out = []
            for st in n["stmts"]:
                pat_ = st.get("pat") if st.get("k") == "local" else None
                if pat_ is not None and pat_.get("k") == "ptype" and isinstance(pat_.get("p"), dict) and \
                        (typed or re.fullmatch(r"(usize|isize|[ui](8|16|32|64|128)|bool|char|f32|f64)", str(pat_.get("ty", "")).strip())):
                    pat_ = pat_["p"]     # `let x: T = e;` (on request, or for a scalar type: other annotated lets are mostly the named results rules look for)
                if st.get("k") == "local" and st.get("init") is not None and st.get("else") is None and pat_.get("k") == "pident" \
                        and not pat_.get("mut") and not pat_.get("ref") and pat_.get("sub") is None \
                        and not (st["init"].get("k") == "ref" and st["init"].get("mut")):    # `let x = &mut T::new();` names an object, not a value
                    init = subst(st["init"], env2)
                    name = pat_["name"]
                    # only pure-looking initialisers that are used at most twice later are inlined (a `?` may be duplicated textually;
                    # this is a rendering for comparison, not a program)
                    env2[name] = init
                    continue
                # a re-binding by any other pattern ends the substitution of that name
                if st.get("k") == "local":
                    for p in walk(st["pat"]):
                        if p.get("k") == "pident":
                            env2.pop(p["name"], None)
                out.append(subst(st, env2))
            m = dict(n)
            m["stmts"] = out
            return m
        if k == "closure":
            env2 = dict(env)
            for p in n.get("params", []):
                for x in walk(p):
                    if x.get("k") == "pident":
                        env2.pop(x["name"], None)
            return {kk: subst(v, env2) for kk, v in n.items()}
        if k in ("match",):
            m = dict(n)
            m["e"] = subst(n["e"], env)
            arms = []
            for a in n["arms"]:
                env2 = dict(env)
                for x in walk(a["pat"]):
                    if x.get("k") == "pident":
                        env2.pop(x["name"], None)
                arms.append({kk: (subst(v, env2) if kk != "pat" else v) for kk, v in a.items()})
            m["arms"] = arms
            return m
        return {kk: subst(v, env) for kk, v in n.items()}
    return subst(copy.deepcopy(node), {})


# --------------------------------------------------------------------------------------------
# Path enumeration over the syntax of one function: what it yields under which conditions
# --------------------------------------------------------------------------------------------

class Path:
    """one syntactic path through a function body.
    conds   [(normalised source of the condition, True|False)]  in order; `let P = e` for if-let / match arms (`e~P`)
    events  [node] calls / method calls / assignments executed on the path, in order (loop bodies and closures contribute their
            calls once, marked by the enclosing `loop`/`closure` node being in self.inside[id(event)])
    result  node | None   the value the function yields on this path (argument of `return`, or the tail expression)
    how     'tail' | 'return' | 'diverge'
    """
    __slots__ = ("conds", "events", "result", "how", "loops")

    def __init__(self, conds=(), events=(), result=None, how=None, loops=()):
        self.conds = list(conds)
        self.events = list(events)
        self.result = result
        self.how = how
        self.loops = list(loops)

    def fork(self):
        return Path(self.conds, self.events, self.result, self.how, self.loops)

    def cond_set(self):
        return {(c, pol) for c, pol in self.conds}

    def holds(self, text):
        """is condition `text` (normalised source) known true / false on this path? -> True | False | None"""
        t = text.replace(" ", "")
        for c, pol in self.conds:
            if c == t:
                return pol
            if c == "!" + t or c == "(!" + t + ")":
                return not pol
            if t.startswith("!") and c == t[1:]:
                return not pol
        return None


def _norm_cond(e):
    s = src(strip(e)).replace(" ", "")
    while s.startswith("(") and s.endswith(")") and _balanced(s[1:-1]):
        s = s[1:-1]
    return s


def _events_of(e, out):
    """calls inside an expression, in source order, not descending into closures/blocks that are handled by the walker"""
    for n in walk_no_closure(e):
        if n.get("k") in ("call", "mcall", "macro"):
            out.append(n)
        elif n.get("k") == "binary" and n.get("op", "").endswith("=") and n["op"] not in ("==", "!=", "<=", ">="):
            out.append(n)
        elif n.get("k") == "assign":
            out.append(n)


def fn_paths(body, limit=4000):
    """all syntactic paths of a function body (after inline_lets). Loops are not unrolled: their body is walked once and its
    events are recorded (a `return` inside a loop ends a path that carries the loop's entry condition `in-loop`)."""
    body = inline_lets(body)
    done = []

    def seq(stmts, tail_is_value, paths):
        """run a statement list over a set of live paths; returns live paths (whose `result` is the block's value when tail_is_value)"""
        for i, st in enumerate(stmts):
            last = i == len(stmts) - 1
            if not paths:
                return []
            k = st.get("k")
            if k == "local":
                if st.get("init") is not None:
                    paths = expr(st["init"], paths, value=False)
                    if st.get("else") is not None:
                        # let-else: the else block diverges
                        for p in paths:
                            q = p.fork()
                            q.conds.append((_norm_cond({"k": "let", "pat": st["pat"], "e": st["init"]}), False))
                            for r in seq(st["else"].get("stmts", []), False, [q]):
                                pass
                            p.conds.append((_norm_cond({"k": "let", "pat": st["pat"], "e": st["init"]}), True))
                continue
            if k == "expr":
                is_value = last and tail_is_value and not st.get("semi")
                paths = expr(st["e"], paths, value=is_value)
                continue
            # items, macros-as-statements
            for p in paths:
                _events_of(st, p.events)
        return paths

    def expr(e, paths, value):
        """evaluate expression e on each path; if value, set p.result to the (sub)expression that is the value"""
        if len(done) + len(paths) > limit:
            raise AnchorError("too many paths")
        e0 = e
        e = strip(e) if isinstance(e, dict) else e
        k = e.get("k")
        if k == "block":
            return seq(e["stmts"], value, paths)
        if k == "return":
            for p in paths:
                if e.get("e") is not None:
                    _events_of(e["e"], p.events)
                p.result, p.how = e.get("e"), "return"
                done.append(p)
            return []
        if k in ("break", "continue"):
            for p in paths:
                p.how = k
                done.append(p)
            return []
        if k == "if":
            out = []
            c = e["c"]
            cs = _norm_cond(c)
            for p in paths:
                _events_of(c.get("e", c) if c.get("k") == "let" else c, p.events)
                a, b = p, p.fork()
                a.conds.append((cs, True))
                b.conds.append((cs, False))
                out += expr(e["then"], [a], value)
                if e.get("else") is not None:
                    out += expr(e["else"], [b], value)
                else:
                    if value:
                        b.result = None
                    out.append(b)
            return out
        if k == "match":
            out = []
            scrut = _norm_cond(e["e"])
            for p in paths:
                _events_of(e["e"], p.events)
            for ai, a in enumerate(e["arms"]):
                pat_s = src(a["pat"]).replace(" ", "")
                # an earlier guarded arm with an irrefutable (or the same) pattern was tried first: its guard failed
                failed = []
                for b_ in e["arms"][:ai]:
                    if b_.get("guard") is None:
                        continue
                    bp = b_["pat"]
                    if bp.get("k") in ("pwild", "pident") or src(bp).replace(" ", "") == pat_s:
                        failed.append(_norm_cond(b_["guard"]))
                for p in paths:
                    q = p.fork()
                    q.conds.append((scrut + "~" + pat_s, True))
                    for g_ in failed:
                        q.conds.append((g_, False))
                    if a.get("guard") is not None:
                        _events_of(a["guard"], q.events)
                        q.conds.append((_norm_cond(a["guard"]), True))
                    out += expr(a["body"], [q], value)
            return out
        if k in ("for", "while", "loop"):
            for p in paths:
                if k == "for":
                    _events_of(e["iter"], p.events)
                elif k == "while":
                    _events_of(e["c"], p.events)
                p.loops.append(e)
            inner = seq(e["body"].get("stmts", []) if isinstance(e.get("body"), dict) else [], False, [p.fork() for p in paths])
            # events of the loop body are appended to the continuing paths (once); returns inside the loop were recorded in `done`
            for p in paths:
                for n in walk_no_closure(e["body"]):
                    if n.get("k") in ("call", "mcall", "macro"):
                        p.events.append(n)
            return paths
        # a wrapper around a branching value: Ok(if c { a } else { b }) yields Ok(a) / Ok(b)
        if value and k == "call" and e["f"].get("k") == "path" and e["f"]["p"] in ("Ok", "Some", "Err", "Box::from", "Box::new") and len(e["args"]) == 1 \
                and strip(e["args"][0]).get("k") in ("if", "match", "block"):
            out = expr(e["args"][0], paths, True)
            for p in out:
                if p.how in (None, "tail"):
                    p.result = {"k": "call", "f": e["f"], "args": [p.result if p.result is not None else {"k": "tuple", "elems": []}], "ln": e.get("ln")}
                    p.how = "tail"
            return out
        # plain expression
        for p in paths:
            _events_of(e, p.events)
            if value:
                p.result, p.how = e0, "tail"
        return paths

    live = expr(body, [Path()], value=True)
    for p in live:
        if p.how is None:
            p.how = "tail"
        done.append(p)
    return done


def unwrap_ok(e):
    """`Ok(x)` -> x ; anything else unchanged"""
    e1 = strip(e) if isinstance(e, dict) else e
    if isinstance(e1, dict) and e1.get("k") == "call" and src(e1["f"]) == "Ok" and len(e1["args"]) == 1:
        return strip(e1["args"][0])
    return e1


def format_sequence(fa):
    """the pieces a `format_args!` node prints, in print order: literal text and the normalised source of each argument
    (`"{1}{0}\\n", a, b` -> [src(b), src(a), "\\n"]), so that positional, numbered and inline-captured forms compare equal"""
    import re as _re
    tmpl = fa["args"][0].get("v")
    args = [src(strip(a)).replace(" ", "") for a in fa["args"][1:]]
    out = []
    pos = 0
    nxt = 0
    for m in _re.finditer(r"\{(\d*)(?::[^}]*)?\}", tmpl):
        if m.start() > pos:
            out.append(tmpl[pos:m.start()])
        i = int(m.group(1)) if m.group(1) else nxt
        nxt = i + 1 if not m.group(1) else nxt
        out.append(args[i] if i < len(args) else "?")
        pos = m.end()
    if pos < len(tmpl):
        out.append(tmpl[pos:])
    return out


def rename_shadowing_clones(node, name):
    """copy of a tree in which, inside every block that re-binds `name` to a clone of itself (`let mut it = it.clone();` - the
    look-ahead idiom), the later uses of `name` in that block are renamed to `<name>__clone`: calls on the clone are then not
    mistaken for calls on the original"""
    import copy

    def ren(n, active):
        if isinstance(n, list):
            return [ren(x, active) for x in n]
        if not isinstance(n, dict):
            return n
        if n.get("k") == "block":
            out = []
            act = active
            for st in n["stmts"]:
                if st.get("k") == "local" and st.get("init") is not None and st["pat"].get("k") == "pident" and st["pat"]["name"] == name \
                        and src(st["init"]).replace(" ", "") in (name + ".clone()", "(" + name + ".clone())"):
                    st2 = ren(st, act)
                    st2 = dict(st2)
                    st2["pat"] = dict(st2["pat"], name=name + "__clone")
                    out.append(st2)
                    act = True
                    continue
                out.append(ren(st, act))
            m = dict(n)
            m["stmts"] = out
            return m
        if active and n.get("k") == "path" and n["p"] == name:
            return dict(n, p=name + "__clone")
        return {k: ren(v, active) for k, v in n.items()}
    return ren(copy.deepcopy(node), False)
