"""A6 - hash-order flow on MIR: where does the iteration order of a std HashSet/HashMap (RandomState) end up?

Sources: calls that produce an iterator over such a container. The value is followed through moves, references, iterator
adapters, `?`, `collect` into ordered containers (the Vec is then still hash-ordered) up to a terminal consumer, classified as
order-free (any/all/count/len/contains/collect into a set or map/sorted with a total order/...) or order-sensitive
(next/last/find/fold/sorted_by_key (stable: ties keep hash order)/enumerate/zip/join/index/`for` loops/escapes).
"""
import re
from collections import defaultdict

HASH = re.compile(r"std::collections::(HashSet|HashMap)<|std::collections::hash_(set|map)::")
SRC_METHODS = {"iter", "into_iter", "keys", "values", "values_mut", "iter_mut", "drain", "union", "intersection", "difference",
               "symmetric_difference", "into_keys", "into_values"}
ADAPTERS = {"map", "filter", "filter_map", "cloned", "copied", "flat_map", "flatten", "chain", "inspect", "peekable", "by_ref",
            "map_while", "into_iter", "iter", "deref", "as_slice", "clone", "to_vec", "unique", "as_ref", "borrow", "to_owned",
            "branch", "from_residual", "unwrap", "expect", "unwrap_or_default", "map_err", "ok", "into", "from", "iter_mut", "deref_mut",
            "as_mut", "collect_vec", "rev", "dedup", "borrow_mut"}
ORDER_FREE = {"any", "all", "count", "sum", "product", "len", "is_empty", "contains", "min", "max", "sorted", "sort", "sort_unstable",
              "is_subset", "is_superset", "is_disjoint", "eq", "ne", "drop", "drop_in_place", "size_hint", "contains_key",
              "min_by_key", "max_by_key", "hash"}
INPLACE_SORTS = {"sort_by_key", "sort_by", "sort_by_cached_key", "sort_unstable_by_key", "sort_unstable_by"}
SORTS = INPLACE_SORTS | {"sorted_by_key", "sorted_by", "sorted_by_cached_key"}
ITERATIONS = {"for_each", "fold", "try_fold", "try_for_each", "rfold", "reduce"}
ITER_KIND = "iterate"           # every spelling of "visit all elements in their (hash) order with side effects / an accumulator": for loop, for_each, (try_)fold
SORT_KIND = "sort-by-key"     # every spelling of "sort by a key / comparator": ties keep the incoming (hash) order, so the key must be total
ORDERED_TARGETS = re.compile(r"^(std::result::Result<|std::option::Option<)?(std::vec::Vec<|std::string::String|std::collections::VecDeque<|std::collections::LinkedList<|std::boxed::Box<\[)")
UNORDERED_TARGETS = re.compile(r"^(std::result::Result<|std::option::Option<)?std::collections::(HashSet|HashMap|BTreeSet|BTreeMap)<")


def short_ty(t):
    m = re.search(r"(HashSet|HashMap)<([^,>]*(?:<[^>]*>)?[^,>]*)", t)
    if not m:
        return t[:40]
    inner = m.group(2).split("::")[-1]
    return f"{m.group(1)}<{inner.strip()}>"


def origin_of(body, place, ty):
    """describe the container: field name if the place projects a named field, else its element type"""
    names = [p.split(":")[1] for p in place.proj if p.startswith(".") and len(p.split(":")) > 2]
    nm = body.local_name(place.local)
    base = short_ty(ty)
    if names:
        return f"{base} .{names[-1]}"
    return base


def analyse_body(mir, body):
    """-> list of sinks: dict(kind, callee, origin, line, cat)"""
    tainted = {}   # local -> origin string
    parent = {}    # local -> the local it was derived from (moves, references, adapters): to find the container a sink consumes
    # field-projection origins: remember for each local holding a ref to a field
    field_of = {}
    for bb, s in body.stmts():
        if s.rv in ("Ref", "Use") and s.ops and s.ops[0].place is not None:
            p = s.ops[0].place
            flds = p.fields()
            if flds and not s.dst.proj:
                field_of[s.dst.local] = flds[-1]
    changed = True
    sinks = []
    seen_sink = set()
    rounds = 0
    while changed and rounds < 12:
        changed = False
        rounds += 1
        for bb in body.bbs:
            if bb.cleanup:
                continue
            for s in bb.stmts:
                if s.rv in ("Use", "Ref", "Cast", "RawPtr") and s.ops and s.ops[0].place is not None and s.ops[0].place.local in tainted:
                    if s.dst.local not in tainted:
                        tainted[s.dst.local] = tainted[s.ops[0].place.local]
                        parent[s.dst.local] = s.ops[0].place.local
                        changed = True
                if s.rv == "Aggregate" and s.detail in ("Tuple",) or (s.rv == "Aggregate" and s.detail.startswith("Adt|std::option::Option") ):
                    for o in s.ops:
                        if o.place is not None and o.place.local in tainted and s.dst.local not in tainted:
                            tainted[s.dst.local] = tainted[o.place.local]
                            changed = True
            t = bb.term
            if t.k != "call":
                continue
            name = t.callee.split("::")[-1]
            a0 = t.args[0] if t.args else None
            a0l = a0.place.local if a0 is not None and a0.place is not None else None
            # source
            if a0 is not None and a0.place is not None and HASH.search(t.argt[0]) and name in SRC_METHODS and "std::collections::hash" not in t.argt[0].split("<")[0]:
                org = origin_of(body, a0.place, t.argt[0])
                if a0l in field_of and "." not in org:
                    org += f" .{field_of[a0l]}"
                if t.dst.local not in tainted:
                    tainted[t.dst.local] = org
                    changed = True
                continue
            # `Vec::from_iter(&set)` / `Vec::from(set)`: the container itself is handed to an ordered collection
            if name in ("from_iter", "from") and a0 is not None and a0.place is not None and HASH.search(t.argt[0]) and ORDERED_TARGETS.match(t.dty):
                if t.dst.local not in tainted:
                    tainted[t.dst.local] = origin_of(body, a0.place, t.argt[0])
                    changed = True
                continue
            tainted_args = [a for a in t.args if a.place is not None and a.place.local in tainted]
            if not tainted_args:
                continue
            org = tainted[tainted_args[0].place.local]
            if name == "collect" or name == "from_iter" or name == "collect_vec":
                if UNORDERED_TARGETS.match(t.dty):
                    continue
                if t.dst.local not in tainted:
                    tainted[t.dst.local] = org
                    changed = True
                continue
            if name in ADAPTERS:
                if t.dst.local not in tainted:
                    tainted[t.dst.local] = org
                    parent[t.dst.local] = tainted_args[0].place.local
                    changed = True
                continue
            if name in ORDER_FREE:
                continue
            if name == "extend" and HASH.search(t.argt[0]):
                continue  # extending a set/map
            if name in ("insert",) and HASH.search(t.argt[0]):
                continue
    # in-place sorts of a hash-ordered vector: the sort itself is the (order-sensitive, reviewed) consumer; what reads the vector
    # afterwards - in blocks the sort dominates - sees the sorted order
    def root(l):
        seen = set()
        while l in parent and l not in seen:
            seen.add(l)
            l = parent[l]
        return l
    sorted_roots = {}
    for bb in body.bbs:
        if bb.cleanup or bb.term.k != "call":
            continue
        nm = bb.term.callee.split("::")[-1]
        if nm in INPLACE_SORTS or nm in ("sort", "sort_unstable"):      # a plain sort orders by the elements themselves: total
            for a in bb.term.args[:1]:
                if a.place is not None and a.place.local in tainted:
                    sorted_roots.setdefault(root(a.place.local), []).append(bb.idx)
    dom = body.dominators() if sorted_roots else {}
    # second pass: sinks
    loops = body.natural_loops()
    loop_blocks = set()
    for h, blks in loops:
        loop_blocks |= blks
    for bb in body.bbs:
        if bb.cleanup:
            continue
        t = bb.term
        if t.k != "call":
            continue
        name = t.callee.split("::")[-1]
        a0 = t.args[0] if t.args else None
        if a0 is not None and a0.place is not None and HASH.search(t.argt[0]) and name in SRC_METHODS and "std::collections::hash" not in t.argt[0].split("<")[0]:
            continue
        if name in ("from_iter", "from") and a0 is not None and a0.place is not None and HASH.search(t.argt[0]) and ORDERED_TARGETS.match(t.dty):
            continue
        tainted_args = [a for a in t.args if a.place is not None and a.place.local in tainted]
        if not tainted_args:
            continue
        org = tainted[tainted_args[0].place.local]
        if name in ("collect", "from_iter", "collect_vec"):
            continue
        if name in ADAPTERS or name in ORDER_FREE:
            continue
        if name in ("extend", "insert") and HASH.search(t.argt[0]):
            continue
        r0 = root(tainted_args[0].place.local)
        if r0 in sorted_roots and name not in INPLACE_SORTS and any(sb != bb.idx and sb in dom.get(bb.idx, ()) for sb in sorted_roots[r0]):
            continue    # consumed after (dominated by) an in-place sort of the same vector
        kind = SORT_KIND if name in SORTS else (ITER_KIND if name in ITERATIONS else name)
        if name == "next" and bb.idx in loop_blocks:
            kind = ITER_KIND
        callee_short = re.sub(r"<[^>]*>", "", t.callee)
        callee_short = "::".join(callee_short.split("::")[-2:])
        sinks.append({"kind": kind, "callee": t.callee, "origin": org, "line": t.line})
    # escapes through the return value
    if 0 in tainted:
        sinks.append({"kind": "return", "callee": "-", "origin": tainted[0], "line": body.line})
    return sinks, tainted


def all_sinks(mir):
    out = []
    for b in mir.fns.values():
        # cheap pre-filter
        if not any(HASH.search(l) for l in b.locals):
            continue
        sinks, tainted = analyse_body(mir, b)
        owner = b.path
        for s in sinks:
            s["fn"] = owner
            s["file"] = b.file
            out.append(s)
    return out
