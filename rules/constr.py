"""Constraint census: every place where the checker states `parent >= child`.

A constraint `Constraint::new(msg, parent, child)` means "parent is a superset of child" (Display prints `parent >= child`).
Sites: `constr.add(msg, parent, child, env)`, `Constraint::new(msg, parent, child)`, `constraints.push(msg, parent, child)`,
and the unary helpers `Constraint::truthy|stringy|undefined(msg, expected)`.

For each site the *role* of each operand is derived from its provenance (through let-bound locals, lexically resolved):
    expr:<ast variable>        Expected::from(<ast>)           - the type of that piece of program text
    type:<origin>              Expected::new(_, &Type { name })  - a known type; origin = where the name comes from
                               (e.g. `fun.ret_ty`, `Name::try_from(ty)`, `ctx.class(ty)`, `temp_name`)
    none / any                 Expected::none(..) / Expected::any(..)
    access / function / field  Expected::new(_, &Access{..}) etc.
    var:<name>                 an Expected that is a parameter or comes from elsewhere
The roles say which side is the declared one and which the actual one; swapping them turns "argument must fit parameter" into
"parameter must fit argument".
"""
import re
from .common import walk, src, strip, Scopes, AnchorError

MODS = ("check::constrain::generate", "check::constrain::unify")


def _lit(e, sc=None, depth=0):
    e = strip(e)
    if e.get("k") == "lit" and e.get("t") == "str":
        return e["v"]
    # format!("...") message: take the template (positional, numbered and inline-captured placeholders alike)
    for n in walk(e):
        if n.get("k") == "macro" and n.get("name", "").endswith("format_args") and n.get("args") and n["args"][0].get("k") == "lit":
            return re.sub(r"\{\w*(:[^}]*)?\}", "{}", n["args"][0]["v"])
    if e.get("k") == "path":
        # `let msg = format!(..); constr.add(&msg, ..)`: the message is the local's initialiser
        if sc is not None and depth < 4:
            b = sc.resolve(e)
            if b is not None and b.kind == "let" and b.init is not None:
                return _lit(b.init, sc, depth + 1)
        return "$" + e["p"]
    return "?"


class Roles:
    def __init__(self, fn, syn=None):
        self.fn = fn
        self.syn = syn
        self.sc = Scopes(fn)

    def role(self, e, depth=0):
        e = strip(e)
        k = e.get("k")
        if depth > 6:
            return "deep"
        if k == "try":
            return self.role(e["e"], depth)
        if k == "path":
            b = self.sc.resolve(e)
            if b is None:
                return "var:" + e["p"]
            if b.kind in ("let", "iflet") and b.init is not None and b.node is not None:
                # only follow simple bindings `let x = <expr>` (not destructuring)
                r = self.role(b.init, depth + 1)
                if r.startswith("var:") or r in ("deep", "?"):
                    return "var:" + e["p"]
                return r
            return "var:" + e["p"]
        if k == "call" and e["f"].get("k") == "path":
            f = e["f"]["p"]
            a = e["args"]
            if f == "Expected::from" and len(a) == 1:
                return "expr:" + src(strip(a[0]))
            if f == "Expected::new" and len(a) == 2:
                return self._expect(a[1], depth)
            if f == "Expected::none":
                return "none"
            if f == "Expected::any":
                return "any"
            if f in ("Box::from", "Box::new") and len(a) == 1:
                return self.role(a[0], depth + 1)
            # a private helper of the same module that builds the Expected (`access(fun, left, right)`): its role is what it builds
            if self.syn is not None and "::" not in f and depth < 4:
                hs = [h for h in self.syn.fns if h["name"] == f and h["mod"] == self.fn["mod"] and h.get("body") and not h.get("impl_of")]
                if len(hs) == 1:
                    from .common import tail_expr, walk as _walk
                    # a helper that chooses between several results (early returns, or an if / match in tail position) is a conditional value
                    if any(n_.get("k") == "return" for n_ in _walk(hs[0]["body"])):
                        return "conditional"
                    t = tail_expr(hs[0]["body"])
                    if t is not None:
                        r = Roles(hs[0], self.syn).role(t, depth + 1)
                        if r == "conditional":
                            return r
                        if not r.startswith("var:") and r not in ("?", "deep"):
                            return r
            return "call:" + f
        if k == "mcall":
            if e["m"] in ("clone", "to_owned"):
                return self.role(e["recv"], depth + 1)
            return "mcall:" + e["m"]
        if k == "if" or k == "match":
            return "conditional"
        return "?"

    def _expect(self, e, depth):
        e = strip(e)
        if e.get("k") == "path":
            b = self.sc.resolve(e)
            if b is not None and b.kind == "let" and b.init is not None:
                return self._expect(b.init, depth + 1)
            return "expect:" + e["p"]
        if e.get("k") == "struct":
            kind = e["p"].split("::")[-1]
            if kind == "Type":
                for f, v in e["fields"]:
                    if f == "name":
                        return "type:" + self._origin(v, depth)
                return "type:?"
            return kind.lower()
        if e.get("k") == "call":
            return "expect-call:" + src(e["f"])
        return "expect:?"

    def _origin(self, e, depth):
        """where a type name comes from (coarse, stable under renaming of intermediate locals)"""
        e = strip(e)
        if depth > 8:
            return "deep"
        k = e.get("k")
        if k == "path":
            b = self.sc.resolve(e)
            if b is not None and b.kind == "let" and b.init is not None:
                return self._origin(b.init, depth + 1)
            if b is not None and b.kind in ("arm", "iflet", "for", "closure", "param"):
                return f"{b.kind}:{e['p']}"
            return e["p"]
        if k == "field":
            return src(e)
        if k == "try":
            return self._origin(e["e"], depth + 1)
        if k == "call" and e["f"].get("k") == "path":
            f = e["f"]["p"]
            if f.endswith("::try_from") or f.endswith("::from"):
                return f.split("::")[0] + "(" + self._origin(e["args"][0], depth + 1) + ")" if e["args"] else f
            return f + "(..)"
        if k == "mcall":
            if e["m"] in ("clone", "to_owned", "as_ref"):
                return self._origin(e["recv"], depth + 1)
            return self._origin(e["recv"], depth + 1) + "." + e["m"] + "()"
        return k or "?"


def census(syn):
    """-> list of dict(fn, msg, kind, parent, child)"""
    out = []
    for fn in syn.fns:
        if not fn.get("body") or fn.get("derived"):
            continue
        if not any(fn["mod"].startswith(m) for m in MODS):
            continue
        if fn["mod"].startswith("check::constrain::constraint"):
            continue
        r = None
        for n in walk(fn["body"]):
            site = None
            if n.get("k") == "mcall" and n["m"] == "add" and len(n["args"]) == 4:
                site = ("add", n["args"][0], n["args"][1], n["args"][2])
            elif n.get("k") == "mcall" and n["m"] == "push" and len(n["args"]) == 3 and src(strip(n["recv"])) in ("constraints", "constr"):
                site = ("push", n["args"][0], n["args"][1], n["args"][2])
            elif n.get("k") == "call" and n["f"].get("k") == "path" and n["f"]["p"] == "Constraint::new" and len(n["args"]) == 3:
                site = ("new", n["args"][0], n["args"][1], n["args"][2])
            elif n.get("k") == "call" and n["f"].get("k") == "path" and n["f"]["p"] in ("Constraint::truthy", "Constraint::stringy", "Constraint::undefined") and len(n["args"]) == 2:
                site = (n["f"]["p"].split("::")[-1], n["args"][0], n["args"][1], None)
            if site is None:
                continue
            if r is None:
                r = Roles(fn, syn)
            kind, msg, p, c = site
            out.append({"fn": fn["qual"].replace("check::constrain::", ""), "kind": kind, "msg": _lit(msg, r.sc),
                        "parent": r.role(p), "child": r.role(c) if c is not None else "-"})
    return out
