"""C14 - layout trivia never changes meaning.

R-C14-4  (syntax, sibling agreement over computed instances) a run of newlines is as good as one: the lexer emits one NL token per
         blank, comment-only or whitespace-only line and re-emits the pending ones after Indent/Dedent, so every parser site
         that consumes `Token::NL` between a construct's header and its continuation must tolerate a run: it is `eat_while(NL)`,
         or is directly followed by one, or sits in a loop that re-tests for NL, or its continuation starts with a tolerant site
         (`parse_block`); likewise directly after every `eat(Indent)`.
R-C14-1  (syntax) comments never reach the parser: `AST::from_str` filters `Token::Comment` out of the vector it hands to
         `LexIterator::new`, and no function of parse:: outside the lexer mentions `Token::Comment`.
R-C14-2  (lexer model + syntax) LF = CRLF: `\\n` and `\\r\\n` create the same token through the same constructor; a space creates
         no token; `write_source` replaces `\\r\\n` by `\\n` unconditionally before writing (multi-line strings carry raw line ends).
R-C14-3  (syntax) redundant parentheses: `parse_tuple` returns the sole element of `(e)`.
R-C14-5  (syntax) the indentation state ignores trailing spaces and whitespace-only lines: a space counts towards the line's
         indentation only before the first token of the line; a newline resets the count and emits no Indent/Dedent; indentation
         is compared only when a non-newline token arrives; pending newlines are re-emitted after the Indent/Dedent tokens.
"""
import re
from .common import walk, src, strip, AnchorError, tail_expr, syn_owner
from .c11 import parents_map
from .lexer import LexerModel

NL = "&Token::NL"
INDENT = "&Token::Indent"
REVIEWED_SINGLE = {
    "parse::statement::parse_return": "the newline that ends an empty `return`: the rest of the run is consumed by the statement loop",
}


def run(chk, facts):
    syn, mir = facts.syn, facts.mir
    chk.rule("R-C14-4", "every parser site consuming NL before a continuation tolerates a run of NL tokens; also directly after eat(Indent)")
    chk.rule("R-C14-1", "Token::Comment is filtered before the parser and never mentioned by the parser")
    chk.rule("R-C14-2", "LF and CRLF create the same token; space creates none; write_source normalises CRLF unconditionally")
    chk.rule("R-C14-3", "parse_tuple folds a 1-tuple")
    chk.rule("R-C14-5", "indentation state: spaces count only before the first token; newline resets and emits no indent tokens; pending newlines follow the indent tokens")

    # ---------------- R-C14-4 ----------------
    parse_fns = [f for f in syn.fns if f["mod"].startswith("parse::") and not f["mod"].startswith("parse::lex") and f["mod"] != "parse::iterator" and f.get("body") and not f.get("derived")]
    # tolerant entry points: functions whose first token-consuming action is eat_while(NL)
    # (fixpoint: a function that starts by calling / parsing a tolerant function is tolerant itself - `skip_blank_lines(it)`)
    tolerant_fns = set()
    names = {f["name"] for f in parse_fns}
    changed = True
    while changed:
        changed = False
        for f in parse_fns:
            if f["name"] in tolerant_fns:
                continue
            first = _first_consumption(f["body"], names)
            tol = False
            if first is not None and first.get("k") == "mcall" and first["m"] == "eat_while" and _arg0(first) == NL:
                tol = True
            elif first is not None and first.get("k") == "call" and first["f"]["p"].split("::")[-1] in tolerant_fns:
                tol = True
            elif first is not None and first.get("k") == "mcall" and first["m"] in ("parse", "parse_vec") and first["args"] and \
                    src(strip(first["args"][0])).lstrip("&") in tolerant_fns:
                tol = True
            if tol:
                tolerant_fns.add(f["name"])
                changed = True
    n_sites = 0
    for f in parse_fns:
        pm = parents_map(f["body"])
        ordinal = {}
        for n in walk(f["body"]):
            if n.get("k") != "mcall" or n["m"] not in ("eat", "eat_if", "eat_while") or not n["args"]:
                continue
            a0 = _arg0(n)
            if a0 not in (NL, INDENT):
                continue
            key_base = f"{f['qual']}|{n['m']}({a0[1:]})"
            ordinal[key_base] = ordinal.get(key_base, 0) + 1
            key = f"{key_base}#{ordinal[key_base]}"
            loc = facts.loc_of(f)
            if a0 == NL:
                n_sites += 1
                if n["m"] == "eat_while":
                    chk.ob("R-C14-4", key, True, f"{f['qual']}: eat_while(NL)", loc)
                    continue
                ok, why = _tolerant_after(f, pm, n, tolerant_fns)
                if not ok and f["qual"] in REVIEWED_SINGLE:
                    ok, why = True, "reviewed: " + REVIEWED_SINGLE[f["qual"]]
                chk.ob("R-C14-4", key, ok, f"{f['qual']}: {n['m']}(NL) - {why}" if ok else
                       f"{f['qual']}: a single {n['m']}(NL) {why}: a blank or comment-only line at this place is a syntax error although it is accepted elsewhere", loc)
            else:
                n_sites += 1
                ok, why = _tolerant_after(f, pm, n, tolerant_fns | {"parse_statements"})
                chk.ob("R-C14-4", key, ok, f"{f['qual']}: after eat(Indent): {why}" if ok else
                       f"{f['qual']}: eat(Indent) {why}: the lexer re-emits pending newlines *after* the indent, so a blank line before the first item of this block is a syntax error", loc)
    chk.floor("R-C14-4", n_sites, 14, "parser sites consuming NL / Indent")
    chk.sample({"rule": "R-C14-4", "tolerant_entry_points": sorted(tolerant_fns)})

    # ---------------- R-C14-1 ----------------
    try:
        fs = syn.one_fn("from_str", mod="parse", impl_of="AST")
        loc = facts.loc_of(fs)
        # AST::from_str is folded over a small token vector (rules/smalleval.py) with `tokenize` replaced by a fixed stream: what reaches
        # LexIterator::new must be that stream without its comment tokens, in order - however the filtering is written (filter + collect, a
        # loop with `continue`, a private helper)
        from .smalleval import SmallEval, NoEval

        class _Captured(Exception):
            def __init__(self, v):
                self.v = v

        def lex(kind, i):
            return {"__struct__": "Lex", "token": ("variant", "Token::" + kind, [("sym", i)]), "pos": ("sym", "pos%d" % i)}
        stream = [lex("Id", 0), lex("Comment", 1), lex("NL", 2), lex("Comment", 3), lex("Int", 4), lex("Comment", 5)]

        def capture(arg):
            raise _Captured(arg)
        local = {f_["name"]: f_ for f_ in syn.fns if f_["mod"] == fs["mod"] and f_.get("impl_of") is None and f_.get("body")}
        ev = SmallEval(local_fns=local, funcs={"tokenize": lambda inp: ("Ok", ("list", list(stream))), "LexIterator::new": capture})
        ok, why_f = False, ""
        try:
            ev.call(fs, [("sym", "input")])
            why_f = "LexIterator::new is not reached"
        except _Captured as c_:
            got = c_.v[1] if isinstance(c_.v, tuple) and c_.v and c_.v[0] == "list" else None
            want = [t_ for t_ in stream if t_["token"][1] != "Token::Comment"]
            ok = got == want
            why_f = "" if ok else ("the parser is handed " + (", ".join(t_["token"][1].split("::")[-1] for t_ in got) if got is not None else "something that is not the token vector") +
                                   " for the stream Id, Comment, NL, Comment, Int, Comment")
        except NoEval as ex:
            why_f = f"could not be evaluated ({ex})"
        unc_f = [u for u in ev.uncovered() if not u.startswith("from_str:")]      # from_str itself goes on into the parser; its helpers are what is folded
        chk.ob("R-C14-1", "from_str:fold-covers-every-branch", not unc_f, "the token stream reaches every branch of the comment filter" if not unc_f else
               f"the token stream does not reach {len(unc_f)} branch(es) of the filtering, e.g. {unc_f[0]}", loc)
        chk.ob("R-C14-1", "from_str:filter-comments", ok, "AST::from_str hands the parser the token stream without its comments, in order" if ok else
               f"AST::from_str no longer filters Token::Comment out of the token vector: {why_f}", loc)
        chk.ob("R-C14-1", "from_str:iterator-over-filtered", ok, "the parser iterates the filtered vector" if ok else "LexIterator::new is no longer built from the filtered tokens", loc)
    except AnchorError as e:
        chk.anchor_fail("R-C14-1", e)
    mentions = []
    for f in syn.fns:
        if f["mod"].startswith("parse") and not f["mod"].startswith("parse::lex") and f.get("body") and not f.get("derived"):
            if f["name"] == "from_str" and f["mod"] == "parse":
                continue
            if f["mod"] == "parse" and f.get("impl_of") is None and f.get("vis", "") == "" and syn_owner(syn, f).endswith("::from_str"):
                continue      # a private helper of from_str (the filtering itself), covered by the fold above
            for n in walk(f["body"]):
                if (n.get("k") in ("path", "ppath", "ptstruct", "pstruct") and n.get("p", "").endswith("Token::Comment")):
                    mentions.append(f["qual"])
    chk.ob("R-C14-1", "parser-never-sees-comments", not mentions, "no parser function mentions Token::Comment" if not mentions else
           f"{sorted(set(mentions))} handle Token::Comment in the parser: a comment can now change what is parsed")

    # ---------------- R-C14-2 ----------------
    lm = LexerModel(facts)
    loc = facts.loc_of(lm.fn)
    lf = [p for p in lm.paths.get("\n", []) if p.token != "Err"]
    crlf = [p for p in lm.paths.get("\r", []) if p.token not in ("Err",)]
    ok = len(lf) == 1 and len(crlf) == 1 and lf[0].token == crlf[0].token == "Token::NL" and lf[0].how == crlf[0].how == "create" and crlf[0].text() == "\r\n"
    chk.ob("R-C14-2", "LF=CRLF", ok, "`\\n` and `\\r\\n` both create Token::NL through create(state, ..)" if ok else
           f"`\\n` -> {[(p.token, p.how) for p in lf]}, `\\r..` -> {[(p.text(), p.token, p.how) for p in crlf]}: the two line endings are lexed differently", loc)
    sp = None
    for firsts, a in lm.arms:
        if " " in firsts:
            sp = a
    s = src(sp["body"]).replace(" ", "") if sp else ""
    ok = sp is not None and "state.space()" in s and ("Ok(::alloc::vec::Vec::new())" in s or "Ok(vec![])" in s) and "create(" not in s
    chk.ob("R-C14-2", "space-no-token", ok, "a space only advances the caret (no token)" if ok else "the space arm of the lexer changed", loc)
    try:
        ws = syn.one_fn("write_source", mod="io")
        locw = facts.loc_of(ws)
        top = ws["body"]["stmts"]
        rep = [st for st in top if st.get("k") == "local" and st.get("init") is not None and
               src(strip(st["init"])).replace(" ", "") == 'source.replace("\\r\\n","\\n")']
        written = [n for n in walk(ws["body"]) if n.get("k") == "mcall" and n["m"] in ("write", "write_all") and n["args"] and strip(n["args"][0]).get("k") != "lit"]
        ok = len(rep) == 1 and len(written) == 1 and src(written[0]["args"][0]).replace(" ", "") in ("source.as_ref()", "source.as_bytes()", "&source", "source")
        shadow = len(rep) == 1 and [p["name"] for p in walk(rep[0]["pat"]) if p.get("k") == "pident"] == ["source"]
        chk.ob("R-C14-2", "write_source:CRLF->LF", ok and shadow,
               "write_source replaces every `\\r\\n` by `\\n` unconditionally and writes the result" if ok and shadow else
               "write_source no longer normalises CRLF unconditionally before writing: a multi-line string from a CRLF file leaks `\\r` into the output", locw)
    except AnchorError as e:
        chk.anchor_fail("R-C14-2", e)

    # ---------------- R-C14-3 ----------------
    try:
        from .chain import parse_tuple_fold
        pt = syn.one_fn("parse_tuple", mod="parse::collection")
        ok, why = parse_tuple_fold(syn)
        chk.ob("R-C14-3", "parse_tuple:fold", ok, why if ok else f"{why}: redundant parentheses change the tree", facts.loc_of(pt))
    except AnchorError as e:
        chk.anchor_fail("R-C14-3", e)

    # ---------------- R-C14-5 ----------------
    try:
        from .lexer import state_step_folds
        from .smalleval import NoEval as _NoEval
        sp = syn.one_fn("space", impl_of="State")
        nl = syn.one_fn("newline", impl_of="State")
        try:
            after, unc = state_step_folds(syn)
            why = "; ".join(unc[:2]) if unc else ""
            ok = not unc and all(after[("space", flag, li)]["line_indent"] == (li if flag else li + 1) for flag in (False, True) for li in (1, 5))
        except _NoEval as ex:
            after, ok, why = None, False, f"State::space / State::newline could not be folded ({ex})"
        chk.ob("R-C14-5", "space:only-before-first-token", ok, "a space counts as indentation only before the first token of its line (State::space folded over both cases)" if ok else
               f"State::space no longer ignores spaces after the first token of a line: trailing spaces change the indentation {why}", facts.loc_of(sp))
        s = src(nl["body"]).replace(" ", "")
        ok = after is not None and not unc and "Token::Indent" not in s and "Token::Dedent" not in s and all(
            after[("newline", flag, li)]["line_indent"] == 1 and after[("newline", flag, li)]["token_this_line"] is False for flag in (False, True) for li in (1, 5))
        chk.ob("R-C14-5", "newline:resets", ok, "a newline resets the indentation count unconditionally and emits no Indent/Dedent" if ok else
               "State::newline no longer resets the line state unconditionally: a whitespace-only line can leak into the next line's indentation", facts.loc_of(nl))
        tk = syn.one_fn("token", impl_of="State")
        stmts = tk["body"]["stmts"]
        first = strip(stmts[0]["e"]) if stmts and stmts[0].get("k") == "expr" else None
        ok = first is not None and first.get("k") == "if" and src(strip(first["c"])).replace(" ", "") in ("(token==Token::NL)", "token==Token::NL") and "self.newline()" in src(first["then"]) and "return" in src(first["then"])
        chk.ob("R-C14-5", "token:NL-first", ok, "a newline token only updates the line state (no indentation comparison)" if ok else "State::token no longer handles NL before anything else", facts.loc_of(tk))
        s = src(tk["body"]).replace(" ", "")
        i_pop = s.find("self.newlines.pop()")
        i_ind = s.find("Token::Indent")
        i_app = s.find("res.append(&mutself.newlines)")
        i_push = s.find("res.push(Lex::new(self.pos,token.clone()))")
        ok = 0 <= i_pop < i_ind < i_app < i_push
        chk.ob("R-C14-5", "token:newline-batching", ok, "order of emission: one pending NL, Indent/Dedent tokens, the remaining NLs, the token" if ok else
               "the order in which State::token emits pending newlines and indent tokens changed (the parser's NL sites rely on `[NL] Indent* NL* token`)", facts.loc_of(tk))
    except AnchorError as e:
        chk.anchor_fail("R-C14-5", e)
    # ---------------- R-C14-6 ----------------
    # redundant parentheses: `(e)` is parsed by the collection parser, which asks `is_start_expression` whether an element follows; `e` on its
    # own is parsed by `parse_inner_expression`, which dispatches on the first token.  Every token the dispatch accepts must satisfy the
    # predicate (folded over the token variants, rules/smalleval.py) - otherwise `e` parses and `(e)` / `[.., e]` does not
    chk.rule("R-C14-6", "every token an expression may start with is accepted as the start of a tuple / list / set element")
    try:
        from .smalleval import SmallEval, NoEval
        pie = syn.one_fn("parse_inner_expression", mod="parse::expression")
        ise = syn.one_fn("is_start_expression", mod="parse::expression")
        local = {f_["name"]: f_ for f_ in syn.fns if f_["mod"] == "parse::expression" and f_.get("impl_of") is None and f_.get("body")}
        ms = [n for n in walk(pie["body"]) if n.get("k") == "match" and "token" in src(n["e"], -30)]
        if not ms:
            raise AnchorError("parse_inner_expression: no match on the token")
        starts = set()
        for a in max(ms, key=lambda m_: len(m_["arms"]))["arms"]:
            for alt in (a["pat"]["cases"] if a["pat"].get("k") == "por" else [a["pat"]]):
                if alt.get("k") in ("ppath", "ptstruct", "pstruct") and alt["p"].startswith("Token::"):
                    starts.add(alt["p"])
        if len(starts) < 10:
            raise AnchorError(f"parse_inner_expression dispatches on {len(starts)} tokens only")
        ev = SmallEval(local_fns=local)
        bad6 = []
        for tok in sorted(starts):
            try:
                r_ = ev.call(ise, [{"__struct__": "Lex", "token": ("variant", tok, [("sym", "payload"), ("sym", "payload2")])}])
            except NoEval as ex:
                r_ = f"not evaluable ({ex})"
            if r_ is not True:
                bad6.append((tok, r_))
        chk.ob("R-C14-6", "start-tokens-agree", not bad6, f"all {len(starts)} tokens that parse_inner_expression dispatches on satisfy is_start_expression" if not bad6 else
               f"an expression may start with {[t for t, _ in bad6]}, but is_start_expression answers {bad6[0][1]} for it: `{bad6[0][0].split('::')[-1].lower()} x` parses while "
               "`(.. x)` and `[a, .. x]` are syntax errors - redundant parentheses change the verdict", facts.loc_of(ise))
    except AnchorError as e:
        chk.anchor_fail("R-C14-6", e)
    chk.notes.append("C14: parser NL sites enumerated from the syntax; lexer arms from the lexer model. The invariance of the indentation automaton as a whole is not decided (ND).")


def _arg0(n):
    return src(n["args"][0]).replace(" ", "") if n["args"] else ""


def _first_consumption(body, fn_names=()):
    """first call in source order that consumes tokens (eat*/parse*, or a direct call of another parser function) - approximates
    `the function starts with ..`"""
    for n in walk(body):
        if n.get("k") == "call" and n["f"].get("k") == "path" and n["f"]["p"].split("::")[-1] in fn_names:
            return n
        if n.get("k") == "mcall" and n["m"] in ("eat", "eat_if", "eat_while", "parse", "parse_vec", "parse_if", "parse_vec_if", "peek_while_not_token", "peek_while_not_tokens", "peek_while_fn", "peek", "peek_or_err"):
            return n
    return None


def _stmt_of(pm, n):
    """(containing block, index of the statement that contains n)"""
    cur = n
    while True:
        par, key = pm.get(id(cur), (None, None))
        if par is None:
            return None, None
        if par.get("k") == "block" and key == "stmts":
            for i, st in enumerate(par["stmts"]):
                if st is cur or any(x is cur for x in walk(st)):
                    return par, i
        cur = par


def _tolerant_after(f, pm, n, tolerant_fns):
    if _in_loop_callback_nl_arm(pm, n):
        return True, "the NL arm of a peek_while callback: the loop re-tests for NL"
    # `if it.eat_if(NL).is_some() { <continuation> }`: the continuation is the then-branch
    cur = n
    while True:
        par, key = pm.get(id(cur), (None, None))
        if par is None or par.get("k") in ("block", "closure"):
            break
        if par.get("k") == "if" and key == "c":
            first = _first_consumption(par["then"])
            if first is not None and first["m"] == "eat_while" and _arg0(first) == NL:
                return True, "the branch it guards starts with eat_while(NL)"
            if first is not None and first["m"] in ("parse", "parse_vec") and src(strip(first["args"][0])).lstrip("&") in tolerant_fns:
                return True, "the branch it guards starts with a tolerant parser"
            return False, f"guards a branch that starts with `{src(first)[:50] if first else '-'}`"
        cur = par
    blk, i = _stmt_of(pm, n)
    if blk is None:
        # an expression body (match arm without block): e.g. `Token::NL => it.eat(NL).map(|_| ())` in a loop callback
        if _in_loop_callback_nl_arm(pm, n):
            return True, "the whole body of the NL arm of a peek_while callback: the loop re-tests for NL"
        return False, "is not followed by anything that consumes further newlines"
    # statements after it in the same block
    for st in blk["stmts"][i + 1:]:
        first = _first_consumption(st)
        if first is None:
            continue
        if first["m"] == "eat_while" and _arg0(first) == NL:
            return True, "directly followed by eat_while(NL)"
        if first["m"] in ("parse", "parse_vec") and len(first["args"]) >= 1:
            callee = src(strip(first["args"][0])).lstrip("&")
            if callee in tolerant_fns:
                return True, f"its continuation `{callee}` starts by consuming a run of newlines"
        return False, f"is followed by `{src(first)[:50]}`, which expects a specific other token"
    # last statement of the block: closure body of a peek_while callback?
    if _in_loop_callback_nl_arm(pm, n):
        return True, "the NL arm of a peek_while callback: the loop re-tests for NL"
    # the eat is the tail of its block: look at what follows the enclosing statement
    par, key = pm.get(id(blk), (None, None))
    if par is not None:
        return _tolerant_after(f, pm, blk, tolerant_fns)
    return False, "ends its block without anything that consumes further newlines"


def _in_loop_callback_nl_arm(pm, n):
    cur = n
    in_nl_arm = False
    while True:
        par, key = pm.get(id(cur), (None, None))
        if par is None:
            return False
        if par.get("k") is None and "pat" in par and "body" in par and "Token::NL" in src(par["pat"]):
            in_nl_arm = True
        if par.get("k") == "closure":
            gp, _ = pm.get(id(par), (None, None))
            while gp is not None and gp.get("k") == "ref":
                gp, _ = pm.get(id(gp), (None, None))
            if gp is not None and gp.get("k") == "mcall" and gp["m"].startswith("peek_while"):
                return in_nl_arm
        cur = par
