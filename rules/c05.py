"""C05 - declared signatures are enforced.

R-C05-1  (syntax, sibling agreement) the four arity matchers over `zip_longest(formal, actual)` - `call_parameters` (function and
         constructor calls), `unify_fun_arg` (method calls), the lambda arm of `unify_function`, `Function::args_compatible` - all
         treat `Both` by a parameter-accepts-argument constraint or check, `Right` (an extra argument) by an unconditional error,
         and `Left` (a missing argument) by an error unless the parameter has a default.
R-C05-2  (constraint census) every place where the checker states `parent >= child` has the reviewed direction and operands
         (tables/constraint_roles.json): parameter >= argument, declared return type >= body / returned expression, declared
         variable type >= initialiser, consumer >= declared result ... A missing site means a use is no longer constrained, a
         changed one that the comparison may have been reversed.
R-C05-3  (environment field-flow) the declared return type and the `is_expr` flag that ties branch values to the value of an
         if/match expression are handed down unchanged to every nested construct (loops, branches, arms), and are set exactly for
         a function body (tables/env_flow.json).
R-C05-4  (syntax) the comparison itself: two types unify iff the parent accepts the child or one side is Any (shared with R-C06-2).
"""
import re
from collections import Counter
from .common import walk, src, strip, AnchorError, load_table, pat_alternatives
from . import envflow, constr

MATCHERS = [
    ("call_parameters", "check::constrain::generate::call", None),
    ("unify_fun_arg", "check::constrain::unify::function", None),
    ("unify_function", "check::constrain::unify::function", None),
    ("args_compatible", "check::context::function", "Function"),
]


def run(chk, facts):
    syn = facts.syn
    chk.rule("R-C05-1", "arity matchers: Both -> constraint, Right -> error, Left -> error unless has_default")
    chk.rule("R-C05-2", "constraint census equals the reviewed table of directions and operand roles")
    chk.rule("R-C05-3", "return_type / is_expr / in_fun are handed down unchanged except at the reviewed sites")
    chk.rule("R-C05-4", "unify_type accepts iff parent.is_superset_of(child) or Any")

    # ---------------- R-C05-1 ----------------
    for name, mod, impl in MATCHERS:
        try:
            fn = syn.one_fn(name, mod=mod, impl_of=impl)
            loc = facts.loc_of(fn)
            ms = []
            for n in walk(fn["body"]):
                if n.get("k") == "for" and "zip_longest" in src(n["iter"]):
                    for m in walk(n["body"]):
                        if m.get("k") == "match":
                            ms.append(m)
                            break
            if len(ms) != 1:
                raise AnchorError(f"{name}: {len(ms)} zip_longest loops with a match")
            arms = ms[0]["arms"]
            both = left = right = None
            left_guard = None
            wild = None
            for a in arms:
                for alt in pat_alternatives(a["pat"]):
                    head = alt.get("p", "").split("::")[-1] if alt.get("k") in ("ptstruct", "ppath", "pstruct") else ("_" if alt.get("k") in ("pwild", "pident") else "?")
                    if head == "Both":
                        both = a
                    elif head == "Left":
                        if left is None:
                            left, left_guard = a, a.get("guard")
                    elif head == "Right":
                        right = a
                    elif head == "_":
                        wild = a
            ok_both = both is not None and re.search(r"constr\.add\(|\.push\(|is_superset_of\(", src(both["body"])) is not None
            chk.ob("R-C05-1", f"{name}:Both", ok_both, f"{name}: a formal/actual pair is constrained (parameter accepts argument)" if ok_both else
                   f"{name}: the `Both` case no longer adds a constraint: arguments are not compared with their parameters", loc)
            ok_right = right is not None and not right.get("guard") and _returns_err(right["body"])
            chk.ob("R-C05-1", f"{name}:Right", ok_right, f"{name}: an extra argument is an error" if ok_right else
                   f"{name}: an argument without a parameter is no longer an unconditional error (swallowed by {'a guard' if right is not None and right.get('guard') else 'a wildcard'})", loc)
            if left is None:
                ok_left, why = False, "no `Left` arm: a missing argument falls into the wildcard"
            elif _returns_err(left["body"]) and (left_guard is None or src(strip(left_guard)).replace(" ", "") in ("!fun_arg.has_default", "!fun_param.has_default")):
                ok_left, why = True, "a missing argument is an error" + (" unless the parameter has a default" if left_guard is not None else "")
            elif left_guard is None and re.search(r"if\s*!\w+\.has_default", src(left["body"])) and "Err(" in src(left["body"]):
                ok_left, why = True, "a missing argument is an error unless the parameter has a default"
            else:
                ok_left, why = False, f"the `Left` arm is guarded by `{src(left_guard) if left_guard else '-'}` / does not return an error"
            chk.ob("R-C05-1", f"{name}:Left", ok_left, f"{name}: {why}" if ok_left else f"{name}: {why}: a call with too few arguments is accepted", loc)
        except AnchorError as e:
            chk.anchor_fail("R-C05-1", e)

    # ---------------- R-C05-2 ----------------
    census_check(chk, facts, "R-C05-2")

    # ---------------- R-C05-3 ----------------
    envflow.check_scoping(chk, facts, "R-C05-3", fields=["return_type", "is_expr", "in_fun"])
    envflow.check_call_envs(chk, facts, "R-C05-3", fields=["return_type", "is_expr", "in_fun"])

    # ---------------- R-C05-4 ----------------
    from .c06 import run as _  # noqa: F401  (shared anchor lives in c06)
    try:
        ut = syn.one_fn("unify_type", mod="check::constrain::unify::ty")
        conds = [n for n in walk(ut["body"]) if n.get("k") == "if" and "is_superset_of" in src(n["c"])]
        from .common import disjuncts
        ok = len(conds) == 1 and disjuncts(conds[0]["c"]) == sorted(["l_ty.is_superset_of(r_ty,ctx,left.pos)?", "l_ty==&Name::any()", "r_ty==&Name::any()"])
        # left = constraint.parent, right = constraint.child
        lr = [n for n in walk(ut["body"]) if n.get("k") == "local" and src(n["pat"]).replace(" ", "") == "(left,right)"]
        ok2 = len(lr) == 1 and src(strip(lr[0]["init"])).replace(" ", "") == "(&constraint.parent,&constraint.child)"
        chk.ob("R-C05-4", "unify_type:direction", ok and ok2, "two types unify iff constraint.parent accepts constraint.child (or one is Any)" if ok and ok2 else
               "unify_type no longer tests `parent.is_superset_of(child)`: the direction of every type comparison changed", facts.loc_of(ut))
    except AnchorError as e:
        chk.anchor_fail("R-C05-4", e)
    chk.rule("R-C05-5", "no element is dropped before it is compared: every zip/take/skip in the checker is length-guarded or reviewed (shared census)")
    from .quant import truncation_census
    truncation_census(chk, facts, "R-C05-5")
    # ---------------- R-C05-6 ----------------
    # `access` swaps the sides of a constraint so that the access comes first; the constraint that replaces it must put the type of the
    # field back on the side where the access was - otherwise `x := p.v` checks `typeof(v) >= typeof(x)` (D61)
    chk.rule("R-C05-6", "the constraint that replaces a field access keeps the side the access was on")
    try:
        from .common import fn_paths, idents_in
        fa = syn.one_fn("field_access", mod="check::constrain::unify::function")
        ac = syn.one_fn("access", mod="check::constrain::unify::function")
        bools = [i_["pat"]["name"] for i_ in fa["sig"]["inputs"] if i_.get("pat", {}).get("k") == "pident" and str(i_.get("ty", "")).replace(" ", "") == "bool"]
        orient = {}

        def sides(block):
            out_ = set()
            for e_ in walk(block):
                if e_.get("k") == "mcall" and e_["m"] == "push" and len(e_["args"]) == 3 and src(strip(e_["recv"])) == "constraints":
                    out_.add("child" if "other" in idents_in(e_["args"][1]) else ("parent" if "other" in idents_in(e_["args"][2]) else "?"))
            return out_
        for n in walk(fa["body"]):
            if n.get("k") == "if" and n["c"].get("k") != "let" and n.get("else") is not None:
                c_ = src(strip(n["c"]), -30).replace(" ", "").strip("()")
                neg = c_.startswith("!")
                c_ = c_.lstrip("!")
                if c_ in bools:
                    orient.setdefault((c_, not neg), set()).update(sides(n["then"]))
                    orient.setdefault((c_, neg), set()).update(sides(n["else"]))
        if not orient:
            orient[("-", None)] = sides(fa["body"])
        flag = next((b_ for b_ in bools if orient.get((b_, True)) == {"parent"} and orient.get((b_, False)) == {"child"}), None)
        ok = flag is not None
        # .. and `access` passes its own swap flag in that position
        passed = False
        if ok:
            pos = [i_["pat"].get("name") for i_ in fa["sig"]["inputs"]].index(flag)
            calls = [n for n in walk(ac["body"]) if n.get("k") == "call" and src(n["f"]) == "field_access"]
            swaps = [n for n in walk(ac["body"]) if n.get("k") == "if" and n["c"].get("k") != "let" and n.get("else") is not None and
                     src(strip(n["then"]), -30).replace(" ", "") in ("(left,right)", "{(left,right)}") and src(strip(n["else"]), -30).replace(" ", "") in ("(right,left)", "{(right,left)}")]
            passed = len(calls) == 1 and len(swaps) == 1 and src(strip(calls[0]["args"][pos])) == src(strip(swaps[0]["c"]))
        chk.ob("R-C05-6", "field_access:orientation", ok and passed,
               f"field_access puts the field's type on the parent side when the access was the parent (`{flag}`) and on the child side otherwise; `access` passes the flag it swaps by" if ok and passed else
               f"field_access does not restore the side of the access (pushes per flag: { {f'{k[0]}={k[1]}': sorted(v) for k, v in orient.items()} }, flag passed by access: {passed}): "
               "for an access on the right of a constraint (`x := p.v`) the direction is reversed - a Float field is accepted for an Int variable", facts.loc_of(fa))
    except AnchorError as e:
        chk.anchor_fail("R-C05-6", e)
    # ---------------- R-C05-7 ----------------
    # "this operand must be an Int": where one side of a generated constraint is a fixed built-in type and the other an *operand* of the node
    # (not the node itself, whose type the constraint defines), the fixed type is the parent - the operand must be assignable to it, not the
    # reverse (D63: `0 .. f` with f: Float was accepted because an Int can be assigned to a Float)
    chk.rule("R-C05-7", "a fixed built-in type that an operand must have is the parent of the constraint")
    n7 = 0
    import re as _re
    for r in constr.census(syn):
        if r["kind"] != "add":
            continue
        pt, ct = r["parent"], r["child"]
        fixed = lambda x: bool(_re.fullmatch(r"type:Name\((INT|BOOL|FLOAT|STRING|COMPLEX)\)", x))
        operand = lambda x: x.startswith("expr:") and x != "expr:ast"
        if (fixed(pt) and operand(ct)) or (fixed(ct) and operand(pt)):
            n7 += 1
            ok7 = fixed(pt)
            chk.ob("R-C05-7", f"{r['fn']}|{r['msg']}|{ct if fixed(pt) else pt}", ok7,
                   f"{r['fn']} `{r['msg']}`: {pt} >= {ct}" if ok7 else
                   f"{r['fn']} `{r['msg']}`: the operand is the parent ({pt} >= {ct}): whatever a value of that type can be *assigned to* is accepted - a Float where an Int is required")
    chk.floor("R-C05-7", n7, 3, "operand-must-have-type constraints")
    # ---------------- R-C05-8 ----------------
    # the checker threads pairs of same-typed values (the environment's variable mapping and the builder's, expected and given, parent and
    # child) through its functions; a call that hands two parameters on *crosswise* to a callee whose parameters have those very names
    # (`a.map_exp(global_var_mapping, var_mapping)` inside `map_exp(.., var_mapping, global_var_mapping)`) reverses a precedence or a
    # direction without a type error.  Expected count: zero - a two-function positive example is checked on every run
    chk.rule("R-C05-8", "no call in check:: hands two parameters of its function crosswise to a callee whose parameters carry the same names")
    from .common import crossed_arguments
    ident = lambda nm: {"k": "pident", "name": nm}
    path = lambda nm: {"k": "path", "p": nm}
    fake = [{"name": "g", "qual": "t::g", "mod": "t", "sig": {"inputs": [{"pat": ident("a")}, {"pat": ident("b")}]}, "body": {"k": "block", "stmts": []}},
            {"name": "f", "qual": "t::f", "mod": "t", "sig": {"inputs": [{"pat": ident("a")}, {"pat": ident("b")}]},
             "body": {"k": "block", "stmts": [{"k": "expr", "e": {"k": "call", "f": path("g"), "args": [path("b"), path("a")]}, "semi": False}]}}]
    alive = crossed_arguments(fake) == [("t::f", "g", "a", "b")] or crossed_arguments(fake) == [("t::f", "g", "a", "b"), ("t::f", "g", "b", "a")]
    chk.ob("R-C05-8", "positive-example", alive, "the rule reports the built-in example f(a, b) -> g(b, a)" if alive else "the crossed-argument rule no longer reports its own positive example")
    crossed = crossed_arguments(syn.fns, scope=lambda f_: f_["mod"].startswith("check") and "test" not in f_["mod"])
    n_scanned = sum(1 for f_ in syn.fns if f_["mod"].startswith("check") and f_.get("body"))
    chk.ob("R-C05-8", "scan", not crossed, f"{n_scanned} functions of check:: scanned, no crossed hand-over" if not crossed else
           f"{crossed[0][0]} calls {crossed[0][1]}(..) with its own parameters `{crossed[0][2]}` and `{crossed[0][3]}` exchanged: the callee's parameters of those names receive each other's "
           "value - a precedence (which mapping wins) or a direction (what must accept what) is silently reversed")
    chk.floor("R-C05-8", n_scanned, 300, "functions of check::")
    # ---------------- R-C05-9 ----------------
    # the constraint sets are kept by a small state machine (ConstrBuilder: `joined`, `branch_point`).  Which method reads and which writes the
    # two fields is its protocol: branch_point() opens (joined = false, level + 1), reset_branches() joins (joined = true, level = last set),
    # branch() and add_constr_map() only read.  A method that starts to write (`self.joined = false` inside branch()) or stops to read one of
    # them changes which constraints a set inherits - a use is separated from the constraints that type its operand.  (The protocol itself
    # is not sound, D62; this rule keeps it from getting worse unnoticed.)
    chk.rule("R-C05-9", "who reads and who writes the branch state of the constraint builder")
    WANT = {"branch_point": ({"branch_point:+=", "joined:false"}, set()), "branch": (set(), {"branch_point", "joined"}),
            "reset_branches": ({"branch_point:=", "joined:true"}, set()), "add_constr_map": (set(), {"branch_point", "joined"})}
    seen9 = {}
    for fn in syn.fns:
        if (fn.get("impl_of") or "").strip() != "ConstrBuilder" or not fn.get("body") or "test" in fn["mod"] or fn.get("impl_trait"):
            continue
        w, r, tgt = set(), set(), set()
        for n in walk(fn["body"]):
            if n.get("k") == "assign" or (n.get("k") == "binary" and n["op"] in ("+=", "-=")):
                l = strip(n["l"])
                tgt.add(id(l))
                if l.get("k") == "field" and src(strip(l["base"])) == "self" and l["name"] in ("joined", "branch_point"):
                    if n.get("k") == "assign":
                        v = src(strip(n["r"]), -30).replace(" ", "")
                        w.add(l["name"] + ":" + (v if v in ("true", "false") else "="))
                    else:
                        w.add(l["name"] + ":" + n["op"])
        for n in walk(fn["body"]):
            if n.get("k") == "field" and src(strip(n["base"])) == "self" and n["name"] in ("joined", "branch_point") and id(n) not in tgt:
                # mentions inside trace!/format arguments do not decide anything
                r.add(n["name"])
        if w or r or fn["name"] in WANT:
            seen9[fn["name"]] = (w, r)
    for name in sorted(set(seen9) | set(WANT)):
        w, r = seen9.get(name, (set(), set()))
        ww, wr = WANT.get(name, (set(), set()))
        if name == "new":
            continue
        ok9 = w == ww and (r >= wr if name in WANT else not r - {"branch_point"})
        chk.ob("R-C05-9", f"builder-state:{name}", ok9, f"ConstrBuilder::{name} writes {sorted(w) or 'nothing'}, reads {sorted(r) or 'nothing'}" if ok9 else
               f"ConstrBuilder::{name} writes {sorted(w) or 'nothing'} and reads {sorted(r) or 'nothing'}; reviewed: writes {sorted(ww) or 'nothing'}, reads {sorted(wr) or 'nothing'} - the protocol "
               "that decides which constraints a branch inherits and which sets a constraint is added to has changed")
    chk.floor("R-C05-9", len(seen9), 4, "ConstrBuilder methods that touch the branch state")
    chk.notes.append("C05: sibling agreement of the arity matchers; census of all constraint sites with operand roles; hand-down of return_type/is_expr.")


def _returns_err(body):
    for n in walk(body):
        if n.get("k") == "return" and n.get("e") is not None and src(n["e"]).startswith("Err("):
            return True
    return src(strip(body)).startswith("Err(")


def census_check(chk, facts, rule):
    syn = facts.syn
    table = load_table("constraint_roles.json")
    want = Counter()
    meaning = {}
    for r in table["sites"]:
        k = (r["fn"], r["kind"], r["msg"], r["parent"], r["child"])
        want[k] += r["count"]
        meaning[k] = r.get("meaning", "")
    got = Counter((r["fn"], r["kind"], r["msg"], r["parent"], r["child"]) for r in constr.census(syn))
    n = 0
    for k in sorted(set(want) | set(got)):
        n += 1
        fn, kind, msg, p, c = k
        key = f"{fn}|{kind}|{msg}|{p}>={c}"
        if got[k] == want[k]:
            chk.ob(rule, key, True, f"{fn}: `{msg}`: {p} >= {c}" + (f" - {meaning[k]}" if meaning.get(k) else ""))
        elif got[k] < want[k]:
            # is there a changed version of it (same fn and msg)?
            changed = [g for g in got if g[0] == fn and g[2] == msg and g not in want]
            if changed:
                g = changed[0]
                chk.ob(rule, key, False, f"{fn}: the constraint `{msg}` was `{p} >= {c}` and is now `{g[3]} >= {g[4]}`: the two sides changed role (what must accept what)"
                       + (f" [{meaning[k]}]" if meaning.get(k) else ""))
            else:
                chk.ob(rule, key, False, f"{fn}: the constraint `{msg}` ({p} >= {c}) is gone ({got[k]} of {want[k]} sites): this use is no longer checked against its declaration"
                       + (f" [{meaning[k]}]" if meaning.get(k) else ""))
        else:
            if k in want:
                chk.ob(rule, key, False, f"{fn}: {got[k]} sites of `{msg}` ({p} >= {c}), {want[k]} reviewed")
            elif not any(w[0] == fn and w[2] == msg and got[w] < want[w] for w in want):
                chk.ob(rule, key, False, f"{fn}: new constraint `{msg}`: {p} >= {c} - not reviewed (is the direction right?)")
    chk.floor(rule, sum(got.values()), 60, "constraint sites")
