"""A8 - traversal completeness of the constraint generator.

For every place in `check::constrain::generate::*` where a `Node::X { .. }` pattern takes an AST node apart, list the children of
that variant (fields whose type mentions `AST`) and decide for each whether the code under the pattern *visits* it: the child (or
a value derived from it by `for`, `if let Some`, a closure parameter of an iterator over it, a `let`) is handed to a visitor - a
function of the generate family that itself reaches `generate`. A child that is not bound (`..`, `_`) or bound and never handed
to a visitor is a row of the census: code whose names and types the checker never looks at.
"""
from .common import ast_params, walk, src, strip, pat_alternatives, idents_in, AnchorError

GEN_MOD = "check::constrain::generate"
NODE = "parse::ast::Node"


def ast_children(variant):
    return [n for n, t in variant["fields"] if "AST" in t]


def visitors(syn, mod=GEN_MOD, root="generate"):
    """functions of the family (module prefix `mod`) that (transitively) call `root`"""
    fam = [f for f in syn.fns if f["mod"].startswith(mod) and not f["mod"].endswith("::env") and not f["mod"].endswith("::tests") and not f["mod"].endswith("::test") and f.get("body")]
    byname = {}
    for f in fam:
        byname.setdefault(f["name"], []).append(f)
    calls = {}
    for f in fam:
        cs = set()
        for n in walk(f["body"]):
            if n.get("k") == "call" and n["f"].get("k") == "path":
                cs.add(n["f"]["p"].split("::")[-1])
        calls[f["name"]] = calls.get(f["name"], set()) | cs
    vis = {root}
    # the handlers the root dispatches to are delegation targets even when they do not recurse (gen_ty)
    for f in fam:
        if f["name"] == root:
            for n in walk(f["body"]):
                if n.get("k") == "call" and n["f"].get("k") == "path" and n["f"]["p"].split("::")[-1] in byname and \
                        any(src(strip(a)) in ast_params(f) for a in n["args"]):
                    vis.add(n["f"]["p"].split("::")[-1])
    changed = True
    while changed:
        changed = False
        for name, cs in calls.items():
            if name not in vis and cs & vis:
                vis.add(name)
                changed = True
    # conversion-trait method names are shared with std (`Box::from(x)` must not count as a visit)
    vis -= {"from", "new", "default", "try_from", "into", "clone", "fmt"}
    return vis, fam


def _derived(scope, names):
    """names derived from `names` inside scope: loop variables, `if let`/`match` bindings, closure parameters of method chains
    on them, `let` bindings whose initialiser mentions them"""
    d = set(names)
    changed = True
    while changed:
        changed = False
        for n in walk(scope):
            k = n.get("k")
            new = set()
            if k == "for" and idents_in(n["iter"]) & d:
                new = {m["name"] for m in walk(n["pat"]) if m.get("k") == "pident"}
            elif k == "let" and idents_in(n["e"]) & d:
                new = {m["name"] for m in walk(n["pat"]) if m.get("k") == "pident"}
            elif k == "local" and n.get("init") is not None and idents_in(n["init"]) & d:
                new = {m["name"] for m in walk(n["pat"]) if m.get("k") == "pident"}
            elif k == "match" and idents_in(n["e"]) & d:
                for a in n["arms"]:
                    new |= {m["name"] for m in walk(a["pat"]) if m.get("k") == "pident"}
            elif k == "mcall" and idents_in(n["recv"]) & d:
                for a in n["args"]:
                    if a.get("k") == "closure":
                        for p in a.get("params", a.get("inputs", [])):
                            new |= {m["name"] for m in walk(p) if m.get("k") == "pident"}
            new = {x for x in new if not x[:1].isupper()}
            if new - d:
                d |= new
                changed = True
    return d


def visited(scope, child_names, vis):
    d = _derived(scope, child_names)
    for n in walk(scope):
        if n.get("k") == "call" and n["f"].get("k") == "path" and n["f"]["p"].split("::")[-1] in vis:
            for a in n["args"]:
                if idents_in(a) & d:
                    return n["f"]["p"].split("::")[-1]
    return None


def _sites(f):
    """destructuring sites of a function: dict(pat, scope, scrut, node)"""
    match_inits = {id(strip(n["init"])): n for n in walk(f["body"]) if n.get("k") == "local" and n.get("init") is not None}
    out = []
    for n in walk(f["body"]):
        k = n.get("k")
        if k == "match":
            for a in n["arms"]:
                scope = {"k": "tuple", "elems": [a["body"]] + ([a["guard"]] if a.get("guard") else [])}
                if id(n) in match_inits:
                    # `let (a, b) = match &ast.node { Node::X { a, b } => (a, b), .. }`: the bindings live on in the function
                    scope = {"k": "tuple", "elems": [a["body"], {"k": "local", "pat": match_inits[id(n)]["pat"], "init": a["body"]}, f["body"]]}
                out.append({"pat": a["pat"], "scope": scope, "scrut": idents_in(n["e"]), "node": n})
        elif k == "if" and n["c"].get("k") == "let":
            out.append({"pat": n["c"]["pat"], "scope": n["then"], "scrut": idents_in(n["c"]["e"]), "node": n})
        elif k == "local" and n.get("else") is not None:
            out.append({"pat": n["pat"], "scope": f["body"], "scrut": idents_in(n["init"]), "node": n})
    for s in out:
        s["inside"] = {id(x) for x in walk(s["scope"])}
        s["binds"] = {m["name"] for m in walk(s["pat"]) if m.get("k") == "pident"}
    return out


def census(syn, mod=GEN_MOD, root="generate", enum=NODE, prefix="Node", child_marker="AST"):
    """-> rows dict(fn, variant, child, status, via) for every destructuring site of a visitor function.
    status: visited   - the child (or something derived from it) is handed to a visitor under the pattern
            delegated - the node being taken apart is itself handed to a visitor (by the code under the pattern, or - for a node
                        bound by an enclosing pattern - by the code under that pattern): the callee traverses it
            unbound   - the pattern does not bind the child (`..`, `_`)
            unused    - bound, never handed to a visitor
    """
    vis, fam = visitors(syn, mod, root)
    variants = syn.enum_variants(enum)
    rows = []
    for f in fam:
        if f["name"] not in vis:
            continue  # inspectors (check_reassignable, id_from_var ...) look at nodes that their visitor callers traverse
        sites = _sites(f)
        params = {m["name"] for a in f.get("params", []) for m in walk(a) if m.get("k") == "pident"} | ast_params(f)
        for st in sites:
            pat, scope, scrut = st["pat"], st["scope"], st["scrut"]
            for alt in pat_alternatives(pat):
                for p in walk(alt):
                    if p.get("k") != "pstruct":
                        continue
                    head = p["p"].split("::")
                    if len(head) > 2 or head[-1] not in variants or (len(head) == 2 and head[0] != prefix):
                        continue
                    v = variants[head[-1]]
                    bound = {}
                    for fname, fp in p["fields"]:
                        bound[fname] = [m["name"] for m in walk(fp) if m.get("k") == "pident"]
                    delegated = None
                    if p is alt:
                        delegated = visited(scope, scrut, vis)
                        if not delegated:
                            # the node was bound by an enclosing pattern whose code hands it to a visitor as a whole
                            encl = [e for e in sites if e is not st and id(st["node"]) in e["inside"] and (e["binds"] & scrut)]
                            if encl:
                                inner = min(encl, key=lambda e: len(e["inside"]))
                                delegated = visited(inner["scope"], inner["binds"] & scrut, vis)
                    for child in [n for n, t in v["fields"] if child_marker in t]:
                        names = bound.get(child)
                        row = {"fn": f["name"], "variant": head[-1], "child": child, "via": None}
                        if names and visited(scope, names, vis):
                            row["status"], row["via"] = "visited", visited(scope, names, vis)
                        elif delegated:
                            row["status"], row["via"] = "delegated", delegated
                        elif not names:
                            row["status"] = "unbound"
                        else:
                            row["status"] = "unused"
                        rows.append(row)
    return rows, vis
