"""C13 - projects: all-or-nothing, mirrored layout, order-independent, non-interfering.

R-C13-1  (MIR, dominance) in `transpile_dir` every call of `io::write_source` is dominated by the success continuation of the
         `mamba_to_python(..)?` call: nothing is written before every file has passed every stage.
R-C13-2  (MIR, who-may-write) the only functions that create, write, rename or remove files are `io::write_source` (and
         `transpile_dir` for the output directory itself).
R-C13-3  (syntax) mirrored layout: `in_absolute_paths` and `out_absolute_paths` are both order-preserving maps of the same
         `relative_paths` (no sort / filter / reverse on either), the results are paired with the outputs by `zip`, the output name is
         `<out_dir>/<relative>.with_extension("py")`; inside `mamba_to_python` every stage is an order-preserving
         iter/zip/map/partition/collect chain. (MIR) `write_source` opens with write + create + truncate, so a re-run into a populated
         directory cannot leave a stale tail.
R-C13-4  (syntax) stage barriers: the errors of *all* files of a stage are returned before the next stage starts; one `Context` is
         built from all ASTs before any file is checked, and every file is checked against that one context.
R-C13-5  (MIR) order-free context construction needs duplicates to be rejected: the `bool` of every `HashSet::insert` into the
         class / function / field tables is inspected. Today it is dropped (known finding D10: the first definition wins, which
         depends on the order of the files).
R-C13-6  (syntax) error paths: each error is given the (source, path) of the tuple it was produced from.
"""
import re
from .common import walk, src, strip, AnchorError, must_call_blocks, owner_root

FS_WRITE = re.compile(r"^std::fs::(write|create_dir|create_dir_all|remove_file|remove_dir|remove_dir_all|rename|copy|hard_link|soft_link|set_permissions)$"
                      r"|^std::fs::File::(create|create_new|set_len)$|^std::fs::OpenOptions::(write|append|create|create_new|truncate)$"
                      r"|^std::os::unix::fs::symlink$|^tempfile::")
ORDER_PRESERVING = {"iter", "map", "collect", "cloned", "into_iter", "clone", "zip", "partition", "flatten", "to_vec", "as_slice", "as_ref", "copied", "enumerate"}


def run(chk, facts):
    mir, syn = facts.mir, facts.syn
    chk.rule("R-C13-1", "write_source is dominated by the success continuation of mamba_to_python")
    chk.rule("R-C13-2", "file-system writers are io::write_source and transpile_dir only")
    chk.rule("R-C13-3", "input and output path lists are order-preserving maps of one list, zipped with the outputs; .py extension; truncate on open")
    chk.rule("R-C13-4", "stage barriers; one shared Context built before any check")
    chk.rule("R-C13-5", "the result of every insert into the context tables is inspected (duplicates rejected)")
    chk.rule("R-C13-6", "every error gets the (source, path) of its own file")

    # ---------------- R-C13-1 ----------------
    td = mir.one("transpile_dir")
    dom = td.dominators()
    m2p = [bb.idx for bb, t in td.calls() if t.callee == "mamba_to_python"]
    ws = [bb.idx for bb, t in td.calls() if t.callee.endswith("io::write_source")]
    chk.ob("R-C13-1", "anchors", len(m2p) == 1 and len(ws) >= 1, f"transpile_dir calls mamba_to_python {len(m2p)}x and io::write_source {len(ws)}x", td.loc)
    if len(m2p) == 1:
        # the Ok continuation: the block after `?` on the result (Try::branch -> switch -> Continue target)
        errs = td.error_exit_blocks()
        for w in ws:
            ok = w in dom and m2p[0] in dom[w]
            # and not reachable from the error successor of the `?`
            reach_from_err = set()
            for e in errs:
                reach_from_err |= td.reachable_from(e)
            ok = ok and w not in reach_from_err
            chk.ob("R-C13-1", f"write@{ws.index(w)}", ok,
                   "the write loop runs only after mamba_to_python returned Ok for the whole project" if ok else
                   "io::write_source can run before / without the success of mamba_to_python: a failing project may leave Python files behind",
                   f"{td.file}:{td.bbs[w].term.line}")
    # nothing in mamba_to_python and below writes
    # ---------------- R-C13-2 ----------------
    n = 0
    allowed = {"io::write_source": None, "transpile_dir": {"std::fs::create_dir"}}
    for b in mir.fns.values():
        owner = b.parent if b.kind == "Closure" else b.path
        for bb, t in b.calls():
            if FS_WRITE.search(t.callee):
                n += 1
                ok = owner in allowed and (allowed[owner] is None or t.callee in allowed[owner])
                chk.ob("R-C13-2", f"{owner}|{t.callee}", ok, f"{owner} calls {t.callee}" + ("" if ok else " - a second place that touches the file system"), f"{b.file}:{t.line}")
    chk.floor("R-C13-2", n, 4, "file-system mutating calls")
    # open options of write_source
    wsrc = mir.one("io::write_source")
    opts = {}
    for bb, t in wsrc.calls():
        m = re.match(r"^std::fs::OpenOptions::(write|create|truncate|append|create_new|read)$", t.callee)
        if m and len(t.args) == 2:
            cv = t.args[1].const_value()
            opts[m.group(1)] = cv[1] if cv else "?"
    ok = opts.get("write") == "1" and opts.get("create") == "1" and opts.get("truncate") == "1" and "append" not in opts
    chk.ob("R-C13-3", "open-options", ok, f"write_source opens with {opts}" + ("" if ok else
           " - without write+create+truncate a re-run into a populated output directory leaves the tail of a longer old file"), wsrc.loc)

    # ---------------- R-C13-3 (syntax) ----------------
    tdf = syn.one_fn("transpile_dir")
    loc = facts.loc_of(tdf)
    lets = {}
    for n_ in walk(tdf["body"]):
        if n_.get("k") == "local" and n_.get("init") is not None:
            for p in walk(n_["pat"]):
                if p.get("k") == "pident":
                    lets[p["name"]] = n_["init"]
    for name in ("in_absolute_paths", "out_absolute_paths"):
        init = lets.get(name)
        if init is None:
            chk.ob("R-C13-3", f"derive:{name}", False, f"transpile_dir no longer defines `{name}`", loc)
            continue
        chains = _chains_from(init, "relative_paths")
        meths = sorted({m for c in chains for m in c})
        bad = [m for m in meths if m not in ORDER_PRESERVING and m != "join"]
        ok = bool(chains) and not bad
        chk.ob("R-C13-3", f"derive:{name}", ok,
               f"`{name}` is an order-preserving map of `relative_paths` ({meths})" if ok else
               f"`{name}` is derived from `relative_paths` through {bad or 'nothing'}: the i-th output no longer belongs to the i-th input", loc)
    # .. and none of the lists that are paired by position is re-ordered or shortened in place after it was derived
    REORDER = {"sort", "sort_by", "sort_by_key", "sort_unstable", "sort_unstable_by", "sort_unstable_by_key", "sort_by_cached_key", "reverse", "dedup", "dedup_by", "dedup_by_key",
               "retain", "remove", "swap", "swap_remove", "truncate", "pop", "insert", "rotate_left", "rotate_right", "drain", "clear", "split_off"}
    paired = {"in_absolute_paths", "out_absolute_paths", "sources", "source_pairs", "source_option_pairs", "mamba_source"}
    muts = [(src(strip(n_["recv"])), n_["m"]) for n_ in walk(tdf["body"]) if n_.get("k") == "mcall" and n_["m"] in REORDER and src(strip(n_["recv"])) in paired]
    chk.ob("R-C13-3", "paired-lists-not-reordered", not muts, "the lists that are paired by position are not re-ordered or shortened in place" if not muts else
           f"`{muts[0][0]}.{muts[0][1]}(..)` re-orders or shortens one of the lists that are paired by position: unless every other list is changed in exactly the same way "
           "(same key, same comparison), the i-th translation is written to another file's path", loc)
    # the write loop: zip of the results with out_absolute_paths, with_extension("py")
    loops = [n_ for n_ in walk(tdf["body"]) if n_.get("k") == "for" and "write_source" in src(n_["body"])]
    ok = len(loops) == 1
    if ok:
        it = src(loops[0]["iter"]).replace(" ", "")
        ok = it in ("mamba_source.iter().zip(out_absolute_paths)", "mamba_source.iter().zip(out_absolute_paths.iter())", "mamba_source.iter().zip(&out_absolute_paths)")
        ext = [n_ for n_ in walk(loops[0]["body"]) if n_.get("k") == "mcall" and n_["m"] == "with_extension"]
        ext_ok = len(ext) == 1 and src(strip(ext[0]["args"][0])) == '"py"'
        # also accept with_extension applied while building out_absolute_paths
        if not ext_ok:
            init = lets.get("out_absolute_paths")
            ext2 = [n_ for n_ in walk(init)] if init else []
            ext_ok = any(n_.get("k") == "mcall" and n_["m"] == "with_extension" and src(strip(n_["args"][0])) == '"py"' for n_ in ext2)
        chk.ob("R-C13-3", "zip", ok, "outputs are paired with out_absolute_paths by position (zip)" if ok else f"the write loop iterates `{it}`", loc)
        chk.ob("R-C13-3", "extension", ext_ok, "the output path gets the extension `py`" if ext_ok else "the output path no longer gets `.with_extension(\"py\")`", loc)
    else:
        chk.ob("R-C13-3", "zip", False, f"{len(loops)} write loops in transpile_dir", loc)
    # sources handed to mamba_to_python are read in the order of in_absolute_paths
    sp = lets.get("source_option_pairs")
    spairs = lets.get("source_pairs")
    ok = sp is not None and spairs is not None and src(spairs).replace(" ", "") == "sources.iter().zip(in_absolute_paths.iter())"
    # lists that are paired by position must have one element per path: a loop that builds one of them pushes exactly once on every
    # path through its body that does not leave the function (no `continue`, no conditional push); an iterator chain that builds
    # one has no element-dropping adapter (filter, filter_map, flat_map, take, skip ..)
    try:
        from .common import fn_paths
        n_loops = 0
        for lp_ in [n_ for n_ in walk(tdf["body"]) if n_.get("k") == "for"]:
            pushes_here = [n_ for n_ in walk(lp_["body"]) if n_.get("k") == "mcall" and n_["m"] == "push"]
            if not pushes_here:
                continue
            n_loops += 1
            vec_name = src(strip(pushes_here[0]["recv"]))
            bad_p = None
            for p_ in fn_paths(lp_["body"]):
                if p_.how == "return":
                    continue      # leaves the function (an error): nothing is paired afterwards
                k_ = sum(1 for ev in p_.events if ev.get("k") == "mcall" and ev["m"] == "push" and src(strip(ev["recv"])) == vec_name)
                if k_ != 1:
                    bad_p = bad_p or (k_, p_.how, [c for c, pol in p_.conds if pol][-1:])
            chk.ob("R-C13-3", f"one-per-path:{vec_name}", bad_p is None, f"the loop that fills `{vec_name}` pushes exactly once per path" if bad_p is None else
                   f"the loop over the input paths pushes {bad_p[0]} element(s) into `{vec_name}` on a path ({bad_p[1]}, {bad_p[2]}): `{vec_name}` no longer has one element per "
                   "path, so the position-wise pairing with the path lists shifts - outputs land under the wrong file name", loc)
        DROP = {"filter", "filter_map", "flat_map", "flatten", "take", "skip", "take_while", "skip_while", "step_by", "dedup", "unique"}
        for name_ in ("in_absolute_paths", "out_absolute_paths", "sources"):
            for n_ in walk(tdf["body"]):
                if n_.get("k") == "local" and [x["name"] for x in walk(n_["pat"]) if x.get("k") == "pident"] == [name_] and n_.get("init") is not None:
                    ms = [m_["m"] for m_ in walk(n_["init"]) if m_.get("k") == "mcall" and m_["m"] in DROP]
                    if ms:
                        chk.ob("R-C13-3", f"one-per-path:{name_}", False, f"`{name_}` is built through `{ms[0]}`, which can drop elements: the lists paired by position differ in length", loc)
        chained = "sources" in lets and any(m_.get("k") == "mcall" and m_["m"] in ("map", "collect") for m_ in walk(lets["sources"]))
        chk.ob("R-C13-3", "one-per-path:sources-built", n_loops >= 1 or chained,
               (f"{n_loops} list-building loop(s) in transpile_dir examined" if n_loops >= 1 else "`sources` is built by an iterator chain without element-dropping adapters") if n_loops >= 1 or chained else
               "neither a list-building loop nor a chain that builds `sources` was found in transpile_dir (how are the sources read?)", loc)
    except AnchorError as e_:
        chk.anchor_fail("R-C13-3", e_)
    chk.ob("R-C13-3", "sources-zip-paths", ok, "each source text is paired with the path it was read from" if ok else "the pairing of source texts and paths changed", loc)

    # order preservation inside mamba_to_python
    m2 = syn.one_fn("mamba_to_python")
    loc2 = facts.loc_of(m2)
    bad = []
    nchain = 0
    for n_ in walk(m2["body"]):
        if n_.get("k") == "mcall" and n_["m"] in ("sorted", "sorted_by", "sorted_by_key", "sort", "sort_by", "sort_by_key", "rev", "filter", "filter_map", "skip", "take", "dedup", "unique", "step_by", "skip_while", "take_while", "swap", "reverse", "retain", "pop", "remove", "swap_remove"):
            bad.append(n_["m"])
        if n_.get("k") == "mcall" and n_["m"] in ("partition", "zip"):
            nchain += 1
    chk.ob("R-C13-3", "pipeline-order", not bad and nchain >= 5, f"the stages of mamba_to_python are order-preserving chains ({nchain} zip/partition steps)" if not bad and nchain >= 5 else
           f"mamba_to_python reorders or drops elements ({bad}): outputs no longer line up with inputs", loc2)

    # ---------------- R-C13-4 ----------------
    stmts = m2["body"]["stmts"]
    part_idx = [i for i, s in enumerate(stmts) if s.get("k") == "local" and ".partition(Result::is_ok)" in src(s.get("init")).replace(" ", "")]
    barrier_idx = []
    for i, s in enumerate(stmts):
        if s.get("k") == "expr" and strip(s["e"]).get("k") == "if":
            e = strip(s["e"])
            c = src(strip(e["c"])).replace(" ", "")
            if re.fullmatch(r"!\w+_errs\.is_empty\(\)", c) and any(x.get("k") == "return" and "Err" in src(x) for x in walk(e["then"])):
                barrier_idx.append(i)
    ok = len(part_idx) == 3 and len(barrier_idx) == 3 and all(part_idx[i] < barrier_idx[i] and (i == 2 or barrier_idx[i] < part_idx[i + 1]) for i in range(3))
    chk.ob("R-C13-4", "stage-barriers", ok,
           "parse, check and generate each return the errors of all files before the next stage starts" if ok else
           f"stage/barrier statements at {part_idx} / {barrier_idx}: a stage can start before the previous one has reported all its errors", loc2)
    ctx_i = [i for i, s in enumerate(stmts) if s.get("k") == "local" and "Context::try_from(asts" in src(s.get("init")).replace(" ", "")]
    ok = len(ctx_i) == 1 and len(part_idx) == 3 and barrier_idx and barrier_idx[0] < ctx_i[0] < part_idx[1]
    chk.ob("R-C13-4", "one-context-before-check", ok, "one Context is built from all ASTs after parsing and before any file is checked" if ok else
           "the shared Context is no longer built from all ASTs between the parse barrier and the check stage", loc2)
    uses = [n_ for n_ in walk(m2["body"]) if n_.get("k") == "call" and n_["f"].get("k") == "path" and n_["f"]["p"] in ("check", "gen_arguments")]
    ok = len(uses) == 2 and all(src(strip(u["args"][-1])) == "ctx" for u in uses)
    chk.ob("R-C13-4", "same-context-everywhere", ok, "every file is checked and generated against that one context" if ok else "check/gen_arguments no longer receive the shared `ctx`", loc2)

    # ---------------- R-C13-5 ----------------
    # user definitions are gathered in check::context::generic::generics; classes are keyed (Eq/Hash) by name only, so a second class
    # of the same name is dropped by `insert` - unless its result is looked at, the first file wins.
    n_ins = 0
    seen = {}
    for b in mir.fns.values():
        owner = owner_root(mir, syn, b.path)     # closures and single-caller private helpers belong to generics()
        if owner != "check::context::generic::generics":
            continue
        for bb, t in b.calls():
            if re.match(r"^std::collections::HashSet::<T, S(, A)?>::insert$", t.callee) and "HashSet<check::context::clss::generic::GenericClass" in t.argt[0]:
                n_ins += 1
                used = _local_used(b, t.dst.local, exclude_bb=bb.idx)
                seen.setdefault("GenericClass", []).append((used, f"{b.file}:{t.line}"))
    for kind, lst in seen.items():
        used = all(u for u, _ in lst)
        chk.ob("R-C13-5", f"check::context::generic::generics|{kind}", used,
               f"generics(): the result of inserting a class into the shared table is inspected ({len(lst)} sites)" if used else
               f"generics() drops the `bool` of inserting a class ({len(lst)} sites): a second class of the same name, e.g. in another file, is silently ignored - "
               "the first one wins, so the verdict depends on the order in which the files are presented", lst[0][1])
    chk.floor("R-C13-5", n_ins, 1, "class inserts while gathering user definitions")

    # ---------------- R-C13-6 ----------------
    ws_calls = [n_ for n_ in walk(m2["body"]) if n_.get("k") == "mcall" and n_["m"] == "with_source"]
    okc = 0
    for c in ws_calls:
        a = [src(strip(x)).replace(" ", "") for x in c["args"]]
        if a == ["Some(src.clone())", "path.clone()"] or a == ["Some(src.clone())", "path"]:
            okc += 1
    # src and path must be the closure's own tuple parameters
    params_ok = True
    for cl in [n_ for n_ in walk(m2["body"]) if n_.get("k") == "closure" and ".with_source(" in src(n_["body"])]:
        ps = src(cl["params"]).replace(" ", "")
        if "(src,path)" not in ps and "src" not in ps:
            # inner closure: names come from the enclosing closure
            continue
    ok = len(ws_calls) >= 3 and okc == len(ws_calls)
    chk.ob("R-C13-6", "with_source-args", ok, f"{len(ws_calls)} with_source calls each attach the (src, path) of the element being processed" if ok else
           f"{len(ws_calls) - okc} with_source call(s) attach something else than the current element's (src, path): errors are reported against the wrong file", loc2)
    # (in the function itself, in a closure of it, or in a private helper it calls with the source directory)
    texts = [src(m2["body"], -20).replace(" ", "")]
    for n_ in walk(m2["body"]):
        if n_.get("k") == "call" and n_["f"].get("k") == "path" and "::" not in n_["f"]["p"] and any("source_dir" in src(a_) for a_ in n_["args"]):
            for h_ in syn.find_fn(n_["f"]["p"]):
                if h_["mod"] == m2["mod"] and h_.get("body"):
                    texts.append(src(h_["body"], -20).replace(" ", ""))
    sp_ok = any("strip_prefix(source_dir)" in t_ for t_ in texts)
    chk.ob("R-C13-6", "relative-paths", sp_ok, "error paths are made relative to the source directory" if sp_ok else "error paths are no longer made relative to the source directory", loc2)
    chk.notes.append("C13: dominance and who-may-write on MIR; order-preservation and stage barriers on the syntax of lib.rs.")


def _chains_from(expr, root):
    """method-name chains of sub-expressions of expr that start at variable `root`"""
    out = []
    for n in walk(expr):
        if n.get("k") == "mcall":
            chain = []
            cur = n
            while cur.get("k") == "mcall":
                chain.append(cur["m"])
                cur = strip(cur["recv"])
            if cur.get("k") == "path" and cur["p"] == root:
                out.append(list(reversed(chain)))
    # keep only maximal chains
    out.sort(key=len, reverse=True)
    keep = []
    for c in out:
        if not any(k[:len(c)] == c for k in keep):
            keep.append(c)
    # closures inside map: method calls on other receivers (join) are listed separately
    inner = set()
    for n in walk(expr):
        if n.get("k") == "closure":
            for m in walk(n["body"]):
                if m.get("k") == "mcall":
                    inner.add(m["m"])
    if keep and inner:
        keep.append(sorted(inner))
    return keep


def _local_used(body, local, exclude_bb=None):
    for bb in body.bbs:
        if bb.cleanup:
            continue
        for s in bb.stmts:
            for o in s.ops:
                if o.place is not None and o.place.local == local:
                    return True
        t = bb.term
        if t.k == "call" and bb.idx != exclude_bb:
            for a in t.args:
                if a.place is not None and a.place.local == local:
                    return True
        if t.k == "switch" and t.discr.place is not None and t.discr.place.local == local:
            return True
    return False
