"""Template model of the Python printer (`generate::ast::to_py` and its helpers), re-derived from source on every run.

Each arm of `to_py` becomes   Arm(variants, guard, pieces)   where pieces is a list of
   ("lit", text)                              literal template text
   ("hole", kind, info)                       a placeholder and what feeds it:
        kind = operand  info = {field, side}          operand(child, core, Side::S, ind)
               protect  info = {field, level}         protect(child, LEVEL, ind)
               bare     info = {field}                to_py(child, ind)
               comma    info = {field}                comma_delimited(children, ind)
               nl       info = {field, ind}           newline_delimited(children, ind+k)
               body     info = {field}                newline_if_body(child, ind)
               lexeme   info = {field}                a String/bool field printed verbatim
               indent   info = {}                     indent(ind)
               join     info = {sep, inner:(kind,info)}   custom_delimited(map(..), sep, "")
               cond     info = {test, then:[pieces], else:[pieces]}   if/else producing text
               pairs    info = {field, inner:[pieces]}  elements.iter().map(|(a,b)| format!(..)) joined by comma
               delegate info = {variant}              to_py(&Core::X{..}) (FunDefOp -> FunDef)
               other    info = {src}
"""
import re
from .common import walk, src, strip, format_args_of, norm_template, template_holes, AnchorError, pat_alternatives, tail_expr, option_match_as_iflet


class Arm:
    def __init__(self, variants, guard, pieces, fields, body):
        self.variants = variants
        self.guard = guard
        self.pieces = pieces
        self.fields = fields
        self.body = body

    def holes(self):
        return list(_holes(self.pieces))

    def text(self):
        return _text(self.pieces)


def _holes(pieces):
    for p in pieces:
        if p[0] == "hole":
            yield p
            if p[1] == "cond":
                yield from _holes(p[2]["then"])
                yield from _holes(p[2]["else"])


def _text(pieces):
    out = ""
    for p in pieces:
        if p[0] == "lit":
            out += p[1]
        elif p[1] == "cond":
            out += "{?" + _text(p[2]["then"]) + "|" + _text(p[2]["else"]) + "}"
        elif p[1] == "join":
            out += "{join" + repr(p[2]["sep"]) + "}"
        else:
            out += "{" + p[1] + "}"
    return out


def _split_template(tmpl, args_pieces):
    """template string with {N} placeholders + per-arg pieces -> flat piece list"""
    out = []
    pos = 0
    for m in re.finditer(r"\{\{|\}\}|\{(\d+)(?::[^}]*)?\}", tmpl):
        if m.start() > pos:
            out.append(("lit", tmpl[pos:m.start()]))
        if m.group(0) == "{{":
            out.append(("lit", "{"))
        elif m.group(0) == "}}":
            out.append(("lit", "}"))
        else:
            i = int(m.group(1))
            if i < len(args_pieces):
                out.extend(args_pieces[i])
            else:
                out.append(("hole", "other", {"src": f"missing arg {i}"}))
        pos = m.end()
    if pos < len(tmpl):
        out.append(("lit", tmpl[pos:]))
    # merge adjacent literals
    merged = []
    for p in out:
        if p[0] == "lit" and merged and merged[-1][0] == "lit":
            merged[-1] = ("lit", merged[-1][1] + p[1])
        else:
            merged.append(p)
    return merged


class PrinterModel:
    def __init__(self, facts):
        syn = facts.syn
        self.syn = syn
        self.fn = syn.one_fn("to_py", mod="generate::ast")
        self.core = syn.enum_variants("generate::ast::node::Core")
        self.consts = {}
        for name, c in syn.consts.items():
            if "::" in name:
                continue
            e = c["e"]
            if e.get("k") == "lit" and e.get("t") == "int":
                self.consts[name] = int(e["v"])
        body = self.fn["body"]
        m = tail_expr(body)
        m = strip(m) if m else None
        if m is None or m.get("k") != "match" or src(strip(m["e"])) != "core":
            raise AnchorError("to_py is no longer a single `match core { .. }`")
        self.param_core = "core"
        self.core_aliases = set()
        self._inline_depth = 0
        self.arms = []
        for a in m["arms"]:
            variants = []
            fields = {}
            for alt in pat_alternatives(a["pat"]):
                if alt.get("k") == "pstruct":
                    variants.append(alt["p"].split("::")[-1])
                    for fname, fp in alt["fields"]:
                        if fp.get("k") == "pident":
                            fields[fp["name"]] = fname
                elif alt.get("k") == "ppath":
                    variants.append(alt["p"].split("::")[-1])
                else:
                    variants.append("_")
            pieces = self._pieces_of(a["body"], fields, {})
            self.arms.append(Arm(variants, a.get("guard"), pieces, fields, a["body"]))
        # helper tables
        self.precedence = self._table1("precedence")
        self.required = self._table2("required")
        self.chain_level = self._chain_table()
        self.operand_rule = self._operand_rule()

    # ---- hole classification ----
    def _field_of(self, e, fields, locals_):
        e = strip(e)
        if e.get("k") == "path" and e["p"] in fields:
            return fields[e["p"]]
        if e.get("k") == "path" and e["p"] in locals_:
            return None
        return None

    def _level(self, e):
        e = strip(e)
        if e.get("k") == "lit" and e.get("t") == "int":
            return int(e["v"])
        if e.get("k") == "path" and e["p"] in self.consts:
            return self.consts[e["p"]]
        return None

    def _classify_call(self, e, fields, locals_):
        """one text-producing expression -> piece list"""
        e0 = e
        e = strip(e)
        k = e.get("k")
        if (k == "if" and e["c"].get("k") == "let") or (k == "match" and option_match_as_iflet(e) is not None):
            return self._pieces_of_expr(e, fields, locals_)
        if k == "lit" and e.get("t") == "str":
            return [("lit", e["v"])]
        if k == "call" and e["f"].get("k") == "path":
            fname = e["f"]["p"]
            args = e["args"]
            last = fname.split("::")[-1]
            if fname in ("String::new",) and not args:
                return [("lit", "")]
            if fname in ("String::from",) and len(args) == 1:
                return self._classify_call(args[0], fields, locals_)
            if last == "operand" and len(args) == 4:
                fld = self._field_of(args[0], fields, locals_)
                side = src(strip(args[2])).split("::")[-1]
                if src(strip(args[1])) != self.param_core and src(strip(args[1])) not in self.core_aliases:
                    return [("hole", "other", {"src": src(e0)})]
                return [("hole", "operand", {"field": fld, "side": side, "src": src(args[0]), "ind": src(args[3])})]
            if last == "protect" and len(args) == 3:
                fld = self._field_of(args[0], fields, locals_)
                return [("hole", "protect", {"field": fld, "level": self._level(args[1]), "src": src(args[0]), "ind": src(args[2])})]
            if last == "to_py" and len(args) == 2:
                inner = strip(args[0])
                if inner.get("k") == "struct":
                    return [("hole", "delegate", {"variant": inner["p"].split("::")[-1], "node": inner})]
                fld = self._field_of(args[0], fields, locals_)
                return [("hole", "bare", {"field": fld, "src": src(args[0]), "ind": src(args[1])})]
            if last == "comma_delimited" and len(args) == 2:
                return [("hole", "comma", {"field": self._field_of(args[0], fields, locals_), "src": src(args[0]), "ind": src(args[1])})]
            if last == "newline_delimited" and len(args) == 2:
                return [("hole", "nl", {"field": self._field_of(args[0], fields, locals_), "ind": src(args[1]), "src": src(args[0])})]
            if last == "newline_if_body" and len(args) == 2:
                return [("hole", "body", {"field": self._field_of(args[0], fields, locals_), "ind": src(args[1]), "src": src(args[0])})]
            if last == "indent" and len(args) == 1:
                return [("hole", "indent", {"ind": src(args[0])})]
            if last == "custom_delimited" and len(args) == 3:
                sep = strip(args[1])
                inner = None
                a0 = strip(args[0])
                if a0.get("k") == "path" and a0["p"] in locals_:
                    inner = locals_[a0["p"]]
                return [("hole", "join", {"sep": sep.get("v") if sep.get("k") == "lit" else src(sep), "inner": inner})]
            if last == "comma_delm" and len(args) == 1:
                a0 = strip(args[0])
                inner = locals_.get(a0["p"]) if a0.get("k") == "path" else None
                return [("hole", "join", {"sep": ", ", "inner": inner})]
            if last in ("must_use", "format"):
                fa = format_args_of(e)
                if fa:
                    return self._format(fa, fields, locals_)
            # a private text-producing helper of the printer (`binary(left, ">", right, core, ind)`): its body is a template too.
            # Parameters that receive a field of the node stand for that field, a parameter that receives the node itself is an
            # alias of `core`, string literals are literal text.
            if "::" not in fname and last not in ("to_py", "operand", "protect", "comma_delimited", "newline_delimited", "newline_if_body", "indent",
                                                   "custom_delimited", "comma_delm", "precedence", "required", "chain_level") and self._inline_depth < 3:
                hs = self.syn.find_fn(last, mod="generate::ast")
                if len(hs) == 1 and hs[0].get("body") and not hs[0].get("impl_of"):
                    h = hs[0]
                    params = [m["name"] for inp in h["sig"]["inputs"] for m in walk(inp.get("pat", {})) if m.get("k") == "pident"]
                    if len(params) == len(args):
                        f2, l2 = {}, {}
                        aliases = set()
                        okb = True
                        for pn, a in zip(params, args):
                            a_s = strip(a)
                            if a_s.get("k") == "path" and a_s["p"] in fields:
                                f2[pn] = fields[a_s["p"]]
                            elif a_s.get("k") == "path" and a_s["p"] in locals_:
                                l2[pn] = locals_[a_s["p"]]
                            elif a_s.get("k") == "lit" and a_s.get("t") == "str":
                                l2[pn] = [("lit", a_s["v"])]
                            elif a_s.get("k") == "path" and (a_s["p"] == self.param_core or a_s["p"] in self.core_aliases):
                                aliases.add(pn)
                            elif a_s.get("k") == "path" and a_s["p"] == "ind":
                                if pn != "ind":
                                    okb = False   # indentation under another name: not modelled
                            elif a_s.get("k") == "path" and a_s["p"].startswith("Side::"):
                                l2[pn] = a_s["p"]
                            else:
                                okb = False
                        if okb:
                            saved = self.core_aliases
                            self.core_aliases = saved | aliases
                            self._inline_depth += 1
                            try:
                                return self._pieces_of(h["body"], f2, l2)
                            finally:
                                self._inline_depth -= 1
                                self.core_aliases = saved
        if k == "mcall":
            if e["m"] in ("clone", "to_string") and not e["args"]:
                fld = self._field_of(e["recv"], fields, locals_)
                if fld:
                    return [("hole", "lexeme", {"field": fld})]
        if k == "path":
            if e["p"] in locals_ and isinstance(locals_[e["p"]], list):
                if locals_.get("__collected__" + e["p"]):
                    # a `String` collected from a map over a list, printed as it is: the copies are concatenated
                    return [("hole", "join", {"sep": "", "inner": locals_[e["p"]]})]
                return locals_[e["p"]]
            if e["p"] in fields:
                return [("hole", "lexeme", {"field": fields[e["p"]]})]
        if k == "if":
            then = self._pieces_of(e["then"], fields, locals_)
            el = self._pieces_of(e["else"], fields, locals_) if e.get("else") else [("lit", "")]
            return [("hole", "cond", {"test": src(e["c"]), "then": then, "else": el, "node": e})]
        fa = format_args_of(e) if k in ("call", "block", "macro") else None
        if fa:
            return self._format(fa, fields, locals_)
        return [("hole", "other", {"src": src(e0)[:200]})]

    def _format(self, fa, fields, locals_):
        tmpl, args = fa
        arg_pieces = [self._classify_call(a, fields, locals_) for a in args]
        return _split_template(tmpl, arg_pieces)

    def _pieces_of(self, body, fields, locals_):
        """pieces of an arm body / branch block: handles leading `let` statements that pre-compute text"""
        body_s = body
        locals_ = dict(locals_)
        fields = dict(fields)
        if body_s.get("k") == "block":
            stmts = body_s["stmts"]
            for s in stmts[:-1]:
                if s.get("k") == "local" and s.get("init") is not None:
                    self._bind_local(s, fields, locals_)
                elif s.get("k") == "expr" and s.get("semi"):
                    pass
            if not stmts:
                return [("lit", "")]
            last = stmts[-1]
            if last.get("k") == "expr" and not last.get("semi"):
                return self._pieces_of_expr(last["e"], fields, locals_)
            return [("hole", "other", {"src": src(body)[:200]})]
        return self._pieces_of_expr(body_s, fields, locals_)

    def _pieces_of_expr(self, e, fields, locals_):
        e1 = strip(e)
        if e1.get("k") == "block":
            return self._pieces_of(e1, fields, locals_)
        if e1.get("k") == "match" and option_match_as_iflet(e1) is not None:
            e1 = option_match_as_iflet(e1)
        if e1.get("k") == "if" and e1["c"].get("k") == "let":
            # if let Some(x) = field { .. } else { .. }
            c = e1["c"]
            f2 = dict(fields)
            fld = self._field_of(c["e"], fields, locals_)
            for n in walk(c["pat"]):
                if n.get("k") == "pident" and fld:
                    f2[n["name"]] = fld
            then = self._pieces_of(e1["then"], f2, locals_)
            el = self._pieces_of(e1["else"], fields, locals_) if e1.get("else") else [("lit", "")]
            return [("hole", "cond", {"test": src(c), "then": then, "else": el, "node": e1})]
        return self._classify_call(e, fields, locals_)

    def _bind_local(self, s, fields, locals_):
        pat = s["pat"]
        init = strip(s["init"])
        names = [n["name"] for n in walk(pat) if n.get("k") == "pident"]
        # let conds: Vec<String> = conds.iter().map(|c| F(c, ..)).collect();
        if init.get("k") == "mcall" and init["m"] == "collect":
            mp = strip(init["recv"])
            if mp.get("k") == "mcall" and mp["m"] == "map" and mp["args"] and strip(mp["args"][0]).get("k") == "closure":
                cl = strip(mp["args"][0])
                base = strip(mp["recv"])
                while base.get("k") == "mcall" and base["m"] in ("iter", "into_iter"):
                    base = strip(base["recv"])
                fld = self._field_of(base, fields, locals_)
                f2 = dict(fields)
                for p in cl["params"]:
                    for n in walk(p):
                        if n.get("k") == "pident" and fld:
                            f2[n["name"]] = fld
                inner = self._pieces_of_expr(cl["body"], f2, locals_)
                for nm in names:
                    locals_[nm] = inner
                    locals_["__collected__" + nm] = True   # one copy of `inner` per element of the list
                    fields.pop(nm, None)
                return
        if init.get("k") == "tuple" and pat.get("k") == "ptuple" and len(init["elems"]) == len(pat["elems"]):
            for pe, ie in zip(pat["elems"], init["elems"]):
                if pe.get("k") == "pident":
                    locals_[pe["name"]] = self._classify_call(ie, fields, locals_)
                    fields.pop(pe["name"], None)
            return
        pieces = self._classify_call(init, fields, locals_)
        for nm in names:
            locals_[nm] = pieces
            fields.pop(nm, None)

    # ---- the two tables of the precedence-aware printer ----
    def _fold(self, name, args_of, post=lambda v: v):
        """fold the private table function `name` of generate::ast over abstract arguments (rules/smalleval.py): any spelling of the
        same table - arms merged or split, a helper computing the level, an if instead of a match - gives the same result"""
        from .smalleval import SmallEval, NoEval
        fns = self.syn.find_fn(name, mod="generate::ast")
        if len(fns) != 1:
            return None
        local = {f["name"]: f for f in self.syn.fns if f["mod"] == fns[0]["mod"] and f.get("impl_of") is None and f.get("body")}
        ev = SmallEval(local_fns=local, consts=dict(self.consts))
        out = {}
        for key, args in args_of():
            try:
                out[key] = post(ev.call(fns[0], args))
            except NoEval as ex:
                raise AnchorError(f"`{name}` left the analysable fragment for {key} ({ex})")
        unc = ev.uncovered()
        if unc:
            # folded over every Core variant (x every side): a branch that none of them takes depends on something else than the variant
            raise AnchorError(f"`{name}`: {len(unc)} branch(es) are taken by no Core variant, e.g. {unc[0]} - the table depends on more than the variant and the side")
        return out

    def _table1(self, name):
        t = self._fold(name, lambda: [(v, [("variant", "Core::" + v, {})]) for v in self.core])
        if t is None:
            return None
        for v, lv in t.items():
            if not isinstance(lv, int) or isinstance(lv, bool):
                raise AnchorError(f"`{name}`: {v} does not yield an integer level (`{lv}`)")
        return t

    def _table2(self, name):
        t = self._fold(name, lambda: [((v, side), [("variant", "Core::" + v, {}), "Side::" + side]) for v in self.core for side in ("Left", "Middle", "Right")])
        if t is None:
            return None
        for k_, lv in t.items():
            if not isinstance(lv, int) or isinstance(lv, bool):
                raise AnchorError(f"`{name}`: {k_} does not yield an integer level (`{lv}`)")
        return t

    def _chain_table(self):
        """chain_level(core) -> Option<u8>: variants the parser nests to the right at one grammar level"""
        t = self._fold("chain_level", lambda: [(v, [("variant", "Core::" + v, {})]) for v in self.core])
        if t is None:
            return {}
        out = {}
        for v, lv in t.items():
            if lv is None:
                continue
            if not (isinstance(lv, tuple) and lv[0] == "Some" and isinstance(lv[1], int)):
                raise AnchorError(f"`chain_level`: {v} does not yield Some(<integer>) or None (`{lv}`)")
            out[v] = lv[1]
        return out

    def _operand_rule(self):
        """decision table of `operand` over (side, chain level of the parent, chain level of the child): 'plain' = always
        protect(child, required(parent, side)); 'chain' = a right operand whose chain level is that of its parent (and is one) is printed
        bare, everything else is protected.  The function is folded over the 27 combinations (rules/smalleval.py), so any spelling of
        the same decision is accepted; any other decision leaves the modelled fragment and names the combination."""
        from .smalleval import SmallEval, NoEval
        fns = self.syn.find_fn("operand", mod="generate::ast")
        if len(fns) != 1:
            return None
        fn = fns[0]
        levels = [None, ("Some", 1), ("Some", 2)]
        table = {}
        for side in ("Side::Left", "Side::Middle", "Side::Right"):
            for pl in levels:
                for cl in levels:
                    lv = {"parent": pl, "child": cl}
                    ev = SmallEval(funcs={"chain_level": lambda x, lv=lv: lv[x],
                                          "to_py": lambda c, i: ("bare", c, i),
                                          "required": lambda p_, s_: ("required", p_, s_),
                                          "protect": lambda c, l, i: ("protect", c, l, i)})
                    try:
                        names = [inp["pat"]["name"] for inp in fn["sig"]["inputs"]]
                        if names != ["child", "parent", "side", "ind"]:
                            raise AnchorError(f"`operand` has parameters {names}")
                        table[(side, pl, cl)] = ev.call(fn, ["child", "parent", side, "ind"])
                    except NoEval as ex:
                        raise AnchorError(f"`operand` left the analysable fragment ({ex})")
        protect = lambda side: ("protect", "child", ("required", "parent", side), "ind")
        bare = ("bare", "child", "ind")
        if all(v == protect(k[0]) for k, v in table.items()):
            return "plain"
        self.operand_uncovered = []
        dev = []
        for (side, pl, cl), v in table.items():
            want = bare if (side == "Side::Right" and pl is not None and pl == cl) else protect(side)
            if v != want:
                dev.append(f"side {side.split('::')[-1]}, chain level of the parent {pl[1] if pl else None}, of the child {cl[1] if cl else None}: "
                           f"{'printed bare' if v == bare else ('protected' if v == protect(side) else str(v)[:60])}")
        if not dev:
            return "chain"
        raise AnchorError(f"`operand` takes a decision that is not modelled ({len(dev)} of 27 cases), e.g. {dev[0]} - expected: bare only for a right operand "
                          "on the chain level of its parent, protect(child, required(parent, side), ind) otherwise")

    def arms_of(self, variant):
        return [a for a in self.arms if variant in a.variants]


def py_tokens(text):
    """tokenise literal template text the way Python's tokenizer would (operators, names, numbers, brackets)"""
    return re.findall(r"[A-Za-z_][A-Za-z0-9_]*|\d+|\*\*|//|<<|>>|<=|>=|==|!=|->|\"\"\"|[-+*/%&|^~<>=(){}\[\],.:@\"]|\S", text)
